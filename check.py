#!/usr/bin/env python3
"""Entry point of every check:  ./check.py C06 [--tier quick|thorough] [--seed N] [--replay FILE]

exit 0  : the property held on everything explored (KNOWN-FINDING lines may be printed)
exit 1  : a line `VIOLATION property=<id> replay=<path>[ no-failing-input-found]` was printed
"""
import argparse
import importlib
import json
import os
import sys
import time
import traceback

sys.path.insert(0, os.path.dirname(os.path.abspath(__file__)))
import vlib  # noqa: E402


def load_spec(pid):
    mod = importlib.import_module(f"checks.{pid.lower()}")
    return mod


def standard_run(mod, tier, seed, only=None, search_factor=1):
    """translate -> prove -> build -> correspond.  Returns a result dict."""
    spec = mod.SPEC
    pid = spec["id"]
    t0 = time.time()
    r = {
        "pid": pid, "failures": [], "disagreements": [], "proof": None, "stats": {},
        "cases": 0, "distinct_nontrivial": 0, "samples": [], "harness_log": "", "oracle_failures": [],
        "known": [], "extra": {},
    }
    vlib.ensure_dirs()
    # 1. translators (fail closed)
    for tr in spec.get("translators", []):
        try:
            tr()
        except Exception as e:  # broken tie
            r["failures"].append(f"translator {getattr(tr, '__name__', tr)} failed: {e}")
    # 2. proofs
    proof = vlib.lean_prove(pid, spec.get("lean_modules"))
    r["proof"] = proof
    if not proof["ok"]:
        r["failures"] += proof["failures"]
    if tier == "thorough" and proof["ok"]:
        ok, log = vlib.leanchecker(spec.get("lean_modules") or [f"TrustVerif.Props.{pid}"])
        r["extra"]["leanchecker"] = "ok" if ok else "FAILED"
        if not ok:
            r["failures"].append("leanchecker rejected the compiled proofs: " + log[-400:])
    # 3. implementation
    ok, log, secs = vlib.build_harness(tuple(spec.get("features", ("verif-hooks",))))
    r["extra"]["harness_build_s"] = round(secs, 1)
    if not ok:
        r["failures"].append("harness does not build against /repo: " + log[-1500:])
        r["wall"] = time.time() - t0
        return r
    if not os.path.exists(vlib.DRIVER):
        r["failures"].append("lean driver was not built")
        r["wall"] = time.time() - t0
        return r
    # 4. correspondence
    cfg = spec["tiers"][tier]
    ncases = int(cfg["cases"] * search_factor)
    extra = dict(cfg.get("extra", {}))
    if only is not None:
        extra["only"] = only
    cases_path = os.path.join(vlib.WORK, f"{pid}.{tier}.cases.txt")
    model_path = os.path.join(vlib.WORK, f"{pid}.{tier}.model.txt")
    rc, hlog = vlib.run_harness(spec["sub"], seed, ncases, cases_path, extra,
                                timeout=spec.get("timeout", 7200))
    r["harness_log"] = hlog[-3000:]
    if rc != 0:
        r["failures"].append(f"harness exited {rc}: {hlog[-1500:]}")
        r["wall"] = time.time() - t0
        return r
    rc, dlog = vlib.run_driver(spec["sub"], cases_path, model_path)
    if rc != 0:
        r["failures"].append(f"driver exited {rc}: {dlog[-800:]}")
        r["wall"] = time.time() - t0
        return r
    cases = vlib.parse_cases(cases_path)
    dis, bad_ops = vlib.diff_model(cases, model_path)
    if bad_ops:
        r["failures"].append(f"driver answered bad-op {len(bad_ops)} times (harness/driver protocol bug)")
    r["cases"] = len(cases)
    r["ops"] = sum(len(c.ops) for c in cases)
    seen = set()
    for c in cases:
        if "nontrivial" in c.tags:
            seen.add(c.body_hash())
    r["distinct_nontrivial"] = len(seen)
    by_case = {c.n: c for c in cases}
    for c in cases[:2]:
        r["samples"].append({"case": c.n, "lines": c.lines[:14]})
    stats_path = cases_path + ".stats.json"
    if os.path.exists(stats_path):
        r["stats"] = json.load(open(stats_path))
    first = {}
    for d in dis:
        first.setdefault(d["case"], d)
    for n, d in first.items():
        c = by_case.get(n)
        d["case_lines"] = c.lines if c else []
        d["seed"] = seed
        d["tier"] = tier
        d["extra"] = extra
        r["disagreements"].append(d)
    # 5. property-specific extra work (process-level experiments, oracle on the implementation)
    if hasattr(mod, "extra"):
        try:
            ex = mod.extra({"tier": tier, "seed": seed, "cases": cases, "result": r})
            r["extra"].update(ex.get("coverage", {}))
            r["oracle_failures"] += ex.get("oracle_failures", [])
            r["known"] += ex.get("known", [])
            r["failures"] += ex.get("failures", [])
        except Exception:
            r["failures"].append("extra step crashed: " + traceback.format_exc()[-1500:])
    r["wall"] = time.time() - t0
    return r


def decide(mod, r, tier, seed):
    """Turn a result into exit code, VIOLATION lines, evidence."""
    spec = mod.SPEC
    pid = spec["id"]
    violations = 0
    # known findings: never violations; matched by the check's own classifier
    for k in r["known"]:
        print(f"KNOWN-FINDING: property={pid} {k}", flush=True)
    # (a) failing inputs
    for d in r["oracle_failures"][:5]:
        path = vlib.write_replay(pid, {"property": pid, "kind": "oracle-on-implementation", **d})
        vlib.report_violation(pid, path)
        violations += 1
    for d in r["disagreements"][:5]:
        kind = "model-vs-implementation"
        obj = {"property": pid, "kind": kind,
               "what": "the implementation's observable answer differs from the proved model's on this case",
               **d}
        path = vlib.write_replay(pid, obj)
        vlib.report_violation(pid, path, no_input=not spec.get("disagreement_is_violation", True))
        violations += 1
    # (b) broken obligations without a failing input
    if violations == 0 and r["failures"]:
        obj = {"property": pid, "kind": "broken-obligation",
               "no_longer_checks": r["failures"], "seed": seed, "tier": tier,
               "search": f"{r['cases']} cases explored without a failing input"}
        path = vlib.write_replay(pid, obj)
        vlib.report_violation(pid, path, no_input=True)
        violations += 1
    proof = r["proof"] or {}
    coverage = {
        "obligations": max(1, proof.get("obligations", 0)),
        "discharged": proof.get("discharged", 0),
        "checker_cmd": "cd /verif/lean && lake build " + " ".join(spec.get("lean_modules") or [f"TrustVerif.Props.{pid}"])
                       + " && lake env lean ../work/Audit_" + pid + ".lean  (#print axioms of every property theorem)",
        "trusted_base": spec.get("trusted_base", []),
        "theorems": proof.get("theorems", []),
        "audited_files": proof.get("audited_files", []),
        "evaluations": r["cases"],
        "operations_compared": r.get("ops", 0),
        "distinct_nontrivial": r["distinct_nontrivial"],
        "rule": spec.get("rule", ""),
        "samples": r["samples"] or [{"note": "no case was run"}],
        "correspondence_disagreements": len(r["disagreements"]),
        "oracle_failures": len(r["oracle_failures"]),
        "input_distribution": r["stats"],
        "known_findings_reproduced": r["known"],
    }
    coverage.update(r["extra"])
    vlib.write_evidence(pid, tier, seed, "proof", coverage, spec.get("assumptions", []), r["wall"], violations)
    return 1 if violations else 0


def main():
    ap = argparse.ArgumentParser()
    ap.add_argument("pid")
    ap.add_argument("--tier", default=None)
    ap.add_argument("--seed", default=None)
    ap.add_argument("--replay", default=None)
    a = ap.parse_args()
    pid = a.pid.upper()
    tier, seed = vlib.tier_and_seed(a.tier, a.seed)
    mod = load_spec(pid)
    if a.replay:
        obj = json.load(open(a.replay))
        if hasattr(mod, "replay"):
            sys.exit(mod.replay(obj))
        if "case" not in obj:
            print(json.dumps(obj, indent=1))
            print("this replay names a broken obligation, not an input; re-run the check itself")
            sys.exit(1)
        r = standard_run(mod, obj.get("tier", "quick"), obj["seed"], only=obj["case"])
        for d in r["disagreements"]:
            print(f"case {d['case']} op {d['op_index']}: {d['op']}\n  impl : {d['impl']}\n  model: {d['model']}")
        print("replay:", "still fails" if r["disagreements"] or r["failures"] else "passes")
        sys.exit(1 if r["disagreements"] or r["failures"] else 0)
    if hasattr(mod, "run"):
        sys.exit(mod.run(tier, seed))
    r = standard_run(mod, tier, seed)
    if not r["disagreements"] and not r["oracle_failures"] and r["failures"] and r["cases"]:
        # a proof obligation or the tie is broken: search harder for a concrete failing input
        factor = mod.SPEC.get("search_factor", 10)
        r2 = standard_run(mod, tier, seed + 1, search_factor=factor)
        r["disagreements"] = r2["disagreements"]
        r["oracle_failures"] = r2["oracle_failures"]
        r["cases"] += r2["cases"]
        r["wall"] += r2["wall"]
    code = decide(mod, r, tier, seed)
    summary = {k: r[k] for k in ("cases", "distinct_nontrivial")}
    print(f"{pid} {tier} seed={seed}: proofs {r['proof']['discharged']}/{r['proof']['obligations']} "
          f"cases={summary['cases']} nontrivial={summary['distinct_nontrivial']} "
          f"disagreements={len(r['disagreements'])} failures={len(r['failures'])} "
          f"wall={r['wall']:.1f}s -> exit {code}", flush=True)
    sys.exit(code)


if __name__ == "__main__":
    main()
