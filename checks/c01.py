"""C01 — every scan cycle ends in success or a value-dependent fault, never a crash."""
from checks.stcore_common import COMMON_TRUSTED, make_extra, make_replay, translate_faults

SPEC = {
    "id": "C01",
    "sub": "c01",
    "lean_modules": ["TrustVerif.Props.C01"],
    "translators": [translate_faults],
    "tiers": {
        "quick": {"cases": 1200, "extra": {"cycles": 3}},
        "thorough": {"cases": 30000, "extra": {"cycles": 4}},
    },
    # a model/implementation disagreement is first of all a question about the model; the failing
    # inputs of the property come from the oracle on the implementation (extra)
    "disagreement_is_violation": False,
    "rule": "case = generated PROGRAM over BOOL + the 8 integer kinds with := IF CASE FOR WHILE REPEAT EXIT CONTINUE RETURN (stage S1+S2, 35 %), with 1-3 user FUNCTIONs (S4, 25 %: positional / formal calls, defaults, OUT, IN_OUT), with FUNCTION_BLOCK types and instances with state (S5, 20 %) or with one-dimensional arrays and flat structs (S3, 20 %); profiles strict / natural / wild, optionally ill-typed in exactly one place; x 3 scan cycles with input writes between cycles; plus on every run the witnesses of the recorded findings and an exhaustive 657-program matrix over all type pairs (assignment, one operator per class, unary operators, FOR control/bound, CASE selector/label); non-trivial = accepted by the real compiler and at least one cycle completed; distinct = by hash of the case's operation lines",
    "trusted_base": COMMON_TRUSTED,
    "assumptions": [
        "ST-core fragment only: stages S1+S2 and S3 (1-D arrays, flat structs as PROGRAM variables) proved; S4 (FUNCTION calls) and S5 (FB instances as PROGRAM variables) modelled and compared, frame balance proved; nested aggregates, FB instances inside FBs/functions, EN/ENO, methods, strings, REAL, time/date, references, OOP, standard functions are not modelled",
        "the program runs as the single background PROGRAM instance (TestHarness::from_source), no tasks, no I/O bindings",
    ],
}

extra = make_extra("C01")
replay = make_replay("C01")

MANIFEST = {
    "technique": 'Lean 4 proofs about an executable model of the ST interpreter (progress under a decidable guard, unconditional frame balance incl. FUNCTION calls, counterexamples to the full statement) + differential correspondence (verdict, outcome, frames, tagged store) against the real compiler/runtime + oracle on the implementation with recorded findings',
    "level_text": "Proved in Lean (no sorry, axioms propext/Classical.choice/Quot.sound): (1) c01_frames_balanced / c01_frames_every_cycle / c01_call_frames_balanced / c01_fb_call_frames_balanced / c01_frames_balanced_s4 — for EVERY program (accepted or not), every store, every budget and every exit path the scan cycle, every FUNCTION call and every FUNCTION_BLOCK call pop exactly the frame they pushed (stages S1-S5, no typing hypothesis), and c01_never_panics — for every program whose literals compile (typed or not), from every store of well-formed values, no Rust panic site is reachable and the store stays well formed (stages S1-S3); (2) c01_progress_partial / c01_every_cycle_partial — for every program inside the decidable guard Strict, every well-typed input trace, every budget and every cycle index, the cycle completes, reports a value-dependent fault, or (only after a fault latched the resource) ResourceFaulted: never a static-class error, never a panic (stages S1-S3: elementary variables, all statement forms, subscripted and field reads/writes on one-dimensional arrays and flat structs); (3) c01_fault_classes — the classification of enum RuntimeError (regenerated from error.rs on every run, no wildcard) is exactly the property's two lists; (4) seven c01_counterexample_* theorems and c01_full_statement_false: the full statement over the accepted set is still FALSE of the code as it is (mixed signed/unsigned operands, unary minus on unsigned, negative integer exponent, unsigned FOR with negative step, undeclared FOR control variable, ULINT FOR bound cast); three regression facts (c01_return_in_program_completes, c01_case_else_now_rejected, c01_call_empty_args_binds_formally) record the behaviour after the fixes f3b5b76 / 22a8b8f / d406d2d, whose witnesses stay in the harness — a regression is a violation. Every run executes the model and the real code on the same generated programs and compares accept/reject verdict and, per cycle, outcome, frame count and every variable's tagged value; the oracle judges the implementation's own answers and matches failures against known_findings.json.",
    "level_note": 'The theorems are about the hand-written models Model/StCore.lean (interpreter, S1-S3; aggregates kept flattened, one slot per element/field, cross-checked on every S3 case against the nested representation of Model/StExt.lean), Model/StExt.lean (FUNCTION calls S4, FB instances S5) and Model/StCheck.lean / StExtCheck.lean (what the compiler accepts); they are tied to /repo only by the differential run, whose generator bounds what it sees (distribution in the evidence). Progress (no static-class fault, no panic) is proved only inside the guard Strict (exact kinds, no untyped literal next to SINT/INT, no ULINT FOR, no ULINT subscript, element/field slot names not shadowed; RETURN in a PROGRAM is inside the guard since f3b5b76) and only for stages S1-S3; for S4 (FUNCTION calls) and S5 (FB instances) the model (Model/StExt.lean) is compared with the real code on every run but only frame balance is proved, progress there is tested through the oracle. Strings, REAL, time, references, OOP and the standard library are not modelled. Stack overflow by unbounded recursion cannot be exhibited in Lean and is replayed in a child process. 12 recorded open findings for C01 (genuine defects, each with a replayed witness); 7 earlier ones are fixed in /repo.',
}
