"""C01 — every scan cycle ends in success or a value-dependent fault, never a crash."""
from checks.stcore_common import COMMON_TRUSTED, make_extra, translate_faults

SPEC = {
    "id": "C01",
    "sub": "c01",
    "lean_modules": ["TrustVerif.Props.C01"],
    "translators": [translate_faults],
    "tiers": {
        "quick": {"cases": 2000, "extra": {"cycles": 3}},
        "thorough": {"cases": 30000, "extra": {"cycles": 4}},
    },
    # a model/implementation disagreement is first of all a question about the model; the failing
    # inputs of the property come from the oracle on the implementation (extra)
    "disagreement_is_violation": False,
    "rule": "case = generated PROGRAM (BOOL + 8 integer kinds, := IF CASE FOR WHILE REPEAT EXIT CONTINUE RETURN; "
            "profiles strict/natural/wild, optionally ill-typed in exactly one place) x 3 scan cycles with input "
            "writes between cycles; non-trivial = accepted by the real compiler and at least one cycle completed; "
            "distinct = by hash of the case's operation lines",
    "trusted_base": COMMON_TRUSTED,
    "assumptions": [
        "ST-core fragment only (stages S1+S2); strings, REAL, time/date, references, OOP, standard functions are not modelled",
        "the program runs as the single background PROGRAM instance (TestHarness::from_source), no tasks, no I/O bindings",
    ],
}

extra = make_extra("C01")

MANIFEST = {
    "technique": "Lean 4 type-soundness proof (progress: no static-class fault, no panic, frames empty) for an executable "
                 "model of the interpreter + differential correspondence (verdict, outcome, tagged store) against the real "
                 "compiler/runtime + oracle on the implementation with recorded findings",
    "level_text": "see checks/c01.py (filled in by the builder)",
    "level_note": "see checks/c01.py",
}
