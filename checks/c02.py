"""C02 — the interpreter agrees with an independent IEC reference semantics for the ST core."""
from checks.stcore_common import COMMON_TRUSTED, make_extra, make_replay, translate_faults

SPEC = {
    "id": "C02",
    "sub": "c02",
    "lean_modules": ["TrustVerif.Props.C02"],
    "translators": [translate_faults],
    "tiers": {
        "quick": {"cases": 1200, "extra": {"cycles": 3}},
        "thorough": {"cases": 30000, "extra": {"cycles": 4}},
    },
    # a model/implementation disagreement is first of all a question about the model; the failing
    # inputs of the property come from the oracle on the implementation (extra)
    "disagreement_is_violation": False,
    "rule": "case = generated PROGRAM over BOOL + the 8 integer kinds with := IF CASE FOR WHILE REPEAT EXIT CONTINUE RETURN (stage S1+S2, 35 %), with 1-3 user FUNCTIONs (S4, 25 %: positional / formal calls, defaults, OUT, IN_OUT), with FUNCTION_BLOCK types and instances with state (S5, 20 %) or with one-dimensional arrays and flat structs (S3, 20 %); profiles strict / natural / wild, optionally ill-typed in exactly one place; x 3 scan cycles with input writes between cycles; plus on every run the witnesses of the recorded findings and an exhaustive 657-program matrix over all type pairs (assignment, one operator per class, unary operators, FOR control/bound, CASE selector/label); non-trivial = accepted by the real compiler and at least one cycle completed; distinct = by hash of the case's operation lines",
    "trusted_base": COMMON_TRUSTED,
    "assumptions": [
        "ST-core fragment only: stages S1+S2 and S3 (1-D arrays, flat structs as PROGRAM variables) proved; S4 (FUNCTION calls) and S5 (FB instances as PROGRAM variables) modelled and compared, frame balance proved; nested aggregates, FB instances inside FBs/functions, EN/ENO, methods, strings, REAL, time/date, references, OOP, standard functions are not modelled",
        "the program runs as the single background PROGRAM instance (TestHarness::from_source), no tasks, no I/O bindings",
    ],
}

extra = make_extra("C02")
replay = make_replay("C02")

MANIFEST = {
    "technique": "Lean 4 refinement proof (implementation model = independently written, statically typed IEC reference) under a decidable guard + counterexamples + differential correspondence against the real runtime + the reference itself run as the oracle on the implementation's variable dumps",
    "level_text": "Spec (Model/C02.lean) is written from docs/specs/05, 06 and IEC 61131-3, not from the Rust: statically typed, exact arithmetic in the operand type with a fault on overflow, truncating division, MOD with the sign of the dividend, short-circuit AND/OR, FOR evaluated once and tested before each iteration, RETURN as early exit, one element per index of ARRAY[lo..hi] with a fault on a subscript outside the bounds, one component per struct field. Proved in Lean (stages S1-S3): c02_refines_partial / c02_every_cycle_partial — for every program inside the guard Strict, every well-typed input trace, every budget and every cycle, the erased values of ALL variables after the cycle equal the reference's and the cycle faults exactly when, and with the fault, the reference says (also for the partial effects of a faulting cycle); c02_fault_kinds; three c02_counterexample_* theorems show the full statement is FALSE of the code as it is (untyped literals computed in DINT: missed INT overflow; ULINT FOR bounds cast to i64; ULINT subscripts cast to i64 — `ar[u]` with u = 2^64-2 selects ar[-2]; RETURN in a PROGRAM agrees with the reference since f3b5b76 — c02_return_in_program_agrees — and is inside the guard) and c02_repairs_remove_the_counterexamples shows the modelled repairs remove them. Every run: correspondence as for C01, and the reference is executed on every generated program it types and compared with the implementation's dumps; a mismatch is attributed to a recorded finding only if it disappears under the modelled repair, and never inside Strict.",
    "level_note": "The reference is my reading of the specs (choices stated in Model/C02.lean: untyped literal takes the type of its context; FOR increment is arithmetic in the control variable's type; no implicit signed/unsigned mixing). Refinement is proved for stages S1+S2 and S3 (one-dimensional arrays and flat structs of the PROGRAM: a subscript outside the bounds is the reference fault indexOut = IndexOutOfBounds, a constant subscript outside the bounds a static error; in `a[i] := e` the reference evaluates e before i, like the code) inside Strict only; outside Strict agreement is judged by the reference run as oracle. For FUNCTION calls (S4) and FB instances (S5) the reference does not exist yet (c02=na in the oracle): those stages are covered by the model-vs-implementation correspondence only, and their defects (named-argument case, mixed positional/formal call, return-variable case, FB omitted-input reset, FB input defaults, struct field initialisers, `**` associativity) are recorded from hand-written witnesses replayed on every run. REAL, TIME not covered. The theorems are about the hand-written models, tied to /repo by the differential run only.",
}
