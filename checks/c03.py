"""C03 — a variable always holds a value of its declared type."""
from checks.stcore_common import COMMON_TRUSTED, make_extra, make_replay, translate_faults

SPEC = {
    "id": "C03",
    "sub": "c03",
    "lean_modules": ["TrustVerif.Props.C03"],
    "translators": [translate_faults],
    "tiers": {
        "quick": {"cases": 1200, "extra": {"cycles": 3}},
        "thorough": {"cases": 30000, "extra": {"cycles": 4}},
    },
    # a model/implementation disagreement is first of all a question about the model; the failing
    # inputs of the property come from the oracle on the implementation (extra)
    "disagreement_is_violation": False,
    "rule": "case = generated PROGRAM over BOOL + the 8 integer kinds with := IF CASE FOR WHILE REPEAT EXIT CONTINUE RETURN (stage S1+S2, 35 %), with 1-3 user FUNCTIONs (S4, 25 %: positional / formal calls, defaults, OUT, IN_OUT), with FUNCTION_BLOCK types and instances with state (S5, 20 %) or with one-dimensional arrays and flat structs (S3, 20 %); profiles strict / natural / wild, optionally ill-typed in exactly one place; x 3 scan cycles with input writes between cycles; plus on every run the witnesses of the recorded findings and an exhaustive 657-program matrix over all type pairs (assignment, one operator per class, unary operators, FOR control/bound, CASE selector/label); non-trivial = accepted by the real compiler and at least one cycle completed; distinct = by hash of the case's operation lines",
    "trusted_base": COMMON_TRUSTED,
    "assumptions": [
        "ST-core fragment only: stages S1+S2 and S3 (1-D arrays, flat structs as PROGRAM variables) proved; S4 (FUNCTION calls) and S5 (FB instances as PROGRAM variables) modelled and compared, frame balance proved; nested aggregates, FB instances inside FBs/functions, EN/ENO, methods, strings, REAL, time/date, references, OOP, standard functions are not modelled",
        "the program runs as the single background PROGRAM instance (TestHarness::from_source), no tasks, no I/O bindings",
    ],
}

extra = make_extra("C03")
replay = make_replay("C03")

MANIFEST = {
    "technique": 'Lean 4 invariant proof (store typing preserved by every statement, FOR control update and well-typed input write, at every cycle boundary incl. after faulted cycles) under a decidable guard + counterexamples + differential correspondence + tag/range oracle on the real storage dump',
    "level_text": "StoreWT: every declared variable — and every array element and struct field — holds a value whose runtime tag is the declared type and whose magnitude is in range. Proved in Lean (stages S1-S3): c03_init (the initial store is well typed), c03_for_control_keeps_tag (coerce_loop_value never changes the tag — every program), c03_preserved_partial / c03_every_cycle_partial (inside the guard Strict, for every well-typed input trace, every budget and every cycle index the store at the cycle boundary is well typed, after completed and after faulted cycles), c03_envWT_sound (the oracle's executable check implies the invariant); three c03_counterexample_* theorems show the full statement is FALSE of the code as it is (Stmt::Assign stores the value as is; untyped literals are DINT; widening stores the narrower tag; out-of-range literals; the BOOL-into-integer path through the unchecked CASE ELSE is closed since 22a8b8f — c03_case_else_now_rejected) and c03_repair_restores_invariant shows the modelled write-path repair restores it on the witnesses. Every run: correspondence as for C01 and the oracle checks tag = declared type and range on the implementation's dump of every program variable after every cycle; only the exact signature 'integer of another kind in an integer slot' is a recorded finding, everything else is a violation.",
    "level_note": "Proved for stages S1+S2 and S3 (array elements and struct fields are slots of the typed store; the model keeps them flattened, one slot per element/field) inside Strict; FUNCTION parameter passing / OUT write-back (S4) and FB instance variables incl. un-coerced input binding (S5) are modelled, compared and judged by the oracle (every instance variable in the dump) but not proved. I/O latching, debugger writes and restart are represented only as writes of well-typed values between cycles (InputsWT); the real coerce_from_io / restart paths are not modelled (restart is C09's). The theorems are about the hand-written models, tied to /repo by the differential run.",
}
