"""C04 — standard function blocks follow the IEC timing diagrams on every trace."""
import sys

import vlib

# The recorded witness of the repaired finding C04-tp-retrigger (fixed in /repo by b46c61d; see
# known_findings.json and theorem c04_tp_witness in lean/TrustVerif/Props/C04.lean), kept as a regression case.
TP_WITNESS_PT = 10
TP_WITNESS = [(1, 0), (0, 4), (1, 4), (1, 4), (1, 4), (1, 4)]  # (IN, dt)


def iec_tp(trace, pt):
    """IEC 61131-3 TP (non-retriggerable) on a sampled trace [(IN, dt)], time between two calls
    attributed to the later call.  Independent Python oracle evaluated on the implementation's answers to the witness."""
    pt = max(pt, 0)
    running, acc, prev, outs = False, 0, 0, []
    for inp, dt in trace:
        if running:
            acc += dt
            if acc >= pt:
                running = False
        elif inp and not prev:
            acc = dt
            running = acc < pt
        prev = inp
        outs.append("q1e%d" % acc if running else "q0e0")
    return outs


def extra(ctx):
    """Oracle on the implementation for the recorded witness of the repaired finding C04-tp-retrigger: the
    harness always replays it on the real code (cases `w-tp-struct` = pub struct, `w-tp-program` = ST
    program); any answer other than the IEC non-retriggerable pulse is a failing input of the property."""
    res = {"known": [], "oracle_failures": [], "failures": [], "coverage": {}}
    expected = iec_tp(TP_WITNESS, TP_WITNESS_PT)
    seen = 0
    for c in ctx["cases"]:
        if "witness" not in c.tags:
            continue
        seen += 1
        route = "struct" if "tp-retrigger-struct" in c.tags else "program"
        got = [impl for (_op, impl) in c.ops]
        if got == expected:
            res["coverage"]["tp_witness_" + route] = "IEC answer " + " ".join(got)
            continue
        first = next((i for i, (g, e) in enumerate(zip(got, expected)) if g != e), min(len(got), len(expected)))
        sig = "tp-retrigger:call%d:%s!=%s" % (first + 1, (got + ["<missing>"])[first], (expected + ["<none>"])[first])
        res["coverage"]["tp_witness_" + route] = sig
        res["oracle_failures"].append({
            "what": "TP deviates from the IEC non-retriggerable pulse on the recorded witness of finding "
                    "C04-tp-retrigger (a rising edge of IN inside a running pulse must be ignored): regression of "
                    "/repo commit b46c61d or a new defect",
            "route": route, "pt": TP_WITNESS_PT, "trace_in_dt": TP_WITNESS,
            "implementation": got, "iec": expected, "signature": sig,
            "case": c.n, "case_lines": c.lines, "seed": ctx["seed"], "tier": ctx["tier"],
        })
    if seen != 2:
        res["failures"].append("the harness did not emit the two witness cases of C04-tp-retrigger")
    return res


SPEC = {
    "id": "C04",
    "sub": "c04",
    "lean_modules": ["TrustVerif.Props.C04"],
    "tiers": {
        "quick": {"cases": 4000, "extra": {"steps": 40}},
        # the thorough tier runs THOROUGH_CHUNKS chunks of this size with derived seeds (see `run`), so
        # that the cases file of one chunk stays small enough to diff in memory: 5 x 20 000 = 100 000 cases
        "thorough": {"cases": 20000, "extra": {"steps": 48}},
    },
    # The compared observables are the FB outputs after every call (and the stored outputs of every
    # instance after every cycle) — exactly what the property speaks about — and the model is proved
    # equal to the IEC history-level definitions (under the stated guards), so a disagreement is a
    # failing input of the property.
    "disagreement_is_violation": True,
    "rule": "case = one of three routes chosen by case number: S (40%) interleaved calls of the ten pub structs; "
            "X (40%) 1-5 instances of random kinds (all eight integer kinds, TIME/LTIME) driven through "
            "stdlib::fbs::execute_builtin with an arbitrary clock (negative origin, near i64::MAX, steps back); "
            "P (20%) a generated ST program with 2-6 instances (typed counter variants, _LTIME timers, DIFU/DIFD "
            "aliases), 1-2 guarded call sites per instance, run by TestHarness with advance_time. PT from "
            "{0, negative, i64::MIN, 1, small, i64::MAX-1, i64::MAX}, changed while timing with p=0.07; dt from "
            "{0, 1, exactly the remaining time, remaining-1, remaining+1, PT, 2*PT, extreme}; PV/preset CV from the "
            "boundaries of the integer kind. non-trivial = some output changed during the case (a timer's Q "
            "switched, a counter moved or sat at a bound, an edge fired, S and R were both TRUE); distinct = by hash of the "
            "case's operation lines",
    "trusted_base": [
        "Lean 4.33.0 kernel; axioms per theorem listed under 'theorems'",
        "hand-written model lean/TrustVerif/Model/C04.lean of Ton/Tof/Tp/Ctu/Ctd/Ctud/RTrig/FTrig/Sr/Rs::step, the six "
        "counter macros, elapsed_since and the exec_* wrappers, tied by this run's correspondence on three routes",
        "Rust harness vharness c04 (generators; observation of TimerOutput/CounterOutput values, of the instance "
        "variables Q/ET/CV/QU/QD/Q1 through VariableStorage::get_instance_var, and of the bound output variables "
        "of ST call sites); an unset output variable is read as the type's default, as the wrappers do",
        "the history-level Spec in the same file is my reading of IEC 61131-3 Table 43-46/Figure 15 and of "
        "docs/specs/08-standard-function-blocks.md (ET returns to zero after a TOF delay / TP pulse has ended, "
        "as the runtime's own diagrams and fb_timers_full.rs state; F_TRIG fires on a first call with CLK=FALSE)",
    ],
    "assumptions": [
        "time between two calls is attributed to the input seen at the later call (property statement)",
        "exec_ton stores the clamped ET: the TON closed form is proved for the runtime route when PT does not rise "
        "between two consecutive calls with IN=TRUE (in particular PT constant per timing run); the pub struct "
        "Ton satisfies it for arbitrary PT",
        "no i64 overflow: the clock values of an instance fit i64 and do not decrease (c04_*_no_overflow); outside "
        "this the dev-profile panic is modelled and compared (impl panic)",
        "counter inputs PV lie in the range of the counter's integer kind (guaranteed by the typed Value)",
    ],
}

THOROUGH_CHUNKS = 5


def _check():
    import check  # the orchestrator (importable: main() is guarded)
    return check


def run(tier, seed):
    """quick: the standard pipeline.  thorough: the standard pipeline on THOROUGH_CHUNKS chunks with
    derived seeds, merged into one decision and one evidence file."""
    check = _check()
    mod = sys.modules[__name__]
    if tier != "thorough":
        r = check.standard_run(mod, tier, seed)
        if not r["disagreements"] and not r["oracle_failures"] and r["failures"] and r["cases"]:
            r2 = check.standard_run(mod, tier, seed + 1, search_factor=SPEC.get("search_factor", 10))
            r["disagreements"], r["oracle_failures"] = r2["disagreements"], r2["oracle_failures"]
            r["cases"] += r2["cases"]
            r["wall"] += r2["wall"]
    else:
        r = None
        for k in range(THOROUGH_CHUNKS):
            rk = check.standard_run(mod, tier, (seed * 1000003 + k) & 0xFFFFFFFFFFFFFFFF)
            if r is None:
                r = rk
                r["distinct"] = rk["distinct_nontrivial"]
            else:
                for key in ("failures", "disagreements", "oracle_failures"):
                    r[key] += rk[key]
                for k2 in rk["known"]:
                    if k2 not in r["known"]:
                        r["known"].append(k2)
                r["failures"] = sorted(set(r["failures"]))
                r["cases"] += rk["cases"]
                r["ops"] = r.get("ops", 0) + rk.get("ops", 0)
                r["distinct_nontrivial"] += rk["distinct_nontrivial"]
                r["wall"] += rk["wall"]
                for kk, vv in rk["stats"].items():
                    r["stats"][kk] = r["stats"].get(kk, 0) + vv
            if rk["disagreements"] or rk["oracle_failures"]:
                break
        r["extra"]["chunks"] = k + 1
    code = check.decide(mod, r, tier, seed)
    print(f"C04 {tier} seed={seed}: proofs {r['proof']['discharged']}/{r['proof']['obligations']} "
          f"cases={r['cases']} nontrivial={r['distinct_nontrivial']} disagreements={len(r['disagreements'])} "
          f"failures={len(r['failures'])} wall={r['wall']:.1f}s -> exit {code}", flush=True)
    return code


def replay(obj):
    """Re-runs exactly the recorded case (generated cases replay by (tier, seed, case number); the recorded
    witness is re-evaluated by `extra`)."""
    check = _check()
    mod = sys.modules[__name__]
    if "seed" not in obj or "tier" not in obj:
        import json
        print(json.dumps(obj, indent=1))
        print("this replay names a broken obligation, not an input; re-run the check itself")
        return 1
    only = obj.get("case")
    only = int(only) if str(only).isdigit() else 0
    r = check.standard_run(mod, obj["tier"], obj["seed"], only=only)
    for d in r["disagreements"]:
        print(f"case {d['case']} op {d['op_index']}: {d['op']}\n  impl : {d['impl']}\n  model: {d['model']}")
    for d in r["oracle_failures"]:
        print(f"witness [{d['route']}] implementation {d['implementation']}\n  IEC {d['iec']}  ({d['signature']})")
    for k in r["known"]:
        print("KNOWN-FINDING: property=C04", k)
    bad = r["disagreements"] or r["oracle_failures"] or r["failures"]
    print("replay:", "still fails" if bad else "passes")
    return 1 if bad else 0


MANIFEST = {
    "technique": "Lean 4 trace-refinement proofs (state machines of the Rust code = history-level IEC definitions on every "
                 "trace prefix) + differential correspondence against the real function blocks on three routes",
    "level_text": "Proved for every trace, every prefix, unbounded: the step functions of TON/TOF/TP/CTU/CTD/CTUD/R_TRIG/F_TRIG/"
                  "SR/RS (pub structs and exec_* wrappers over instance variables) equal the closed-form IEC definitions over "
                  "the sampled history (TON: time accumulated over the run of consecutive calls with IN; TOF: time since IN "
                  "fell, Q until it reaches PT; CTU/CTD: saturated edge counts since reset/load; CTUD: clamped IEC body; "
                  "edge detectors; SR/RS); ET <= PT and 0 <= ET in every state, ET non-decreasing while timing, no i64 "
                  "overflow under a monotone non-negative clock, counters stay in range for all eight integer kinds "
                  "(saturate, never wrap), edge detectors never fire on two consecutive calls and fire iff there is an edge, "
                  "SR/RS dominance, instance independence (a call changes only the addressed instance; after any "
                  "interleaving every instance holds what its own sub-trace alone produces). TP (c04_tp_trace, "
                  "c04_tp_exec_trace, c04_tp_et_monotone) is the IEC non-retriggerable pulse on every trace since the "
                  "repair of finding C04-tp-retrigger (/repo b46c61d); its witness (c04_tp_witness) is replayed on the real "
                  "code through the pub struct and through an ST program on every run, and any deviation is a violation.",
    "level_note": "Trusted: Lean kernel + propext/Quot.sound/Classical.choice; the hand-written model (validated only by the "
                  "differential run: ~175k FB calls per quick run, 5.3M per thorough run, through the pub structs, "
                  "execute_builtin and generated ST programs incl. nested wrapper FBs); my reading of IEC 61131-3 in Spec. "
                  "Spec follows the runtime's documented diagrams (docs/specs/08 par. 5, asserted by fb_timers_full.rs / "
                  "iec_timers.rs) where they differ from IEC Figure 15: ET returns to zero once a TOF delay has expired / a "
                  "TP pulse has ended instead of holding PT (c04_documented_et_reset_example), and F_TRIG fires on a first "
                  "call with CLK=FALSE. exec_ton stores the clamped ET, so its closed form is proved for traces in which PT "
                  "does not rise between two consecutive calls with IN=TRUE (c04_ton_exec_guard_needed shows the guard is "
                  "needed; the pub struct Ton needs no guard). Only tested, not proved: that the runtime's call binding "
                  "(arguments -> instance variables -> bound outputs) and VariableStorage implement the modelled store. "
                  "SINT/USINT/UINT counters are unreachable from checked ST (E205) and are exercised through "
                  "execute_builtin only. Closed-form counter theorems assume PV within the kind's range (guaranteed by the "
                  "typed Value).",
}
