"""C05 — execution and compilation are deterministic and reproducible."""
import json
import os
import re

import vlib
from checks import c05_scan

GENERATED = os.path.join(vlib.LEAN, "TrustVerif", "Generated", "HashUses.lean")
SCAN_JSON = os.path.join(vlib.WORK, "C05.hash_uses.json")


def repo_src_root():
    """The trust-runtime sources the harness is built against (harness/Cargo.toml path dependency), so
    that the scan and the differential run always look at the same tree."""
    toml = open(os.path.join(vlib.HARNESS, "Cargo.toml")).read()
    m = re.search(r'trust-runtime\s*=\s*\{\s*path\s*=\s*"([^"]+)"', toml)
    if not m:
        raise RuntimeError("harness/Cargo.toml: trust-runtime path dependency not found")
    root = os.path.join(m.group(1), "src")
    if not os.path.isdir(root):
        raise RuntimeError(f"{root} does not exist")
    return root


def translate_hash_uses():
    """T-tie: regenerate Generated/HashUses.lean from the Rust sources (fail closed)."""
    root = repo_src_root()
    sc, rows = c05_scan.scan(root)
    crates_root = os.path.dirname(os.path.dirname(root))
    front_end = c05_scan.front_end_std_hash(crates_root)
    env_rows = c05_scan.env_inputs(crates_root, root)
    text = c05_scan.render_lean(rows, root, front_end, env_rows)
    os.makedirs(os.path.dirname(GENERATED), exist_ok=True)
    if not os.path.exists(GENERATED) or open(GENERATED, encoding="utf-8").read() != text:
        with open(GENERATED, "w", encoding="utf-8") as f:
            f.write(text)
    vlib.ensure_dirs()
    with open(SCAN_JSON, "w") as f:
        json.dump({"root": root, "rows": rows, "bindings": sc.bindings, "front_end_std_hash": front_end,
                   "env_rows": env_rows}, f, indent=1)


SPEC = {
    "id": "C05",
    "sub": "c05",
    "lean_modules": ["TrustVerif.Props.C05"],
    "translators": [translate_hash_uses],
    "tiers": {
        "quick": {"cases": 32, "extra": {"children": 4, "cycles": 10}},
        "thorough": {"cases": 800, "extra": {"children": 5, "cycles": 16}},
    },
    "timeout": 7200,
    # The compared observables are the container bytes and the per-cycle dumps (variables, outputs,
    # faults, events) of independent OS processes; the model side of every `x...` op is the property's own
    # statement (`agree`: all processes observed the same value, proved equivalent to the pairwise
    # quantifier in c05_agree_iff_pairwise), so a disagreement is a failing input.  `pouindex`, `vtables`
    # and `strtab` compare the decoded container of the parent with the proved models of PouIdMap,
    # method_table_for and StringInterner.  `xrepub` (publishing the same variable state again must give the
    # same %Q/%M images) and `xconst` (image bytes bound only to never-assigned variables must not change from
    # cycle to cycle) are the same statement inside ONE process, across flushes / cycles.
    "disagreement_is_violation": True,
    "rule": "case = generated multi-file ST project (enums, structs, array aliases, functions, function blocks with "
            "methods/inheritance/standard FBs, classes, interfaces, plain/direct-addressed globals, 1-6 programs, "
            "CONFIGURATION with 0-3 tasks, 1 in 5 three times larger, 1 in 16 deliberately ill-typed) x generated trace "
            "(dt incl. 0 and sub-ms, BOOL/DINT inputs, direct inputs, 1 in 6 with a warm/cold restart); projects declare "
            ">= 2 initialised VAR_GLOBAL RETAIN variables, scalars of 15 elementary types, subrange/alias/REF_TO types, and "
            "in half of the projects 2-4 library NAMESPACEs (plain, nested blocks, at most one dotted) that declare the same "
            "simple names (struct / enum / subrange types, function blocks, functions, classes) with different contents, and "
            "2-5 consumers (programs, function blocks, functions, class methods; at file level or inside 1-2 further "
            "namespaces) that reach them only through USING directives at file level, on the enclosing namespaces, on the POU "
            "and on the method (single or comma lists, before or after the consumers), with the same namespace imported twice "
            "on the scope chain and >= 2 imported namespaces declaring a used name (only names the checker resolves "
            "unambiguously are used); in half of the projects a program with 4-10 formal (named-argument) calls, arguments "
            "written in random order, whose argument expressions each leave their own digit in a log (VAR_IN_OUT, global "
            "through VAR_EXTERNAL, method changing its instance): every extensible standard function that can be called "
            "formally (ADD MUL MIN MAX MUX GT GE EQ LE LT CONCAT, 2-4 IN arguments), fixed-arity ones (SUB DIV SEL LIMIT "
            "FIND), user functions, methods and function-block invocations, and in half of those a call in which >= 2 "
            "arguments fault in different ways (division by zero, modulo by zero, array index) next to arguments with side "
            "effects, from a given execution of the program on; "
            "groups of overlapping %Q/%M bindings (X, B, W, D, L starting in the same byte or overlapping it; globals and "
            "program variables; some assigned every cycle with non-commuting values, some never assigned), and in half of "
            "the projects 2-3 equally long programs with labels and JMP; sources carry relative, partly non-normalised "
            "paths; every case is compiled through CompileSession and two further public entry points (function API with "
            "paths always, one of bytes/module x with/without paths in rotation); the children differ in working directory "
            "(labelled files present / present with other contents / absent / behind a symlinked directory / behind "
            "symlinked sub-directories), HOME, TMPDIR, LANG, LC_ALL, TZ, argv[0], GLIBC_TUNABLES, MALLOC_ARENA_MAX, "
            "MALLOC_PERTURB_, environment size, number of warm-up projects run before in the observing thread, and unrelated "
            "live allocations between cycles; every case is "
            "compiled and run twice in the parent (two threads) and once in each of >= 4 freshly spawned child processes; "
            "non-trivial = the container interned >= 24 strings, has >= 6 POUs and >= 8 cycles ran in every process; "
            "distinct = by hash of the case's operation lines",
    "trusted_base": [
        "Lean 4.33.0 kernel; axioms per theorem listed under 'theorems' (propext, Quot.sound only)",
        "hand-written model lean/TrustVerif/Model/C05.lean (hash map with arbitrary layout, lookup-only client code, "
        "StringInterner, PouIdMap + POU emission order, method_table_for, type_index, ref_index_for, file_path_index, "
        "alloc_for_temp_pairs, duplicate-name sets, hierarchical I/O map, import list + first-match resolution, named-argument "
        "binding with a slot table); PouIdMap, method tables and the interner "
        "are tied by this run's correspondence on the decoded container, the others only by the scanned table",
        "translator checks/c05_scan.py (syntactic scan of trust-runtime's compile and execution path - bytecode/**, "
        "harness/**, runtime/**, eval/**, stdlib/**, value/**, debug/**, memory.rs, io.rs, instance.rs, task.rs, ... - "
        "for HashMap/HashSet bindings and the operations applied to them, and of trust-hir/trust-syntax for any std hash "
        "container; receiver resolution is by name and declared type, see level_note)",
        "two hand-reviewed order-exposing uses (`reviewedBenign` in Model/C05.lean), each backed by a Lean theorem "
        "about a model of that loop (commuting updates; retain with a pure predicate)",
        "15 hand-reviewed environment inputs (`reviewedEnv` in Model/C05.lean: debug trace switches, metrics timers, "
        "execution_deadline, file retain store, SourceKey canonicalisation used for identity only)",
        "Rust harness vharness c05 (project generator, child-process protocol, canonical per-cycle dump, FNV-1a "
        "128-bit digests standing for equality of observations)",
        "std::collections::HashMap/HashSet are lawful finite maps whose only process-dependent behaviour is their "
        "iteration order; rustc_hash::FxHashMap has no per-process seed; IndexMap iterates in insertion order",
    ],
    "assumptions": [
        "Runtime::execution_deadline is None (the default; it is the one wall-clock input of the evaluator and is "
        "only set by the `trust-runtime test` command)",
        "no metrics sink / retain store / I/O driver is attached (they are outside the cycle's pure part)",
        "REAL/LREAL values are compared bit-for-bit across processes of the same binary on the same machine only",
        "failed compilations are compared by class (rejected in every process); diagnostics text is measured, not asserted",
    ],
}

MANIFEST = {
    "technique": "Lean 4 proof that lookup-only client code of a hash map is independent of the map's internal order "
                 "(simulation with an order-free semantics), closed forms of the interner and of PouIdMap, a generated "
                 "table of every hash-container operation on the compile/execute path checked by `decide` on every run, "
                 "and cross-process differential runs (container bytes and per-cycle dumps) of generated projects",
    "level_text": "Proved for every layout function (an arbitrary permutation after every mutation), every key set and every "
                  "request sequence, without bound: client code that touches hash maps only through "
                  "get/contains/insert/entry/remove/len computes the result of a semantics in which maps have no order "
                  "(c05_lookup_only, _pair, _from) and iteration really exposes the order (c05_iter_exposes_order); the "
                  "string interner returns exactly the distinct requests in first-seen order (c05_intern_order_free); "
                  "PouIdMap ids and the POU emission order are the positions in the IndexMap iteration order "
                  "(c05_pou_index_closed_form); vtables, type table, ref/string/debug tables, FOR temporaries, duplicate-name "
                  "detection and hierarchical I/O are layout-independent (c05_*_order_free); a clean-up of repeated USING imports that keeps first occurrences leaves every first-match "
                  "lookup unchanged while rebuilding the list from a hash set exposes its order (c05_using_dedup_order_free, "
                  "c05_using_rebuild_exposes_order); a formal call that evaluates its arguments in written order and files the "
                  "values in a lookup-only slot table gives the same values, fault and state under every layout, the state being "
                  "the effects in written order, while evaluating during iteration of the table exposes its order "
                  "(c05_named_args_order_free, _effects_in_written_order, _iter_exposes_order); per-cycle environment "
                  "independence lifts to whole traces (c05_trace_env_free). The table of all HashMap/HashSet operations in "
                  "trust-runtime's compile and execution path, regenerated from the sources on every run, contains only "
                  "order-free operations plus two reviewed loops whose order-independence is proved on a model "
                  "(c05_no_order_exposure, c05_reviewed_*), and trust-hir/trust-syntax contain no std hash container "
                  "(c05_front_end_std_hash_free); a second generated table lists every thread_local!, mutable static, "
                  "address-derived value, std::env read, file-system access, clock read, process/thread id, thread spawn, "
                  "explicit randomness and machine query of the same files and each is a reviewed site "
                  "(c05_env_inputs_reviewed). Each run compiles generated projects in the parent (twice) and in >= 4 fresh "
                  "OS processes (different RandomState, ASLR, heap pre-fill, thread, environment size, wall-clock pacing) and "
                  "compares container bytes; runs the same input/clock trace in each and compares, per cycle, all globals, "
                  "retained values, instances, I/O images, direct addresses, faults, overrun counters and runtime events; checks "
                  "inside one process that re-publishing a cycle's state and never-assigned overlapping bindings give the same "
                  "%Q/%M image bytes at every cycle; and "
                  "compares the decoded POU index, method tables and string table with the proved models.",
    "level_note": "Partial by design: the encoder and the evaluator as a whole are not modelled; their determinism is argued "
                  "from the proved lookup-only lemma + the scanned table and is tested across processes. The scan is "
                  "syntactic: receivers are resolved by name, declared type and constructor; a field access on an untyped "
                  "receiver whose field name is shared with a non-hash struct is listed as ambiguous (4 rows, all in "
                  "order-free contexts; in an iterating context it fails closed); every HashMap/HashSet token of a scanned file "
                  "that does not belong to a recognised declaration is listed as `unknown` (fails closed); macros and "
                  "trait-object indirection are not followed. FxHashMap iteration is trusted to be seed-free (a pointer-keyed Fx map would be layout "
                  "dependent; only the cross-process runs would see that). Wall-clock independence is argued from "
                  "EvalContext.now being the only time source (execution_deadline = None) and tested by pacing some children. "
                  "Memory-layout independence is tested only through ASLR, different heap pre-fill and thread stacks. "
                  "Trusted: Lean kernel, the scan, the Rust harness, std/IndexMap/FxHashMap semantics.",
}


# mirror of `reviewedBenign` in lean/TrustVerif/Model/C05.lean (used only to word the failure messages; the
# decision is taken by the Lean theorem c05_no_order_exposure)
REVIEWED = {
    ("harness/config.rs", "apply_program_retain_overrides::retain_by_type", "forIn"),
    ("debug/control.rs", "DebugState.frame_locations", "retain"),
}


REVIEWED_ENV = {
    ("trust-hir/src/db/queries/salsa_backend.rs", "default", "envRead"),
    ("trust-hir/src/project.rs", "normalize_path", "fsAccess"),
    ("trust-runtime/src/debug/trace.rs", "trace_enabled", "staticInterior"),
    ("trust-runtime/src/debug/trace.rs", "trace_enabled", "envRead"),
    ("trust-runtime/src/debug/trace.rs", "trace_log_file", "staticInterior"),
    ("trust-runtime/src/debug/trace.rs", "trace_log_file", "envRead"),
    ("trust-runtime/src/debug/trace.rs", "trace_log_file", "fsAccess"),
    ("trust-runtime/src/eval/stmt.rs", "check_execution_budget", "wallClock"),
    ("trust-runtime/src/retain.rs", "write_bytes", "fsAccess"),
    ("trust-runtime/src/retain.rs", "read_bytes", "fsAccess"),
    ("trust-runtime/src/retain.rs", "load", "fsAccess"),
    ("trust-runtime/src/runtime/cycle.rs", "execute_cycle", "wallClock"),
    ("trust-runtime/src/runtime/cycle.rs", "execute_program_by_name", "wallClock"),
    ("trust-runtime/src/runtime/cycle.rs", "execute_function_block_ref", "wallClock"),
    ("trust-runtime/src/runtime/metrics_subsystem.rs", "start_timer", "wallClock"),
}


def extra(ctx):
    """Coverage details for the evidence: the scanned table and the process-level statistics."""
    cov = {}
    try:
        data = json.load(open(SCAN_JSON))
        rows = data["rows"]
        ops = {}
        for r in rows:
            key = f"{r['hasher']}:{r['op']}"
            ops[key] = ops.get(key, 0) + 1
        cov["hash_use_rows"] = len(rows)
        cov["hash_bindings"] = len(data["bindings"])
        cov["hash_use_histogram"] = ops
        cov["hash_scan_root"] = data["root"]
        cov["hash_scan_files_with_hash_bindings"] = sorted({r["file"] for r in rows})
        cov["hash_scan_front_end_std_hash"] = data.get("front_end_std_hash", [])
        cov["hash_scan_ambiguous_rows"] = [f"{r['file']}:{r['line']} {r['text']}" for r in rows
                                           if r["op"] == "ambiguousForeign"]
        exposing = [r for r in rows if r["hasher"] == "std" and r["op"] not in c05_scan.ORDER_FREE]
        reviewed = [r for r in exposing if (r["file"], r["binding"], r["op"]) in REVIEWED]
        unreviewed = [r for r in exposing if (r["file"], r["binding"], r["op"]) not in REVIEWED]
        cov["hash_scan_reviewed_rows"] = [f"{r['file']}:{r['line']} {r['op']} {r['text']}" for r in reviewed]
        cov["hash_scan_order_exposing_rows"] = [f"{r['file']}:{r['line']} {r['op']} {r['text']}" for r in unreviewed]
        scan_failures = [f"order-exposing use of a std hash container: {r['file']}:{r['line']} [{r['op']}] {r['text']}"
                         for r in unreviewed]
        if len(reviewed) > len(REVIEWED):
            scan_failures.append("a reviewed exception of the hash-use table is matched more than once: "
                                 + "; ".join(cov["hash_scan_reviewed_rows"]))
        env_rows = data.get("env_rows", [])
        cov["env_input_rows"] = [f"{r['file']}:{r['line']} {r['kind']} {r['fn']}: {r['text']}" for r in env_rows]
        for r in env_rows:
            if (r["file"], r["fn"], r["kind"]) not in REVIEWED_ENV:
                scan_failures.append(f"unreviewed environment input: {r['file']}:{r['line']} [{r['kind']}] in fn {r['fn']}: {r['text']}")
        for (f, ln, t) in data.get("front_end_std_hash", []):
            scan_failures.append(f"std hash container in a front-end crate: {f}:{ln} {t}")
    except Exception as e:  # the translator already reported a failure
        cov["hash_scan_error"] = str(e)
        scan_failures = []
    failures = list(scan_failures)
    # self-test of the experiment: in every case the observing processes/threads must really have iterated a
    # std HashMap in >= 3 different orders; otherwise hash seeds are somehow fixed and the run shows nothing
    stats = ctx["result"].get("stats", {})
    ncases = stats.get("cases", 0)
    sens = stats.get("selftest_cases_with_3plus_hash_orders", 0)
    cov["selftest_cases_with_3plus_hash_orders"] = sens
    if ncases and sens < ncases:
        failures.append(f"cross-process experiment lost its sensitivity: only {sens} of {ncases} cases saw >= 3 "
                        "distinct std::HashMap iteration orders among the observing processes")
    # self-test of the generator: the two order families (import order, argument evaluation order) are present
    # with the ingredients that make an order change observable
    fam = {}
    for c in ctx.get("cases", []):
        for t in getattr(c, "tags", []):
            if t.startswith("ns") or t.startswith("args"):
                fam[t] = fam.get(t, 0) + 1
    cov["order_family_cases"] = dict(sorted(fam.items()))
    if ncases >= 24:
        for need in ("ns-import-twice-and-clash", "args"):
            if fam.get(need, 0) == 0:
                failures.append(f"generator self-test: no case of this run carries the family `{need}`")
    if stats.get("stopped_after_hangs", 0):
        failures.append("three in-process observations did not finish (abandoned threads): generation stopped early")
    if ncases and stats.get("child_failed", 0):
        failures.append(f"{stats['child_failed']} child process(es) crashed or produced no observation")
    return {"coverage": cov, "failures": failures}
