"""Translator of C05: scans the anchored Rust files for HashMap/HashSet bindings and every operation
applied to them, and writes lean/TrustVerif/Generated/HashUses.lean.

It is a small syntactic analysis (no type inference):

* comments, string and char literals are blanked first;
* `struct` definitions give a table  struct -> field -> type text  (for the scanned files, and a
  crate-wide index of field names used only to decide whether a field name is ambiguous);
* hash-typed *bindings* are: struct fields, `let` bindings, destructured fields, function
  parameters whose declared type mentions `HashMap|HashSet|FxHashMap|FxHashSet`, `let` bindings
  whose initialiser is a hash constructor / `.collect::<Hash..>()` / a call of a scanned function
  whose return type is hash-typed / another hash binding;
* a *use* is every occurrence of such a binding: local bindings by identifier inside the function
  that declares them; fields by `<receiver>.<field>` where the receiver's struct type is resolved
  from `self` + the enclosing `impl`, declared parameter types, constructor-initialised locals and
  field-type chains.  A field access whose receiver cannot be typed is a use if the field name is
  declared only by hash-carrying structs in the crate, and is listed as `ambiguousForeign`
  otherwise (stated approximation);
* every use is classified by its syntactic context into a `HashOp`; whatever is not recognised
  becomes `unknown`, which is not order-free, so the Lean theorem fails (fail closed).

The translator raises (=> broken tie) if an anchored file is missing, if it finds no binding at all
in a file that is known to contain some, or if braces do not balance.
"""
import os
import re

HASH_RE = re.compile(r"\b(Fx)?Hash(Map|Set)\b")
IDENT = r"[A-Za-z_][A-Za-z0-9_]*"

# Scanned part of crates/trust-runtime/src: the whole compile path (harness/**, bytecode/**) and the whole
# execution path (runtime/**, eval/**, stdlib/**, value/**, debug/**, memory, io, instances, tasks).  This is a
# superset of the files DESIGN.md names (bytecode/encoder/*, bytecode/encode.rs, runtime/*, memory.rs, io.rs,
# harness/build.rs).  Directories are walked recursively at run time, so new files are picked up.
SCAN_DIRS = ["bytecode", "runtime", "harness", "eval", "stdlib", "value", "debug"]
SCAN_FILES = ["memory.rs", "io.rs", "instance.rs", "task.rs", "error.rs", "datetime.rs", "numeric.rs", "retain.rs"]
# Front end crates (parser, type checker): they must not contain std hash containers at all (they use
# rustc_hash); every token `HashMap`/`HashSet` without the `Fx` prefix outside tests is listed.
FRONT_END = ["trust-hir/src", "trust-syntax/src"]
# files that must contain at least one std-hash binding (sanity: the scan really sees them)
MUST_HAVE = ["bytecode/encoder/mod.rs", "bytecode/encoder/pou.rs", "bytecode/encoder/locals.rs",
             "io.rs", "harness/build.rs"]

METHOD_OPS = {
    "new": "new", "default": "new", "with_capacity": "withCapacity", "with_hasher": "new",
    "with_capacity_and_hasher": "withCapacity",
    "get": "get", "get_key_value": "get", "get_mut": "getMut", "contains": "contains",
    "contains_key": "containsKey", "insert": "insert", "replace": "insert", "entry": "entry",
    "get_or_insert_with": "entry", "remove": "remove", "remove_entry": "remove", "take": "remove",
    "len": "len", "is_empty": "isEmpty", "clear": "clear", "reserve": "reserve",
    "shrink_to_fit": "reserve", "clone": "clone", "extend": "insert",
    "is_subset": "contains", "is_superset": "contains", "is_disjoint": "contains",
    "iter": "iter", "iter_mut": "iterMut", "into_iter": "intoIter", "keys": "keys",
    "values": "values", "values_mut": "valuesMut", "into_keys": "intoKeys",
    "into_values": "intoValues", "drain": "drain", "retain": "retain",
    "union": "iter", "intersection": "iter", "difference": "iter", "symmetric_difference": "iter",
    "extract_if": "drain",
}
ORDER_FREE = {"new", "withCapacity", "get", "getMut", "contains", "containsKey", "insert", "entry", "remove",
              "len", "isEmpty", "clear", "reserve", "clone", "collectInto", "moveTo", "passToScanned", "declare",
              "ambiguousForeign"}
EXPOSING = {"iter", "iterMut", "intoIter", "keys", "values", "valuesMut", "intoKeys", "intoValues", "drain",
            "retain", "forIn", "debugFmt", "extendFrom"}
WRAPPERS = {"Ok", "Some", "Box::new", "Rc::new", "Arc::new", "RefCell::new", "Mutex::new"}


class ScanError(Exception):
    pass


def blank_noncode(src):
    """Replace comments, string literals and char literals by spaces (newlines kept)."""
    out = list(src)
    i, n = 0, len(src)

    def blank(a, b):
        for j in range(a, b):
            if out[j] != "\n":
                out[j] = " "

    while i < n:
        c = src[i]
        if src.startswith("//", i):
            j = src.find("\n", i)
            j = n if j < 0 else j
            blank(i, j)
            i = j
        elif src.startswith("/*", i):
            depth, j = 1, i + 2
            while j < n and depth:
                if src.startswith("/*", j):
                    depth += 1
                    j += 2
                elif src.startswith("*/", j):
                    depth -= 1
                    j += 2
                else:
                    j += 1
            blank(i, j)
            i = j
        elif c == "r" and re.match(r'r#*"', src[i:i + 12]) and (i == 0 or not (src[i - 1].isalnum() or src[i - 1] == "_")):
            m = re.match(r'r(#*)"', src[i:])
            hashes = m.group(1)
            end = src.find('"' + hashes, i + len(m.group(0)))
            if end < 0:
                raise ScanError("unterminated raw string")
            j = end + 1 + len(hashes)
            blank(i + len(m.group(0)), end)
            i = j
        elif c == '"':
            j = i + 1
            while j < n and src[j] != '"':
                j += 2 if src[j] == "\\" else 1
            blank(i + 1, j)
            i = j + 1
        elif c == "'":
            # char literal or lifetime
            m = re.match(r"'(\\.[^']*|[^'\\])'", src[i:])
            if m:
                blank(i + 1, i + len(m.group(0)) - 1)
                i += len(m.group(0))
            else:
                i += 1
        else:
            i += 1
    return "".join(out)


def match_brace(text, open_idx, open_ch="{", close_ch="}"):
    depth = 0
    for j in range(open_idx, len(text)):
        ch = text[j]
        if ch == open_ch:
            depth += 1
        elif ch == close_ch:
            depth -= 1
            if depth == 0:
                return j
    raise ScanError("unbalanced %s at offset %d" % (open_ch, open_idx))


def split_top(text, sep=","):
    """Split at top-level separators (outside (), [], {}, <>)."""
    parts, depth, cur = [], 0, []
    prev = ""
    for ch in text:
        if ch in "([{<":
            depth += 1
        elif ch in ")]}":
            depth -= 1
        elif ch == ">" and prev != "-" and prev != "=":
            depth -= 1
        if ch == sep and depth == 0:
            parts.append("".join(cur))
            cur = []
        else:
            cur.append(ch)
        prev = ch
    if "".join(cur).strip():
        parts.append("".join(cur))
    return parts


def module_subtree(rel):
    """Path prefix of the files that can see a private field declared in file `rel`."""
    d, base = os.path.split(rel)
    if base == "mod.rs" or base == "lib.rs":
        return d + "/" if d else ""
    return rel[:-3]     # `io.rs` -> `io` (matches io.rs and io/...)


def hasher_of(type_text):
    m = HASH_RE.search(type_text or "")
    if not m:
        return None
    return "fx" if m.group(1) else "std"


def line_of(text, idx):
    return text.count("\n", 0, idx) + 1


class FileInfo:
    def __init__(self, rel, raw):
        self.rel = rel
        self.raw = raw
        self.code = blank_noncode(raw)
        self.raw_lines = raw.split("\n")
        self.structs = {}     # name -> {field: (type text, offset)}
        self.impls = []       # (start, end, type name)
        self.fns = []         # dict(name, params, ret, body_start, body_end, sig_start)
        self.parse_items()

    def parse_items(self):
        code = self.code
        for m in re.finditer(r"\bstruct\s+(%s)\s*(<[^{;(]*>)?\s*(where[^{]*)?\{" % IDENT, code):
            name = m.group(1)
            ob = m.end() - 1
            cb = match_brace(code, ob)
            fields = {}
            body = code[ob + 1:cb]
            off = ob + 1
            for part in split_top(body):
                fm = re.match(r"\s*(?:#\[[^\]]*\]\s*)*(pub(?:\s*\([^)]*\))?\s+)?(%s)\s*:\s*(.+)$" % IDENT, part, re.S)
                if fm:
                    fields[fm.group(2)] = (fm.group(3).strip(), off + part.find(fm.group(2)), bool(fm.group(1)))
                off += len(part) + 1
            self.structs[name] = fields
        for m in re.finditer(r"(?m)^[ \t]*(?:unsafe[ \t]+)?impl\b\s*(<[^{]*?>)?\s*([^{;()]*?)\{", code):
            head = m.group(2)
            if " for " in head:
                head = head.split(" for ", 1)[1]
            tm = re.match(r"\s*(?:&\s*)?(?:[\w:]*::)?(%s)" % IDENT, head)
            if not tm:
                continue
            ob = m.end() - 1
            cb = match_brace(code, ob)
            self.impls.append((ob, cb, tm.group(1)))
        for m in re.finditer(r"\bfn\s+(%s)\s*(<[^(]*>)?\s*\(" % IDENT, code):
            op = m.end() - 1
            cp = match_brace(code, op, "(", ")")
            rest = code[cp + 1:]
            em = re.match(r"\s*(->\s*([^{;]*?))?\s*(where[^{;]*)?([{;])", rest, re.S)
            if not em:
                continue
            ret = (em.group(2) or "").strip()
            if em.group(4) == ";":
                continue
            ob = cp + 1 + em.end() - 1
            cb = match_brace(code, ob)
            self.fns.append({"name": m.group(1), "params": code[op + 1:cp], "params_off": op + 1,
                             "ret": ret, "ret_off": cp + 1 + (em.start(2) if em.group(2) else 0),
                             "body_start": ob, "body_end": cb, "sig_start": m.start()})

    def impl_type_at(self, idx):
        best = None
        for (a, b, t) in self.impls:
            if a <= idx <= b and (best is None or a > best[0]):
                best = (a, t)
        return best[1] if best else None

    def src_line(self, idx):
        return self.raw_lines[line_of(self.code, idx) - 1].strip()


class Scanner:
    def __init__(self, src_root):
        self.root = src_root
        self.files = []
        self.rows = []        # dict(file, line, binding, hasher, op, text)
        self.accounted = {}   # file rel -> list of (start, end) spans whose hash tokens belong to a binding
        self.bindings = []    # dict(file, line, name, hasher, kind)
        rels = []
        for d in SCAN_DIRS:
            full = os.path.join(src_root, d)
            if not os.path.isdir(full):
                raise ScanError(f"anchored directory missing: {d}")
            for dirpath, dirs, names in os.walk(full):
                dirs.sort()
                for f in sorted(names):
                    if f.endswith(".rs"):
                        rels.append(os.path.relpath(os.path.join(dirpath, f), src_root))
        rels += SCAN_FILES
        for rel in rels:
            full = os.path.join(src_root, rel)
            if not os.path.exists(full):
                raise ScanError(f"anchored file missing: {rel}")
            self.files.append(FileInfo(rel, open(full, encoding="utf-8").read()))
        # struct tables of the scanned files
        self.structs = {}
        for f in self.files:
            for s, fields in f.structs.items():
                self.structs[s] = (f, fields)
        # hash fields: field name -> [(struct, hasher)]
        self.hash_fields = {}
        self.field_scope = {}   # (struct, field) -> None (visible everywhere) | path prefix
        for s, (f, fields) in self.structs.items():
            for fname, (ftype, off, is_pub) in fields.items():
                h = hasher_of(ftype)
                if h:
                    self.hash_fields.setdefault(fname, []).append((s, h))
                    self.field_scope[(s, fname)] = None if is_pub else module_subtree(f.rel)
                    end = f.code.find("\n", off)
                    # the field's type may span lines: account up to the next top-level comma
                    depth, j = 0, off
                    while j < len(f.code):
                        ch = f.code[j]
                        if ch in "(<[{":
                            depth += 1
                        elif ch in ")>]}":
                            if depth == 0:
                                break
                            depth -= 1
                        elif ch == "," and depth == 0:
                            break
                        j += 1
                    self.account(f, off, max(j, end))
                    self.bindings.append({"file": f.rel, "line": line_of(f.code, off), "name": f"{s}.{fname}",
                                          "hasher": h, "kind": "field"})
                    self.add_row(f, off, f"{s}.{fname}", h, "declare")
        # crate-wide index of struct field names (ambiguity test)
        self.crate_field_owners = {}
        for dirpath, _dirs, names in os.walk(src_root):
            for nm in names:
                if not nm.endswith(".rs"):
                    continue
                try:
                    code = blank_noncode(open(os.path.join(dirpath, nm), encoding="utf-8").read())
                except (ScanError, UnicodeDecodeError):
                    continue
                for m in re.finditer(r"\bstruct\s+(%s)[^{;(]*\{" % IDENT, code):
                    try:
                        cb = match_brace(code, m.end() - 1)
                    except ScanError:
                        continue
                    for part in split_top(code[m.end():cb]):
                        fm = re.match(r"\s*(?:#\[[^\]]*\]\s*)*(?:pub(?:\s*\([^)]*\))?\s+)?(%s)\s*:" % IDENT, part, re.S)
                        if fm:
                            self.crate_field_owners.setdefault(fm.group(1), set()).add(m.group(1))
        # hash-returning functions of the scanned files
        self.hash_fns = {}
        for f in self.files:
            for fn in f.fns:
                h = hasher_of(fn["ret"])
                if h:
                    self.account(f, fn["ret_off"], fn["body_start"])
                    self.hash_fns[fn["name"]] = h
                    self.bindings.append({"file": f.rel, "line": line_of(f.code, fn["sig_start"]),
                                          "name": f"fn {fn['name']}", "hasher": h, "kind": "return"})
                    self.add_row(f, fn["ret_off"], f"fn {fn['name']}", h, "declare")
        # functions with a hash-typed parameter (callee table for passToScanned)
        self.hash_param_fns = set()
        for f in self.files:
            for fn in f.fns:
                if hasher_of(fn["params"]):
                    self.hash_param_fns.add(fn["name"])
            # `use` declarations
            for m in re.finditer(r"\buse\s+[^;]*;", f.code):
                self.account(f, m.start(), m.end())

    # ------------------------------------------------------------------------------------
    def account(self, f, start, end):
        self.accounted.setdefault(f.rel, []).append((start, end))

    def add_row(self, f, idx, binding, hasher, op):
        self.rows.append({"file": f.rel, "line": line_of(f.code, idx), "binding": binding,
                          "hasher": hasher, "op": op, "text": f.src_line(idx)})

    def struct_of_type(self, type_text):
        """First identifier of a type text that names a scanned struct."""
        for m in re.finditer(IDENT, type_text or ""):
            if m.group(0) in self.structs:
                return m.group(0)
        return None

    # ------------------------------------------------------------------------------------
    def classify_context(self, f, fn, start, end, binding_is_local):
        """Classify the use of a hash value occupying code[start:end] inside function `fn`.
        Returns a HashOp constructor name."""
        code = f.code
        after = code[end:fn["body_end"] + 1]
        before = code[fn["body_start"]:start]
        # method call on the value
        mm = re.match(r"\s*\.\s*(%s)\s*(::\s*<[^(]*>)?\s*\(" % IDENT, after)
        if mm:
            op = METHOD_OPS.get(mm.group(1), "unknown")
            if op == "clone":
                # the clone is again a hash value: classify what happens to it
                cp = match_brace(code, end + mm.end() - 1, "(", ")")
                rest = self.classify_context(f, fn, start, cp + 1, binding_is_local)
                return op if rest in ORDER_FREE else rest
            return op
        if re.match(r"\s*\.\s*%s" % IDENT, after):
            return "unknown"  # field of a hash value?
        if re.match(r"\s*\[", after):
            return "get"      # Index::index(&map, key): panicking lookup
        if re.match(r"\s*(==|!=)", after) or re.search(r"(==|!=)\s*(&\s*(mut\s+)?)?$", before):
            return "eqCompare"
        # strip borrow / deref prefixes
        pre = re.sub(r"(&\s*mut\s+|&\s*|\*\s*)+$", "", before)
        pre_s = pre.rstrip()
        # for-loop iteration
        if re.search(r"\bfor\b[^;{}]*\bin\s*$", pre_s + " "):
            return "forIn"
        nxt = after.lstrip()[:1]
        # struct literal / pattern shorthand `name,` or `field: name`
        fm = re.search(r"(%s)\s*:\s*$" % IDENT, pre_s)
        if fm and nxt in ",}" and not pre_s.endswith("::"):
            # `field: value` inside a struct literal: destination must be a hash field
            return "moveTo" if fm.group(1) in self.hash_fields else "passToUnknown"
        # argument of a call: find the innermost unclosed '(' before us
        depth, j = 0, len(before) - 1
        brace_depth = 0
        while j >= 0:
            ch = before[j]
            if ch == ")":
                depth += 1
            elif ch == "(":
                if depth == 0:
                    break
                depth -= 1
            elif ch == "}":
                brace_depth += 1
            elif ch == "{":
                if brace_depth == 0:
                    j = -2
                    break
                brace_depth -= 1
            elif ch == ";" and depth == 0 and brace_depth == 0:
                j = -2
                break
            j -= 1
        if j >= 0:
            cm = re.search(r"((?:%s\s*::\s*)*%s)\s*(!)?\s*$" % (IDENT, IDENT), before[:j])
            if cm and nxt in ",)" :
                callee = re.sub(r"\s+", "", cm.group(1))
                if cm.group(2):
                    return "debugFmt" if callee in ("format", "println", "eprintln", "write", "writeln", "panic", "debug", "trace", "info", "warn", "error") else "passToUnknown"
                if callee in WRAPPERS:
                    return "moveTo" if hasher_of(fn["ret"]) else "passToUnknown"
                last = callee.split("::")[-1]
                if last in self.hash_param_fns:
                    return "passToScanned"
                return "passToUnknown"
        # shorthand field in a struct literal `Self { locals, .. }`
        if binding_is_local and nxt in ",}" and re.search(r"[{,]\s*$", pre_s) :
            # which identifier are we?  the caller guarantees code[start:end] is the identifier
            name = code[start:end]
            return "moveTo" if name in self.hash_fields else "passToUnknown"
        # tail expression / return
        if re.search(r"\breturn\s*$", pre_s + "") and nxt in ";}":
            return "moveTo" if hasher_of(fn["ret"]) else "passToUnknown"
        if nxt == "}" and re.search(r"[;{}]\s*$", pre_s):
            return "moveTo" if hasher_of(fn["ret"]) else "unknown"
        # `let x = <value>;` where x was registered as a hash binding (alias / clone)
        lm = re.search(r"\blet\s+(?:mut\s+)?(%s)\s*(?::[^=;]+)?=\s*$" % IDENT, pre_s)
        if lm and nxt == ";":
            return "moveTo" if lm.group(1) in fn.get("_locals", {}) else "unknown"
        # plain assignment to a hash field
        am = re.search(r"((?:self\s*\.\s*)?%s)\s*=\s*$" % IDENT, pre_s)
        if am and nxt == ";":
            tgt = am.group(1).split(".")[-1].strip()
            return "moveTo" if tgt in self.hash_fields or tgt in fn.get("_locals", {}) else "unknown"
        return "unknown"

    # ------------------------------------------------------------------------------------
    def scan_fn(self, f, fn):
        code = f.code
        bs, be = fn["body_start"], fn["body_end"]
        body = code[bs:be + 1]
        impl_t = f.impl_type_at(bs)
        locals_ = {}      # ident -> (hasher, [declaration offsets])

        def declare(name, h, pos):
            if name in locals_:
                locals_[name] = (h, locals_[name][1] + [pos])
            else:
                locals_[name] = (h, [pos])
        typed = {}        # ident -> struct name (receiver typing)
        if impl_t in self.structs:
            typed["self"] = impl_t
        elif impl_t is not None:
            typed["self"] = None      # `self` of a type that is not one of the scanned structs
        # parameters
        off = fn["params_off"]
        for part in split_top(fn["params"]):
            pm = re.match(r"\s*(?:mut\s+)?(%s)\s*:\s*(.+)$" % IDENT, part, re.S)
            if pm:
                h = hasher_of(pm.group(2))
                pos = off + part.find(pm.group(1))
                st = self.struct_of_type(pm.group(2))
                if h:
                    self.account(f, off, off + len(part))
                    declare(pm.group(1), h, pos)
                    self.bindings.append({"file": f.rel, "line": line_of(code, pos), "name": pm.group(1),
                                          "hasher": h, "kind": "param"})
                    self.add_row(f, pos, f"{fn['name']}::{pm.group(1)}", h, "declare")
                elif st:
                    typed[pm.group(1)] = st
                else:
                    typed[pm.group(1)] = None     # declared, foreign type
            off += len(part) + 1
        # let bindings (in textual order, so that aliases of earlier bindings resolve)
        for lm in re.finditer(r"\blet\s+(?:mut\s+)?", body):
            p = bs + lm.end()
            rest = code[p:be]
            # destructuring of a scanned struct
            dm = re.match(r"(%s)\s*\{" % IDENT, rest)
            if dm and dm.group(1) in self.structs:
                cb = match_brace(code, p + dm.end() - 1)
                sname = dm.group(1)
                inner_off = p + dm.end()
                for part in split_top(code[inner_off:cb]):
                    fm = re.match(r"\s*(?:ref\s+)?(?:mut\s+)?(%s)\s*(?::\s*(?:ref\s+)?(?:mut\s+)?(%s))?\s*$" % (IDENT, IDENT), part)
                    if fm:
                        fld, alias = fm.group(1), fm.group(2) or fm.group(1)
                        ftype = self.structs[sname][1].get(fld, ("", 0, False))[0]
                        h = hasher_of(ftype)
                        if h:
                            pos = inner_off + part.find(alias)
                            declare(alias, h, pos)
                            self.bindings.append({"file": f.rel, "line": line_of(code, pos), "name": alias,
                                                  "hasher": h, "kind": "destructured"})
                            self.add_row(f, pos, f"{fn['name']}::{alias}", h, "declare")
                    inner_off += len(part) + 1
                continue
            im = re.match(r"(%s)\s*(?::\s*([^=;]+?))?\s*=\s*" % IDENT, rest)
            if not im:
                im2 = re.match(r"(%s)\s*:\s*([^=;]+?)\s*;" % IDENT, rest)
                if im2 and hasher_of(im2.group(2)):
                    self.account(f, p, p + im2.end())
                    declare(im2.group(1), hasher_of(im2.group(2)), p)
                    self.add_row(f, p, f"{fn['name']}::{im2.group(1)}", hasher_of(im2.group(2)), "declare")
                continue
            name, ann = im.group(1), im.group(2)
            init_start = p + im.end()
            # initialiser up to the terminating ';' at depth 0
            depth, j = 0, init_start
            while j < be:
                ch = code[j]
                if ch in "([{":
                    depth += 1
                elif ch in ")]}":
                    depth -= 1
                elif ch == ";" and depth == 0:
                    break
                j += 1
            init = code[init_start:j]
            h = hasher_of(ann) if ann else None
            st = self.struct_of_type(ann) if ann else None
            init_s = init.strip()
            if h is None and not st:
                cm = re.match(r"(?:std\s*::\s*collections\s*::\s*|rustc_hash\s*::\s*)?((?:Fx)?Hash(?:Map|Set))\s*(?:::\s*<[^(]*>)?\s*::", init_s)
                if cm:
                    h = "fx" if cm.group(1).startswith("Fx") else "std"
                elif re.search(r"collect\s*::\s*<\s*(?:std\s*::\s*collections\s*::\s*)?(Fx)?Hash(Map|Set)", init_s):
                    h = hasher_of(init_s)
                else:
                    # call of a hash-returning scanned function as the last call of the chain
                    tm = re.search(r"(%s)\s*\((?:[^()]|\([^()]*\))*\)\s*\??\s*$" % IDENT, init_s)
                    if tm and tm.group(1) in self.hash_fns:
                        h = self.hash_fns[tm.group(1)]
                    elif re.fullmatch(r"(?:&\s*(?:mut\s+)?)?(%s)(\s*\.\s*clone\s*\(\s*\))?" % IDENT, init_s):
                        base = re.sub(r"[&\s]|mut\s", "", init_s).split(".")[0]
                        if base in locals_:
                            h = locals_[base][0]
            if st is None and not h:
                km = re.match(r"(Self|%s)\s*(\{|::)" % IDENT, init_s)
                if km:
                    cand = impl_t if km.group(1) == "Self" else km.group(1)
                    if cand in self.structs:
                        st = cand
            if h:
                self.account(f, p, j + 1)
                declare(name, h, p)
                self.bindings.append({"file": f.rel, "line": line_of(code, p), "name": name,
                                      "hasher": h, "kind": "let"})
                self.add_row(f, p, f"{fn['name']}::{name}", h, "declare")
                if re.search(r"collect\s*::\s*<|\.collect\s*\(", init_s):
                    self.add_row(f, init_start, f"{fn['name']}::{name}", h, "collectInto")
            elif st:
                typed[name] = st
            elif ann and not hasher_of(ann):
                typed.setdefault(name, None)      # explicitly annotated with a foreign type
            # a `let` without annotation and with an unrecognised initialiser stays untyped (it may be
            # a lock guard or a reference to one of the hash-carrying structs)
        # for-loop variables: typed by the iterated expression when it is a field chain whose type
        # mentions a scanned struct; foreign otherwise (scanned hash-carrying structs are never
        # produced by method calls of foreign collections)
        for fm in re.finditer(r"\bfor\s+([^;{}]*?)\s+in\s+([^{;]*?)\{", body):
            pat, expr = fm.group(1), fm.group(2).strip()
            expr_core = re.sub(r"^(&\s*mut\s+|&\s*)", "", expr)
            st = None
            cm = re.fullmatch(r"(%s)((?:\s*\.\s*%s)*)" % (IDENT, IDENT), expr_core)
            if cm and cm.group(1) in typed and typed[cm.group(1)] is not None:
                t = typed[cm.group(1)]
                segs = [x.strip() for x in cm.group(2).split(".") if x.strip()]
                ftype = None
                for seg in segs:
                    ftype = self.structs[t][1].get(seg) if t else None
                    t = self.struct_of_type(ftype[0]) if ftype else None
                st = t
            for idm in re.finditer(IDENT, pat):
                nm = idm.group(0)
                if nm in ("mut", "ref", "_"):
                    continue
                if nm not in locals_:
                    typed[nm] = st
        fn["_locals"] = locals_
        # ---- uses of local hash bindings
        for name, (h, decls) in locals_.items():
            for um in re.finditer(r"(?<![A-Za-z0-9_])%s(?![A-Za-z0-9_])" % re.escape(name), body):
                s = bs + um.start()
                e = bs + um.end()
                if s in decls:
                    continue
                if s < min(decls) and min(decls) >= bs:
                    continue  # before its first declaration: another binding of the same name
                prev = code[:s].rstrip()
                if prev.endswith(".") or prev.endswith("::"):
                    continue  # a field / path segment of the same name
                if re.match(r"\s*:(?!:)", code[e:]) and re.search(r"[{,(]\s*$", prev):
                    continue  # `name: value` struct-literal field label or typed pattern
                if re.match(r"\s*\(", code[e:]) or re.match(r"\s*!", code[e:]) and not re.match(r"\s*!=", code[e:]):
                    continue  # a function / macro of the same name
                # `let alias = name;` already turned alias into a binding: that is a move
                lm = re.search(r"\blet\s+(?:mut\s+)?(%s)\s*(?::[^=;]+)?=\s*(?:&\s*(?:mut\s+)?)?$" % IDENT, code[bs:s])
                if lm and lm.group(1) in locals_ and re.match(r"\s*(;|\.\s*clone\s*\(\s*\)\s*;)", code[e:]):
                    op = "moveTo" if re.match(r"\s*;", code[e:]) else "clone"
                else:
                    op = self.classify_context(f, fn, s, e, True)
                self.add_row(f, s, f"{fn['name']}::{name}", h, op)
        # ---- field uses
        for um in re.finditer(r"\.\s*(%s)(?![A-Za-z0-9_])(?!\s*(?:::\s*<[^(]*>\s*)?\()" % IDENT, body):
            fld = um.group(1)
            if fld not in self.hash_fields:
                continue
            visible = [(s_, h_) for (s_, h_) in self.hash_fields[fld]
                       if self.field_scope[(s_, fld)] is None or f.rel.startswith(self.field_scope[(s_, fld)])]
            if not visible:
                continue    # private field of another module: cannot be named here
            s = bs + um.start()
            e = bs + um.end()
            # receiver chain
            rm = re.search(r"((?:%s)(?:\s*\.\s*%s)*)\s*$" % (IDENT, IDENT), code[bs:s])
            owner = None
            resolved = False
            if rm and not re.search(r"[)\]?]\s*$", code[bs:bs + rm.start()] if False else ""):
                chain = [c.strip() for c in rm.group(1).split(".")]
                # the chain must start at an identifier that is not itself a field of something
                pre = code[bs:bs + rm.start()].rstrip()
                if not pre.endswith(".") and not pre.endswith("?") and not pre.endswith(")") and not pre.endswith("]"):
                    root = chain[0]
                    if root in typed:
                        t = typed[root]
                        resolved = True
                        for seg in chain[1:]:
                            if t is None:
                                break
                            ftype = self.structs[t][1].get(seg)
                            t = self.struct_of_type(ftype[0]) if ftype else None
                        owner = t
                    elif root in locals_:
                        resolved, owner = True, None
            if resolved:
                if owner is None or fld not in self.structs[owner][1] or not hasher_of(self.structs[owner][1][fld][0]):
                    continue  # typed receiver of a foreign struct: not a hash field
                h = hasher_of(self.structs[owner][1][fld][0])
                start_of_recv = bs + rm.start()
                op = self.classify_context(f, fn, start_of_recv, e, False)
                self.add_row(f, s, f"{owner}.{fld}", h, op)
            else:
                owners = self.crate_field_owners.get(fld, set())
                hash_owners = {s_ for (s_, _h) in self.hash_fields[fld]}
                if owners and owners <= hash_owners:
                    sname, h = visible[0]
                    rstart = bs + rm.start() if rm else s
                    op = self.classify_context(f, fn, rstart, e, False)
                    self.add_row(f, s, f"{sname}.{fld}", h, op)
                else:
                    # the field name is also declared by structs without hash maps and the receiver is
                    # untyped: an order-free context is harmless either way (listed as ambiguousForeign);
                    # an order-exposing context fails closed (ambiguousExposing)
                    sname, h = visible[0]
                    rstart = bs + rm.start() if rm else s
                    op = self.classify_context(f, fn, rstart, e, False)
                    self.add_row(f, s, f"?.{fld}", h, "ambiguousExposing" if op in EXPOSING else "ambiguousForeign")
        # ---- results of hash-returning functions used in place
        for um in re.finditer(r"(?<![A-Za-z0-9_])(%s)\s*\(" % IDENT, body):
            if um.group(1) not in self.hash_fns:
                continue
            op_idx = bs + um.end() - 1
            cp = match_brace(code, op_idx, "(", ")")
            e = cp + 1
            qm = re.match(r"\s*\?", code[e:])
            if qm:
                e += qm.end()
            # initialiser of a `let` that became a binding: a move
            stmt_start = max(code.rfind(";", bs, bs + um.start()), code.rfind("{", bs, bs + um.start()), code.rfind("}", bs, bs + um.start()))
            stmt = code[stmt_start + 1:bs + um.start()]
            lm = re.match(r"\s*let\s+(?:mut\s+)?(%s)\b" % IDENT, stmt)
            if lm and lm.group(1) in locals_ and re.match(r"\s*;", code[e:]):
                op = "moveTo"
            else:
                rm = re.search(r"((?:%s)(?:\s*\.\s*%s)*\s*\.\s*)?$" % (IDENT, IDENT), code[bs:bs + um.start()])
                rstart = bs + (rm.start() if rm and rm.group(1) else um.start())
                op = self.classify_context(f, fn, rstart, e, False)
            self.add_row(f, bs + um.start(), f"{um.group(1)}()", self.hash_fns[um.group(1)], op)

    def run(self):
        for f in self.files:
            # nested fns: scan every fn; inner fn bodies are scanned twice only for locals of the
            # outer fn, which cannot be referenced from a nested fn item, so restrict to outermost
            for fn in f.fns:
                self.scan_fn(f, fn)
        # fail closed: every `HashMap`/`HashSet` token of a scanned file must belong to a recognised
        # declaration (field, parameter, return type, `let`), to a `use`, or be an empty temporary
        # (`HashMap::new()` / `::default()` / `::with_capacity(..)` used directly as an argument or
        # field initialiser: an empty map has no order); anything else is listed as `unknown`
        for f in self.files:
            spans = self.accounted.get(f.rel, [])
            for m in HASH_RE.finditer(f.code):
                if any(a <= m.start() < b for (a, b) in spans):
                    continue
                tail = f.code[m.end():m.end() + 60]
                if re.match(r"\s*(::\s*<[^>(]*>)?\s*::\s*(new|default|with_capacity)\s*\(", tail):
                    pre = f.code[max(0, m.start() - 200):m.start()]
                    if not re.search(r"\blet\b[^;]*$", pre) or re.search(r"[(,:]\s*(std\s*::\s*collections\s*::\s*)?$", pre):
                        continue
                self.rows.append({"file": f.rel, "line": line_of(f.code, m.start()),
                                  "binding": "<unaccounted %s>" % m.group(0),
                                  "hasher": "fx" if m.group(1) else "std", "op": "unknown",
                                  "text": f.src_line(m.start())})
        # sanity
        for rel in MUST_HAVE:
            if not any(b["file"] == rel and b["hasher"] == "std" for b in self.bindings):
                raise ScanError(f"no std hash binding found in {rel}: the scan no longer sees what it must")
        # de-duplicate (a nested fn is also part of its parent's body)
        seen, rows = set(), []
        for r in self.rows:
            key = (r["file"], r["line"], r["binding"], r["op"], r["text"])
            if key not in seen:
                seen.add(key)
                rows.append(r)
        rows.sort(key=lambda r: (r["file"], r["line"], r["binding"], r["op"]))
        self.rows = rows
        return rows


def front_end_std_hash(crates_root):
    """(file, line, text) of every `HashMap`/`HashSet` token without `Fx` prefix in the front-end crates."""
    hits = []
    for rel_root in FRONT_END:
        root = os.path.join(crates_root, rel_root)
        if not os.path.isdir(root):
            raise ScanError(f"front-end crate missing: {rel_root}")
        nfiles = 0
        for dirpath, dirs, names in os.walk(root):
            dirs.sort()
            if os.path.basename(dirpath) == "tests":
                continue
            for nm in sorted(names):
                if not nm.endswith(".rs") or nm.startswith("test"):
                    continue
                nfiles += 1
                full = os.path.join(dirpath, nm)
                raw = open(full, encoding="utf-8").read()
                code = blank_noncode(raw)
                raw_lines = raw.split("\n")
                for m in re.finditer(r"(?<![A-Za-z0-9_])Hash(Map|Set)\b", code):
                    ln = line_of(code, m.start())
                    hits.append((os.path.relpath(full, crates_root), ln, raw_lines[ln - 1].strip()))
        if nfiles == 0:
            raise ScanError(f"no sources found under {rel_root}")
    return hits



# --------------------------------------------------------------------------------------------------
# Second table: environment inputs (everything besides hash seeds through which the process, the
# machine, the file system, the clock or the memory layout can reach the compile/execute path)
# --------------------------------------------------------------------------------------------------
ENV_PATTERNS = [
    ("threadLocal", r"\bthread_local\s*!"),
    ("staticMut", r"\bstatic\s+mut\b"),
    ("staticInterior", r"\bstatic\s+[A-Za-z_][A-Za-z0-9_]*\s*:\s*[^=;]*\b(Mutex|RwLock|Atomic[A-Za-z0-9]+|OnceLock|OnceCell|RefCell|Cell|Lazy|LazyLock|UnsafeCell|Condvar)\b"),
    ("staticInterior", r"\blazy_static\s*!"),
    ("addressUse", r"\.\s*as_ptr\s*\(|\.\s*as_mut_ptr\s*\(|\bas\s+\*\s*(const|mut)\b|\bptr\s*::\s*addr_of|\b(Arc|Rc)\s*::\s*as_ptr\b|\baddr\s*\(\s*\)"),
    ("envRead", r"\benv\s*::\s*(current_dir|var|var_os|vars|vars_os|args|args_os|temp_dir|home_dir|current_exe|set_var|set_current_dir)\b|\benv!\s*\(|\boption_env!\s*\("),
    ("fsAccess", r"\bcanonicalize\s*\(|\bfs\s*::\s*(read|write|read_to_string|read_dir|read_link|create_dir|create_dir_all|remove_file|remove_dir|remove_dir_all|rename|copy|metadata|symlink_metadata)\s*\(|\bFile\s*::\s*(open|create)\b|\bOpenOptions\s*::\s*new\b|\.\s*(exists|is_file|is_dir|is_symlink)\s*\(\s*\)"),
    ("wallClock", r"\b(SystemTime|Instant)\s*::\s*now\b|\b(Utc|Local)\s*::\s*now\b|\.\s*elapsed\s*\(\s*\)"),
    ("processId", r"\bprocess\s*::\s*id\s*\("),
    ("threadId", r"\bthread\s*::\s*current\s*\("),
    ("threadSpawn", r"\bthread\s*::\s*(spawn|scope|Builder)\b|\brayon\b|\btokio\s*::\s*spawn\b"),
    ("randomness", r"\bRandomState\b|\brand\s*::|\bgetrandom\b|\bfastrand\b|\bDefaultHasher\b"),
    ("machineInfo", r"\bavailable_parallelism\b|\bnum_cpus\b|\bhostname\b|\bcfg!\s*\(\s*target_"),
]
ENV_RE = [(k, re.compile(p)) for (k, p) in ENV_PATTERNS]


def blank_test_items(code):
    """Blank `#[cfg(test)]`-gated modules and functions (test code is not on the compile/execute path)."""
    out = list(code)
    for m in re.finditer(r"#\s*\[\s*cfg\s*\(\s*test\s*\)\s*\]", code):
        rest = code[m.end():]
        im = re.match(r"(?:\s*#\s*\[[^\]]*\])*\s*(?:pub(?:\s*\([^)]*\))?\s+)?(?:mod|fn|impl|use|static|const|struct|enum)\b[^{;]*([{;])", rest, re.S)
        if not im:
            continue
        start = m.start()
        if im.group(1) == ";":
            end = m.end() + im.end()
        else:
            ob = m.end() + im.end() - 1
            try:
                end = match_brace(code, ob) + 1
            except ScanError:
                continue
        for j in range(start, end):
            if out[j] != "\n":
                out[j] = " "
    return "".join(out)


def env_inputs(crates_root, runtime_src):
    """Rows (file, line, kind, fn, text) of environment inputs in the scanned part of trust-runtime and in
    the front-end crates.  File names are relative to `crates/`."""
    files = []
    for d in SCAN_DIRS:
        full = os.path.join(runtime_src, d)
        for dirpath, dirs, names in os.walk(full):
            dirs.sort()
            if os.path.basename(dirpath) == "tests":
                continue
            for f in sorted(names):
                if f.endswith(".rs") and not f.startswith("test") and f != "tests.rs":
                    files.append(os.path.join(dirpath, f))
    for f in SCAN_FILES:
        files.append(os.path.join(runtime_src, f))
    for rel_root in FRONT_END:
        root = os.path.join(crates_root, rel_root)
        for dirpath, dirs, names in os.walk(root):
            dirs.sort()
            if os.path.basename(dirpath) == "tests":
                continue
            for f in sorted(names):
                if f.endswith(".rs") and not f.startswith("test") and f != "tests.rs":
                    files.append(os.path.join(dirpath, f))
    rows = []
    for full in files:
        raw = open(full, encoding="utf-8").read()
        code = blank_test_items(blank_noncode(raw))
        raw_lines = raw.split("\n")
        rel = os.path.relpath(full, crates_root)
        fns = [(m.start(), m.group(1)) for m in re.finditer(r"\bfn\s+(%s)" % IDENT, code)]
        seen = set()
        for kind, rx in ENV_RE:
            for m in rx.finditer(code):
                ln = line_of(code, m.start())
                if (ln, kind) in seen:
                    continue
                seen.add((ln, kind))
                fn = "-"
                for (pos, name) in fns:
                    if pos <= m.start():
                        fn = name
                    else:
                        break
                rows.append({"file": rel, "line": ln, "kind": kind, "fn": fn, "text": raw_lines[ln - 1].strip()})
        # `{:p}` lives inside string literals, which are blanked: look at the raw text of non-test lines
        for i, line in enumerate(raw_lines, 1):
            if "{:p}" in line and code.split("\n")[i - 1].strip():
                rows.append({"file": rel, "line": i, "kind": "addressUse", "fn": "-", "text": line.strip()})
    if not files:
        raise ScanError("no files for the environment-input scan")
    rows.sort(key=lambda r: (r["file"], r["line"], r["kind"]))
    return rows


def lean_str(s):
    return '"' + s.replace("\\", "\\\\").replace('"', '\\"') + '"'


def render_lean(rows, src_root_label, front_end=(), env_rows=()):
    out = ["-- GENERATED by checks/c05_scan.py from the Rust sources; do not edit.",
           "import TrustVerif.Model.C05",
           "",
           "namespace TrustVerif.C05.Gen",
           "open TrustVerif.C05",
           "",
           f"/-- Every operation applied to a `HashMap`/`HashSet` binding in the anchored files ({len(rows)} rows). -/",
           "def hashUses : List HashUse := ["]
    body = []
    for r in rows:
        body.append("  ⟨%s, %d, %s, .%s, .%s, %s⟩" % (lean_str(r["file"]), r["line"], lean_str(r["binding"]),
                                                  r["hasher"], r["op"], lean_str(r["text"][:100])))
    out.append(",\n".join(body))
    out += ["]", "",
            "/-- Occurrences of std `HashMap`/`HashSet` (no `Fx` prefix) in the front-end crates trust-hir and",
            "trust-syntax, outside tests: file, line, text. -/",
            "def frontEndStdHash : List (String × Nat × String) := ["]
    out.append(",\n".join("  (%s, %d, %s)" % (lean_str(f), ln, lean_str(t[:100])) for (f, ln, t) in front_end))
    out += ["]", "",
            "/-- Environment inputs (thread-locals, mutable statics, address-derived values, environment, file",
            "system, wall clock, process/thread ids, threads, explicit randomness, machine info) in the scanned",
            "part of trust-runtime and in trust-hir / trust-syntax, outside `#[cfg(test)]`. -/",
            "def envUses : List EnvUse := ["]
    out.append(",\n".join("  ⟨%s, %d, .%s, %s, %s⟩" % (lean_str(r["file"]), r["line"], r["kind"], lean_str(r["fn"]),
                                                     lean_str(r["text"][:100])) for r in env_rows))
    out += ["]", "", "end TrustVerif.C05.Gen", ""]
    return "\n".join(out)


def scan(src_root):
    sc = Scanner(src_root)
    rows = sc.run()
    return sc, rows


if __name__ == "__main__":
    import sys
    root = sys.argv[1] if len(sys.argv) > 1 else "/repo/crates/trust-runtime/src"
    sc, rows = scan(root)
    for r in rows:
        print(f"{r['file']}:{r['line']:<4} {r['hasher']:3} {r['op']:16} {r['binding']:42} {r['text'][:70]}")
    print(len(rows), "rows;", len(sc.bindings), "bindings")
