"""C06 — task scheduling follows the IEC 61131-3 task model on every timeline."""

SPEC = {
    "id": "C06",
    "sub": "c06",
    "lean_modules": ["TrustVerif.Props.C06"],
    "tiers": {
        "quick": {"cases": 600, "extra": {"cycles": 30}},
        "thorough": {"cases": 40000, "extra": {"cycles": 40}},
    },
    # the compared observables (executed task sequence, executed program sequence, overrun events
    # and counters) are exactly what the property speaks about, and the model is proved equal to the
    # history-level specification, so a disagreement is a failing input of the property
    "disagreement_is_violation": True,
    "rule": "case = generated CONFIGURATION (1-6 tasks, intervals incl. 0, equal priorities, shared/absent "
            "SINGLE variables with random initial values, programs with and without task) x generated timeline "
            "(dt incl. 0 and multi-interval jumps, SINGLE toggles); non-trivial = at least one cycle ran two or "
            "more tasks or detected an overrun; distinct = by hash of the case's operation lines",
    "trusted_base": [
        "Lean 4.33.0 kernel; axioms per theorem listed under 'theorems'",
        "hand-written model lean/TrustVerif/Model/C06.lean of collect_ready_tasks / sort_by_key / "
        "execute_background_programs / register_task, tied by this run's correspondence",
        "Rust harness vharness c06 (generator, observation through TaskStart/TaskOverrun events, a shared "
        "sequence counter stamped by every program body, task_overrun_count)",
        "List.mergeSort from Lean core stands for Rust's sort_by_key; that the choice of algorithm (and its "
        "stability) is irrelevant is no longer assumed but proved: c06_order_unique (the key (priority, due, "
        "index) is injective - keyLe_antisymm - so any sorted permutation of the ready set is the model's)",
    ],
    "assumptions": [
        "clock values are non-negative i64 nanoseconds (hypothesis TimesOk of c06_task_refines)",
        "'last activation' in the periodic rule is the last periodic activation (docs/specs/10-runtime.md)",
        "SINGLE variables are sampled at the start of the cycle, after the input latch",
    ],
}

MANIFEST = {
    "technique": "Lean 4 refinement proof (state machine = history-level IEC spec, sorted duplicate-free permutation) + differential correspondence against the real scheduler",
    "level_text": "Theorems c06_config_refines / c06_task_refines / c06_executed_iff / c06_exec_sorted / c06_order_unique / c06_order_reading / c06_no_replay / c06_not_replayed / c06_due_time_exact / c06_lastP_latest / c06_overruns_closed_form / c06_missed_formula / c06_program_runs_iff / c06_background_every_cycle / c06_task_program_waits / c06_background_after hold for "
                  "every task set, every timeline and every cycle index (induction over the history, no bound). The model is a "
                  "function-by-function transcription of collect_ready_tasks, the sort key and execute_background_programs, and each "
                  "run executes it and the real runtime (built from CONFIGURATION source through the real compiler) on the same "
                  "generated configurations and timelines and compares executed task order, program order, overrun events and counters.",
    "level_note": "Trusted: Lean kernel + propext/Quot.sound/Classical.choice; the hand-written model (validated only by the "
                  "differential run, whose generator bounds what it sees); Rust sort_by_key modelled by List.mergeSort (unique result "
                  "because the key is injective: theorem c06_order_unique). Clock values assumed non-negative i64. FB-instance tasks (`fb WITH T`) are generated; tasks registered directly through Runtime::register_task (same program in two tasks) are not.",
}
