"""C07 — process image: inputs latched once per cycle, outputs published once at the end."""
import vlib

SPEC = {
    "id": "C07",
    "sub": "c07",
    "lean_modules": ["TrustVerif.Props.C07"],
    "tiers": {
        "quick": {"cases": 1200, "extra": {"cycles": 8, "rawops": 60}},
        "thorough": {"cases": 24000, "extra": {"cycles": 12, "rawops": 80}},
    },
    # Compared observables: the result and full byte images after every IoInterface::write, the value of
    # every read, the storage after read_inputs, the images after write_outputs, and per scan cycle the
    # ordered log of driver calls (with the bytes each driver saw / was given), the runtime's own
    # cycle/task/fault events when a debugger is attached, every variable and the three images.  These
    # are what the property speaks about and the model is proved to satisfy the statement, so a
    # disagreement is a failing input of the property.
    "disagreement_is_violation": True,
    "rule": "case kinds by case number mod 8: 0,1 raw IoInterface::read/write streams (addresses through "
            "IoAddress::parse; wildcard, hierarchical, bit>7 and empty-path addresses hand-built); 2 alternately binding "
            "lists over a VariableStorage (read_inputs / write_outputs, typed/untyped, by name/by reference, dangling, "
            "size/type mismatches, wrong-kind values) and sweeps of one typed binding (each of the 17 types in turn) over "
            "own-type, drifted-integer (around the type's limits) and foreign values; 3 partial access; 4-7 compiled "
            "CONFIGURATIONs with AT-bound globals and program variables (elementary, one-dimensional arrays with arbitrary "
            "lower bound, structures of elementary fields; the size letter of the declaration agrees with the type in 3/4 of "
            "the declarations and is arbitrary otherwise) of the 17 elementary types in %I/%Q/%M at overlapping/adjacent "
            "addresses, 0-3 tasks + background programs, 0-3 logging drivers with changing inputs and "
            "scripted failures, division-by-zero faults, clear_fault, idle cycles, external variable writes (also of the "
            "wrong kind), and with a debugger attached queued I/O writes and forced/released I/O.  non-trivial = raw: "
            "overlapping writes of >=3 sizes; bind: >=3 bindings or a sweep; rt: >=3 bindings, >=1 driver, >=2 programs of "
            "which one in a task and a successful full cycle; pa: always.  distinct = by hash of the case's operation lines. "
            "Two witness cases for the recorded findings follow the generated cases",
    "trusted_base": [
        "Lean 4.33.0 kernel; axioms per theorem listed under 'theorems'",
        "hand-written model lean/TrustVerif/Model/C07.lean of IoInterface::{read,write,read_inputs,write_outputs}, "
        "coerce_from_io/coerce_to_io, numeric::to_i64/to_u64, read/write_partial_access, collect_io_bindings/offset_address, execute_cycle/"
        "read_cycle_inputs/write_cycle_outputs, force_io/release_io; tied by this run's correspondence",
        "Rust std: uN::from_le_bytes/to_le_bytes are modelled as sum b_i*256^i (fromLe/toLe); `as` casts between "
        "iN and uN as two's complement; f32/f64::from_bits/to_bits as the identity on bit patterns",
        "Rust harness vharness c07 (generators, the logging IoDriver, canonicalisation)",
        "program bodies are arbitrary functions on the variable storage in the theorems; the correspondence run "
        "uses copy / DINT increment / DINT division statements only (expression semantics is C02's)",
    ],
    "assumptions": [
        "dev profile (the profile of the test suite): `1 << bit` with bit > 7 on a u8 panics; such an address can "
        "only be hand-built, IoAddress::parse refuses it; theorems are stated for bit <= 7",
        "default fault policy (Halt) and no safe state: apply_safe_state is C08's and not modelled",
        "ready tasks are given in execution order (the scheduler is C06's)",
        "REAL/LREAL travel as raw bit patterns; coerce_to_io of a non-float numeric value into a REAL/LREAL binding "
        "(a float conversion) is outside the model and not generated",
        "forced variables (force_global etc.) and retain-store saving at the end of the cycle are not modelled",
    ],
}

MANIFEST = {
    "technique": "Lean 4 proofs over a function-by-function model of the process image (frame/locality, read-after-write, "
                 "little-endian codec, cycle phase order, latch and publish characterisation) + differential correspondence "
                 "against the real IoInterface and the real scan cycle with instrumented drivers",
    "level_text": "Proved in Lean 4 for every image, address, value, binding list, driver script, program body and cycle (no bound): "
                  "write frame (c07_write_frame: other areas, the hierarchical map, every byte outside [byte, byte+size) and for X the "
                  "other seven bits unchanged; image grows exactly to the span), read locality (c07_read_local), read-after-write "
                  "(c07_read_write), bit n of byte b and little-endian closed forms (c07_read_bit, c07_read_le, c07_write_le, c07_le), "
                  "non-interference of disjoint addresses incl. two bits of one byte (c07_write_disjoint_read), hierarchical and "
                  "wildcard addresses (c07_hier, c07_wildcard); the typed codec is a bijection for the 17 elementary types "
                  "(c07_coerce_encode_decode / _decode_encode); bound variable = decode(latched bytes) and the latch writes nothing "
                  "else (c07_latch_value, c07_latch_decode, c07_latch_frame); published bytes = encode(final value) unless a later "
                  "binding overlaps (c07_collect_value, c07_publish_encode), the publish never touches the input image "
                  "(c07_collect_inputs); for the cycle: trace = CycleStart, one read per driver in order, no driver call while all "
                  "programs of the ready tasks then the background programs run, one write per driver in order carrying the final "
                  "output image, CycleEnd (c07_latch_once); each body starts on exactly the storage the previous one left, from the "
                  "latched storage (c07_store_thread, c07_reads_see_latched); final images/driver bytes encode the final storage "
                  "(c07_published); a cycle failing before the driver writes gives no driver anything and, before the collect, "
                  "leaves the images as the input phase left them (c07_fault_no_publish; c07_fault_in_publish and its counterexample "
                  "describe the one excluded case, a driver's own write failing); a faulted resource is a no-op (c07_faulted_noop); "
                  "partial access %X/%B/%W/%D: frame, content, read-after-write, range (c07_partial_read, c07_partial_write); the bindings "
                  "derived from `x AT base : T` are well typed and lay the leaves of arrays/structures out disjointly "
                  "(c07_expand_layout). "
                  "Each run executes the model and the REAL code (IoInterface, VariableStorage, partial access, and whole compiled "
                  "CONFIGURATIONs cycled through Runtime::execute_cycle with logging IoDrivers registered by add_io_driver) on the same "
                  "generated cases and compares results, images, variables and the ordered driver/runtime event log.",
    "level_note": "Trusted: Lean kernel + propext/Quot.sound/Classical.choice; the hand-written model (validated only by the "
                  "differential run, whose generators bound what it sees); Rust std from_le_bytes/to_le_bytes/`as`/from_bits as "
                  "stated in trusted_base.  Only tested, not proved: that the compiler turns the AT declarations of a source into the "
                  "model's expandAt lists in registration order (compared per case through Runtime::io().bindings(); the model of "
                  "collect_io_bindings / offset_address covers elementary types, 1-D arrays and flat structures on flat base "
                  "addresses), IoAddress::parse (addresses go through it where a text form exists), scheduling (C06).  Not "
                  "modelled: apply_safe_state / non-default fault policies (C08), forced variables, retain saving, float conversion "
                  "of a non-float numeric value into a REAL/LREAL binding, AT on FB members / VAR_CONFIG / nested or "
                  "multi-dimensional types / unions / relative field addresses / hierarchical base addresses.  Theorems about typed bindings hold under the "
                  "decidable guard Binding.wellTyped (type among the 17, size = size of type, flat address, bit <= 7) and "
                  "holdsTyped (the variable holds an in-range value of its type): outside it the code faults, which is recorded as "
                  "findings C07-time-input and C07-enum-output (c07_counterexample_time_input / _enum_output, c07_bindings_total_partial).",
}


def _finding_cases(cases):
    out = {}
    for c in cases:
        for t in c.tags:
            if t.startswith("finding-"):
                out[t[len("finding-"):]] = c
    return out


def extra(ctx):
    """Oracle on the implementation for the recorded findings: the witness programs (a TIME input binding, an
    enum output binding) are compiled and cycled by the harness; the property demands that the cycle succeeds
    (bound variable = decode(latched bytes), published bytes = encode(final value)).  Still failing with the
    recorded signature => KNOWN-FINDING; failing differently => violation; succeeding => nothing to report."""
    res = {"known": [], "oracle_failures": [], "coverage": {}}
    known = {f["id"]: f for f in vlib.known_findings("C07")}
    witnesses = _finding_cases(ctx["cases"])
    reproduced = {}
    for kind, case in sorted(witnesses.items()):
        fid = f"C07-{kind}"
        if "compile-refused" in case.tags:
            reproduced[fid] = "compile-refused"
            continue
        impl = [i for (_op, i) in case.ops if i.startswith("res=")]
        first = impl[0].split()[0] if impl else "missing"
        reproduced[fid] = first
        if first == "res=ok":
            continue
        entry = known.get(fid)
        if entry is not None and entry.get("match") == first:
            res["known"].append(entry["what"])
        else:
            res["oracle_failures"].append({
                "what": "a compiled program with one AT-bound variable and no injected fault must complete its scan cycle",
                "finding": fid, "observed": first, "case": case.n, "case_lines": case.lines,
                "seed": ctx["seed"], "tier": ctx["tier"],
            })
    res["coverage"]["finding_witnesses"] = reproduced
    # histogram of case kinds and of the tags the harness attached (faulted, debugger, driversN, sweep-T …)
    tags = {}
    for c in ctx["cases"]:
        for t in c.tags:
            tags[t] = tags.get(t, 0) + 1
    res["coverage"]["case_tags"] = dict(sorted(tags.items()))
    return res
