"""C07 — process image: inputs latched once per cycle, outputs published once at the end."""
import vlib

SPEC = {
    "id": "C07",
    "sub": "c07",
    "lean_modules": ["TrustVerif.Props.C07"],
    "tiers": {
        "quick": {"cases": 1200, "extra": {"cycles": 8, "rawops": 60}},
        "thorough": {"cases": 24000, "extra": {"cycles": 12, "rawops": 80}},
    },
    # Compared observables: the result and full byte images after every IoInterface::write, the value of
    # every read, the storage after read_inputs, the images after write_outputs, and per scan cycle the
    # ordered log of driver calls (with the bytes each driver saw / was given), the runtime's own
    # cycle/task/fault events when a debugger is attached, every variable and the three images.  These
    # are what the property speaks about and the model is proved to satisfy the statement, so a
    # disagreement is a failing input of the property.
    "disagreement_is_violation": True,
    "rule": "case kinds by case number mod 8: 0,1 raw IoInterface::read/write streams (addresses through "
            "IoAddress::parse; wildcard, hierarchical, bit>7 and empty-path addresses hand-built); 2 alternately binding "
            "lists over a VariableStorage (read_inputs / write_outputs, typed/untyped, by name/by reference, dangling, "
            "size/type mismatches, wrong-kind values) and sweeps of one typed binding (each of the 25 types in turn: the 17 "
            "elementary types and TIME/DATE/TOD/DT/LTIME/LDATE/LTOD/LDT) over own-type (date/time: whole counts, fractions of a "
            "count, counts across the 32-bit limits), drifted-integer (around the type's limits), enum and foreign values; 3 "
            "partial access; 4-7 compiled "
            "CONFIGURATIONs with AT-bound globals and program variables (elementary, one-dimensional arrays with arbitrary "
            "lower bound, structures of elementary fields; the size letter of the declaration agrees with the type in 3/4 of "
            "the declarations and is arbitrary otherwise) of the 25 bindable types, and enum-typed variables (1/8 of the "
            "declarations), in %I/%Q/%M at overlapping/adjacent "
            "addresses, 0-3 tasks + background programs, 0-3 logging drivers with changing inputs and "
            "scripted failures, division-by-zero faults, clear_fault, idle cycles, external variable writes (also of the "
            "wrong kind; enum values with in- and out-of-range numeric values into the enum variables), and with a debugger "
            "attached queued I/O writes and forced/released I/O.  non-trivial = raw: "
            "overlapping writes of >=3 sizes; bind: >=3 bindings or a sweep; rt: >=3 bindings, >=1 driver, >=2 programs of "
            "which one in a task and a successful full cycle; pa: always.  distinct = by hash of the case's operation lines. "
            "Three witness cases follow the generated cases and are replayed on every run: the repaired findings "
            "C07-time-input (TIME at %ID0 must latch T#263ms from 07 01 00 00) and C07-enum-output (enum at %QW0 holding "
            "Blue must publish 02 00) - anything else is a violation - and the open finding C07-enum-input",
    "trusted_base": [
        "Lean 4.33.0 kernel; axioms per theorem listed under 'theorems'",
        "hand-written model lean/TrustVerif/Model/C07.lean of IoInterface::{read,write,read_inputs,write_outputs}, "
        "coerce_from_io/coerce_to_io, numeric::to_i64/to_u64, read/write_partial_access, collect_io_bindings/offset_address, execute_cycle/"
        "read_cycle_inputs/write_cycle_outputs, force_io/release_io; tied by this run's correspondence",
        "Rust std: uN::from_le_bytes/to_le_bytes are modelled as sum b_i*256^i (fromLe/toLe); `as` casts between "
        "iN and uN as two's complement; f32/f64::from_bits/to_bits as the identity on bit patterns",
        "Rust harness vharness c07 (generators, the logging IoDriver, canonicalisation)",
        "program bodies are arbitrary functions on the variable storage in the theorems; the correspondence run "
        "uses copy / DINT increment / DINT division statements only (expression semantics is C02's)",
    ],
    "assumptions": [
        "dev profile (the profile of the test suite): `1 << bit` with bit > 7 on a u8 panics; such an address can "
        "only be hand-built, IoAddress::parse refuses it; theorems are stated for bit <= 7",
        "default fault policy (Halt) and no safe state: apply_safe_state is C08's and not modelled",
        "ready tasks are given in execution order (the scheduler is C06's)",
        "REAL/LREAL travel as raw bit patterns; coerce_to_io of a non-float numeric value (or an enum) into a REAL/LREAL "
        "binding (a float conversion) is outside the model and not generated",
        "date/time types: TIME travels as i32 milliseconds (Duration::as_millis truncates toward zero: a fraction of a "
        "millisecond is not published), DATE/TOD/DT as i32 ticks, the L-variants as i64 nanoseconds; a 32-bit count that does "
        "not fit is Overflow (theorems: guard Value.ioExact); the DateTimeProfile resolution is the default 1 ms",
        "an enum value is modelled by its numeric value; type and variant names are not compared",
        "forced variables (force_global etc.) and retain-store saving at the end of the cycle are not modelled",
    ],
}

MANIFEST = {
    "technique": "Lean 4 proofs over a function-by-function model of the process image (frame/locality, read-after-write, "
                 "little-endian codec, cycle phase order, latch and publish characterisation) + differential correspondence "
                 "against the real IoInterface and the real scan cycle with instrumented drivers",
    "level_text": "Proved in Lean 4 for every image, address, value, binding list, driver script, program body and cycle (no bound): "
                  "write frame (c07_write_frame: other areas, the hierarchical map, every byte outside [byte, byte+size) and for X the "
                  "other seven bits unchanged; image grows exactly to the span), read locality (c07_read_local), read-after-write "
                  "(c07_read_write), bit n of byte b and little-endian closed forms (c07_read_bit, c07_read_le, c07_write_le, c07_le), "
                  "non-interference of disjoint addresses incl. two bits of one byte (c07_write_disjoint_read), hierarchical and "
                  "wildcard addresses (c07_hier, c07_wildcard); the typed codec is a bijection between the I/O values of the size and "
                  "the representable values of the type for the 25 bindable types - the 17 elementary types and, since the repair "
                  "of C07-time-input, TIME/DATE/TOD/DT (signed 32-bit counts: milliseconds / ticks) and LTIME/LDATE/LTOD/LDT "
                  "(signed 64-bit nanoseconds) (c07_coerce_encode_decode / _decode_encode); an enum is published as the integer "
                  "of its base type with its numeric value (c07_enum_publish, repair of C07-enum-output); bound variable = decode(latched bytes) and the latch writes nothing "
                  "else (c07_latch_value, c07_latch_decode, c07_latch_frame); published bytes = encode(final value) unless a later "
                  "binding overlaps (c07_collect_value, c07_publish_encode), the publish never touches the input image "
                  "(c07_collect_inputs); for the cycle: trace = CycleStart, one read per driver in order, no driver call while all "
                  "programs of the ready tasks then the background programs run, one write per driver in order carrying the final "
                  "output image, CycleEnd (c07_latch_once); each body starts on exactly the storage the previous one left, from the "
                  "latched storage (c07_store_thread, c07_reads_see_latched); final images/driver bytes encode the final storage "
                  "(c07_published); a cycle failing before the driver writes gives no driver anything and, before the collect, "
                  "leaves the images as the input phase left them (c07_fault_no_publish; c07_fault_in_publish and its counterexample "
                  "describe the one excluded case, a driver's own write failing); a faulted resource is a no-op (c07_faulted_noop); "
                  "partial access %X/%B/%W/%D: frame, content, read-after-write, range (c07_partial_read, c07_partial_write); the bindings "
                  "derived from `x AT base : T` are well typed whenever the declaration is accepted (no guard on the leaf types any "
                  "more) and lay the leaves of arrays/structures out disjointly (c07_expand_layout); well-typed binding sets never "
                  "fault in read_inputs, nor in write_outputs when the variables hold representable values of their types or enums "
                  "standing for one (c07_bindings_total, formerly _partial). "
                  "Each run executes the model and the REAL code (IoInterface, VariableStorage, partial access, and whole compiled "
                  "CONFIGURATIONs cycled through Runtime::execute_cycle with logging IoDrivers registered by add_io_driver) on the same "
                  "generated cases and compares results, images, variables and the ordered driver/runtime event log.",
    "level_note": "Trusted: Lean kernel + propext/Quot.sound/Classical.choice; the hand-written model (validated only by the "
                  "differential run, whose generators bound what it sees); Rust std from_le_bytes/to_le_bytes/`as`/from_bits as "
                  "stated in trusted_base.  Only tested, not proved: that the compiler turns the AT declarations of a source into the "
                  "model's expandAt lists in registration order (compared per case through Runtime::io().bindings(); the model of "
                  "collect_io_bindings / offset_address covers elementary types, 1-D arrays and flat structures on flat base "
                  "addresses), IoAddress::parse (addresses go through it where a text form exists), scheduling (C06).  Not "
                  "modelled: apply_safe_state / non-default fault policies (C08), forced variables, retain saving, float conversion "
                  "of a non-float numeric value into a REAL/LREAL binding, AT on FB members / VAR_CONFIG / nested or "
                  "multi-dimensional types / unions / relative field addresses / hierarchical base addresses.  Theorems about typed bindings are stated for "
                  "Binding.wellTyped (type among the 25, size = size of type, flat address, bit <= 7: proved for every binding the "
                  "compiler model derives, c07_expand_layout) and holdsTyped (the variable holds an in-range value of its type that "
                  "the image can represent - a 32-bit date/time value must be a whole count fitting 32 bits, otherwise the code "
                  "answers Overflow / truncates a TIME below 1 ms - or an enum whose numeric value is one).  Findings "
                  "C07-time-input and C07-enum-output are repaired in /repo (regression witnesses c07_time_input_latches, "
                  "c07_enum_output_publishes, replayed on the real code on every run; the old counterexample theorems are gone).  "
                  "Open: C07-enum-input - an enum variable bound to %I/%M is latched as a bare integer of the base type "
                  "(c07_counterexample_enum_input: coerce_from_io never yields an enum); the model is faithful to that, the witness "
                  "run reports it as KNOWN-FINDING.",
}


def _finding_cases(cases):
    out = {}
    for c in cases:
        for t in c.tags:
            if t.startswith("finding-"):
                out[t[len("finding-"):]] = c
    return out


# What the property demands of each witness (the cycle answer `res=.. log=.. vars=.. I=.. Q=.. M=..`):
# variable 4 is the AT-bound one.
_WITNESS_ORACLE = {
    # repaired: TIME at %ID0, driver delivers 07 01 00 00 -> T#263ms
    "time-input": {"var4": "time:263000000", "what": "a TIME variable bound to %ID0 must hold decode(latched bytes 07 01 00 00) = "
                                                      "T#263ms after the cycle"},
    # repaired: enum at %QW0 holding Blue (2) -> bytes 02 00
    "enum-output": {"var4": "enum:2", "Q": "02000000", "what": "an enum variable bound to %QW0 holding Blue must be published as "
                                                             "its numeric value: %QW0 = 02 00"},
    # open: enum at %IW0, driver delivers 01 00 -> Color#Green
    "enum-input": {"var4": "enum:1", "what": "an enum variable bound to %IW0 must hold the enum value with the latched numeric "
                                             "value (Green) after the cycle"},
}


def _witness_verdict(kind, case):
    """None when the witness behaves as the property demands, else a short signature of what it did."""
    if "compile-refused" in case.tags:
        return "compile-refused"
    impl = [i for (_op, i) in case.ops if i.startswith("res=")]
    if not impl:
        return "missing"
    fields = dict(f.split("=", 1) for f in impl[0].split() if "=" in f)
    if fields.get("res") != "ok":
        return "res=" + fields.get("res", "?")
    want = _WITNESS_ORACLE[kind]
    var4 = (fields.get("vars", "").split(",") + [""] * 5)[4]
    if var4 != want["var4"]:
        return "latched=" + var4
    if "Q" in want and fields.get("Q") != want["Q"]:
        return "Q=" + fields.get("Q", "?")
    return None


def extra(ctx):
    """Oracle on the implementation for the recorded findings: the witness programs (a TIME input binding, an
    enum output binding, an enum input binding) are compiled and cycled by the harness on every run; the property
    demands that the cycle succeeds, the bound variable = decode(latched bytes) and the published bytes =
    encode(final value).  A witness of a repaired finding that misbehaves in any way (also: is missing, or the
    compiler refuses it) is a violation; the witness of the open finding failing with the recorded signature is a
    KNOWN-FINDING, failing differently a violation."""
    res = {"known": [], "oracle_failures": [], "coverage": {}}
    known = {f["id"]: f for f in vlib.known_findings("C07")}
    witnesses = _finding_cases(ctx["cases"])
    reproduced = {}
    for kind in sorted(_WITNESS_ORACLE):
        fid = f"C07-{kind}"
        case = witnesses.get(kind)
        if case is None:
            # a single-case replay (--only) does not run the witnesses; a full run always does (the harness
            # fails otherwise)
            reproduced[fid] = "not-run"
            continue
        verdict = _witness_verdict(kind, case)
        reproduced[fid] = verdict or "as-required"
        if verdict is None:
            continue
        entry = known.get(fid)
        if entry is not None and entry.get("match") == verdict:
            res["known"].append(entry["what"])
        else:
            res["oracle_failures"].append({
                "what": _WITNESS_ORACLE[kind]["what"],
                "finding": fid, "observed": verdict, "case": case.n, "case_lines": case.lines,
                "seed": ctx["seed"], "tier": ctx["tier"],
            })
    res["coverage"]["finding_witnesses"] = reproduced
    # histogram of case kinds and of the tags the harness attached (faulted, debugger, driversN, sweep-T …)
    tags = {}
    for c in ctx["cases"]:
        for t in c.tags:
            tags[t] = tags.get(t, 0) + 1
    res["coverage"]["case_tags"] = dict(sorted(tags.items()))
    return res
