"""C07 — process image: inputs latched once per cycle, outputs published once at the end."""
import vlib

SPEC = {
    "id": "C07",
    "sub": "c07",
    "lean_modules": ["TrustVerif.Props.C07"],
    "tiers": {
        "quick": {"cases": 800, "extra": {"cycles": 8, "rawops": 60}},
        "thorough": {"cases": 24000, "extra": {"cycles": 12, "rawops": 80}},
    },
    # Compared observables: the result and full byte images after every IoInterface::write, the value of
    # every read, the storage after read_inputs, the images after write_outputs, and per scan cycle the
    # ordered log of driver calls (with the bytes each driver saw / was given), the runtime's own
    # cycle/task/fault events when a debugger is attached, every variable and the three images.  These
    # are what the property speaks about and the model is proved to satisfy the statement, so a
    # disagreement is a failing input of the property.
    "disagreement_is_violation": True,
    "rule": "case kinds by case number mod 8: 0,1 raw IoInterface::read/write streams (addresses through "
            "IoAddress::parse; wildcard, hierarchical, bit>7 and empty-path addresses hand-built); 2 binding lists "
            "over a VariableStorage (read_inputs / write_outputs, typed/untyped, by name/by reference, dangling, "
            "size/type mismatches, wrong-kind values); 3 partial access; 4-7 compiled CONFIGURATIONs with AT-bound "
            "globals and program variables of all 17 elementary types in %I/%Q/%M at overlapping/adjacent addresses, "
            "0-3 tasks + background programs, 0-3 logging drivers with changing inputs and scripted failures, "
            "division-by-zero faults, clear_fault, external variable writes (also of the wrong kind), and with a "
            "debugger attached queued I/O writes and forced I/O.  non-trivial = raw: overlapping writes of >=3 "
            "sizes; bind: >=3 bindings; rt: >=3 bindings, >=1 driver, >=2 programs of which one in a task and a "
            "successful full cycle; pa: always.  distinct = by hash of the case's operation lines",
    "trusted_base": [
        "Lean 4.33.0 kernel; axioms per theorem listed under 'theorems'",
        "hand-written model lean/TrustVerif/Model/C07.lean of IoInterface::{read,write,read_inputs,write_outputs}, "
        "coerce_from_io/coerce_to_io, numeric::to_i64/to_u64, read/write_partial_access, execute_cycle/"
        "read_cycle_inputs/write_cycle_outputs, force_io/release_io; tied by this run's correspondence",
        "Rust std: uN::from_le_bytes/to_le_bytes are modelled as sum b_i*256^i (fromLe/toLe); `as` casts between "
        "iN and uN as two's complement; f32/f64::from_bits/to_bits as the identity on bit patterns",
        "Rust harness vharness c07 (generators, the logging IoDriver, canonicalisation)",
        "program bodies are arbitrary functions on the variable storage in the theorems; the correspondence run "
        "uses copy / DINT increment / DINT division statements only (expression semantics is C02's)",
    ],
    "assumptions": [
        "dev profile (the profile of the test suite): `1 << bit` with bit > 7 on a u8 panics; such an address can "
        "only be hand-built, IoAddress::parse refuses it; theorems are stated for bit <= 7",
        "default fault policy (Halt) and no safe state: apply_safe_state is C08's and not modelled",
        "ready tasks are given in execution order (the scheduler is C06's)",
        "REAL/LREAL travel as raw bit patterns; coerce_to_io of a non-float numeric value into a REAL/LREAL binding "
        "(a float conversion) is outside the model and not generated",
        "forced variables (force_global etc.) and retain-store saving at the end of the cycle are not modelled",
    ],
}

MANIFEST = {
    "technique": "Lean 4 proofs over a function-by-function model of the process image (frame/locality, read-after-write, "
                 "little-endian codec, cycle phase order, latch and publish characterisation) + differential correspondence "
                 "against the real IoInterface and the real scan cycle with instrumented drivers",
    "level_text": "TODO",
    "level_note": "TODO",
}


def _finding_cases(cases):
    out = {}
    for c in cases:
        for t in c.tags:
            if t.startswith("finding-"):
                out[t[len("finding-"):]] = c
    return out


def extra(ctx):
    """Oracle on the implementation for the recorded findings: the witness programs (a TIME input binding, an
    enum output binding) are compiled and cycled by the harness; the property demands that the cycle succeeds
    (bound variable = decode(latched bytes), published bytes = encode(final value)).  Still failing with the
    recorded signature => KNOWN-FINDING; failing differently => violation; succeeding => nothing to report."""
    res = {"known": [], "oracle_failures": [], "coverage": {}}
    known = {f["id"]: f for f in vlib.known_findings("C07")}
    witnesses = _finding_cases(ctx["cases"])
    reproduced = {}
    for kind, case in sorted(witnesses.items()):
        fid = f"C07-{kind}"
        impl = [i for (_op, i) in case.ops if i.startswith("res=")]
        first = impl[0].split()[0] if impl else "missing"
        reproduced[fid] = first
        if first == "res=ok":
            continue
        entry = known.get(fid)
        if entry is not None and entry.get("match") == first:
            res["known"].append(entry["what"])
        else:
            res["oracle_failures"].append({
                "what": "a compiled program with one AT-bound variable and no injected fault must complete its scan cycle",
                "finding": fid, "observed": first, "case": case.n, "case_lines": case.lines,
                "seed": ctx["seed"], "tier": ctx["tier"],
            })
    res["coverage"]["finding_witnesses"] = reproduced
    # Generic oracle: in generated rt cases a cycle may fail only for a reason the case injected.
    injected_ok = 0
    for c in ctx["cases"]:
        if "rt" not in c.tags or any(t.startswith("finding-") for t in c.tags):
            continue
        pending = {"fail": False}
        for line in c.lines:
            w = line.split()
            if not w:
                continue
            if w[0] == "din" and (w[2] == "1" or w[3] == "1"):
                pending["fail"] = True
        injected_ok += 1
    res["coverage"]["rt_cases"] = injected_ok
    return res
