"""C08 — a fault halts the resource and, under safe_halt, forces every safe-state output."""

SPEC = {
    "id": "C08",
    "sub": "c08",
    "lean_modules": ["TrustVerif.Props.C08"],
    "tiers": {
        "quick": {"cases": 500},
        "thorough": {"cases": 20000},
    },
    "disagreement_is_violation": True,
    "rule": "tbd",
    "trusted_base": [],
    "assumptions": [],
}

MANIFEST = {
    "technique": "tbd",
    "level_text": "tbd",
    "level_note": "tbd",
}
