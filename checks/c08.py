"""C08 — a fault halts the resource and, under safe_halt, forces every safe-state output.

Pipeline (check.py standard_run): prove Props/C08.lean, build the harness against /repo, run the
real runtime on generated fault histories (vharness c08), run the Lean model on the same
histories (driver c08), diff line by line.  `extra` below additionally evaluates the property's
own statement on the implementation's answers alone (independent of the model).
"""
import sys

SPEC = {
    "id": "C08",
    "sub": "c08",
    "lean_modules": ["TrustVerif.Props.C08"],
    "tiers": {
        "quick": {"cases": 600},
        "thorough": {"cases": 15000},
    },
    # the compared observables (returned error, faulted / last_fault, statement counter and program
    # activations, merged order of driver calls with the images they received and the Fault event,
    # the three images, the read-back of every safe-state address, "anything changed") are what the
    # property speaks about, and the model is proved to satisfy the property, so a disagreement is a
    # failing input of the property or of the tie
    "disagreement_is_violation": True,
    # when an obligation breaks without a failing input, search with 2x (not 10x) the cases: a case costs ~35 ms
    "search_factor": 2,
    "rule": "case = generated CONFIGURATION (0-3 periodic tasks, 1-4 programs of counted statements that can "
            "fault at a chosen activation: division by zero directly / inside a FUNCTION / inside a "
            "FUNCTION_BLOCK, array index out of bounds; 0-2 function block instances per program associated with tasks "
            "(`(u WITH T)`, run after the task's programs, faulting and non-faulting, before/after faulting programs); "
            "programs whose initialiser divides by a RETAIN global that statements and debugger writes can set to 0, so "
            "that warm restarts fail half-way; globals bound to %I/%Q/%M addresses of every size; an INT "
            "published through a SINT binding so that the publish phase can overflow) x 0-3 logging IoDrivers with "
            "scripted read/write failures x optional scripted RetainStore x safe-state maps over all address shapes "
            "(X/B/W/D/L, overlapping, %I/%M areas, hierarchical, wildcard, ill-typed values) x fault policy x watchdog "
            "action x a 12-24 step history of cycle / clock advance / watchdog_timeout / simulation_fault / policy, "
            "watchdog and safe-state updates / queued debug I/O writes (also ill-typed) / restart warm|cold / "
            "force_io / release_io (also ill-typed) / debugger variable writes queued at arbitrary points, in particular "
            "while faulted (enqueue_global_write, enqueue_instance_write by InstanceId, enqueue_lvalue_write to a global "
            "name and to a program's field) / force_global / release_global / execution deadline in the past / clear_fault; one case in six "
            "ends by handing the runtime to a real ResourceRunner thread (deterministic gate clock, watchdog "
            "enabled/disabled with a 1 ns or 1 h timeout, one in three with a simulation controller whose post-cycle "
            "step fails) and compares the thread's whole event log, final state and "
            "last_error; cases 0-10 are the hand-written corpus (witnesses of the repaired defect, the central "
            "scenarios). non-trivial = a fault was raised and at least one later cycle request was refused, or the "
            "runner thread ended in Faulted; "
            "distinct = by hash of the case's operation lines",
    "trusted_base": [
        "Lean 4.33.0 kernel; axioms per theorem listed under 'theorems'",
        "hand-written model lean/TrustVerif/Model/C08.lean of execute_cycle / read_cycle_inputs / "
        "write_cycle_outputs / record_fault / apply_fault / apply_safe_state / IoSafeState::apply / "
        "IoInterface::{read,write} / FaultDecision::{from_fault_policy,from_watchdog} / restart (latch part) / "
        "one iteration of scheduler.rs run_resource_loop, tied to the code by this run's correspondence",
        "the application is abstract in the theorems (Sem: programs, plan, bindings, drivers, retain store are "
        "arbitrary functions); its concrete instance Conc (statement language of the generated programs, C06 "
        "scheduler model for the plan, binding coercions, scripted drivers) is only tested",
        "Rust harness vharness c08 (generator; observation through logging IoDriver, DebugControl runtime "
        "events drained inside every driver call, Runtime::{faulted,last_fault,io,storage,cycle_counter}) and "
        "the Python oracle in checks/c08.py",
    ],
    "assumptions": [
        "deterministic drivers/retain store (functions of their own state and the image they are handed)",
        "the health sink is not modelled (pending debugger writes, forced I/O values and forced variables are; what a "
        "write does to the storage is an arbitrary function `poke` in the theorems); "
        "IoAddress.bit <= 7 as IoAddress::parse guarantees",
        "what restart does to the variables is an arbitrary, fallible function in the theorems (C09's subject); whether it "
        "gives programs new instances is reported by the harness per restart and followed by the concrete model",
        "the resource thread is modelled without pause/commands; the restart-request block is modelled as the code "
        "handles it (finding C08-runner-restart-failure: a failing load ends the thread without apply_fault)",
        "shared-global synchronisation (tick_with_shared / SharedGlobals) is another actor and not part of a cycle request",
    ],
}

MANIFEST = {
    "technique": "Lean 4 invariant/induction proofs over a state machine that mirrors execute_cycle, apply_fault and "
                 "apply_safe_state and is generic in the application (all programs, bindings, drivers, safe-state maps, "
                 "histories) + differential correspondence against the real Runtime under fault injection + an oracle "
                 "evaluating the property on the implementation's own answers",
    "level_text": "Proved, unbounded, for every application (programs, task plan, bindings, drivers and retain store are "
                  "arbitrary functions), every safe-state map and every history: c08_refused / c08_latched (a cycle request "
                  "on a faulted resource returns ResourceFaulted, is the identity on the whole state, calls no driver and "
                  "runs no statement; induction over histories without restart/clear_fault, also across further "
                  "watchdog/simulation faults and configuration updates), c08_latched_queue / c08_queue_drained (debugger "
                  "variable and l-value writes queued while latched stay queued and never reach the storage; the first cycle "
                  "that is not refused applies them in order and empties both queues), c08_failed_restart / "
                  "c08_latched_failed_restarts (a restart that returns an error touches nothing but the partly rebuilt storage: "
                  "the latch stays and, by induction over histories in which every restart attempt fails, every cycle request "
                  "stays refused), c08_error_latches / c08_fault_sources(_complete) / "
                  "c08_phase_errors / c08_source_{program,driver_read,driver_write} (whichever phase, driver or program "
                  "fails first, its error is returned, latched, and nothing later runs), c08_safe_image / "
                  "c08_cycle_safe_halt / c08_fault_op_safe (under a safe-state decision every entry whose value has the "
                  "size of its address and that no later entry overwrites reads back its value, every driver's last "
                  "received image is the final output image, and the deliveries precede the Fault report — with no "
                  "assumption on driver results or on the other entries), c08_policy_table, and for the resource thread "
                  "c08_runner_{iter,loop,safe} (whatever the cycle, the post-cycle simulation step and the watchdog do, the "
                  "thread never cycles a faulted runtime and ends in Faulted with the fault latched and, under a safe-state "
                  "decision, the safe image delivered first); the restart-request block only as "
                  "c08_runner_restart_signal_partial with c08_counterexample_restart_load (open finding, replayed each run). "
                  "Each run replays generated "
                  "fault histories on the real Runtime (compiled from ST source by the real compiler) and on the model and "
                  "compares every observable after every operation.",
    "level_note": "Trusted: Lean kernel + propext/Quot.sound/Classical.choice; the hand-written model (validated only by "
                  "the differential run, whose generator bounds what it sees: histories of 12-24 operations, <= 3 drivers, "
                  "<= 4 programs). Only tested, not proved: the concrete statement language / scheduler / coercions used to "
                  "replay cases (the theorems do not depend on them). Not modelled: pause/commands/restart signal and the "
                  "simulation controller of the resource thread (only the result of apply_post_cycle), "
                  "the health sink, SharedGlobals synchronisation; hierarchical addresses never reach a driver (C07). "
                  "Finding C08-runner-post-cycle is repaired in /repo (560796d); its witness (--probe postcycle, corpus cases "
                  "7-8) is a regression case. Remaining same-shape bypasses in scheduler.rs, which end the thread in "
                  "ResourceState::Faulted without apply_fault (no latch, no Fault event, no safe state under safe_halt): a "
                  "restart request whose restart()/load_retain_store() fails (open finding C08-runner-restart-failure, "
                  "replayed by --probe restartload; the same lines serve a failing restart under policy/action 'restart', "
                  "where no safe state is requested anyway) and SharedGlobals sync errors (observation only: "
                  "sync_into_locked / sync_from_locked cannot fail for names created by from_runtime). The defect of "
                  "DESIGN.md §7 #8 (safe state stopped at the first failing address/driver) is repaired in /repo (9aab78e); "
                  "its witnesses are cases 0 and 1 of the corpus.",
}

# ------------------------------------------------------------------------------------------------
# Oracle on the implementation: the property's statement evaluated on the `impl` lines alone
# ------------------------------------------------------------------------------------------------

WIDTH = {"X": 1, "B": 1, "W": 2, "D": 4, "L": 8}
TAG = {"X": "b", "B": "B", "W": "W", "D": "D", "L": "L"}
RANGE = {"b": 2, "B": 1 << 8, "W": 1 << 16, "D": 1 << 32, "L": 1 << 64}


def parse_addr(tok):
    area, size, byte, bit, wc, path = tok.split(":")
    return {"area": area, "size": size, "byte": int(byte), "bit": int(bit), "wild": wc == "1",
            "path": [] if path == "-" else [int(x) for x in path.split(".")]}


def hier(a):
    return len(a["path"]) > 1


def writable(a, v):
    return (not a["wild"]) and (hier(a) or v[0] == TAG[a["size"]])


def fits(a, v):
    if a["wild"]:
        return False
    if hier(a):
        return True
    if v[0] != TAG[a["size"]] or a["bit"] > 7:
        return False
    return 0 <= int(v[1:]) < RANGE[v[0]]


def indep(a, b):
    """a write to b cannot change what a read of a returns"""
    if b["wild"]:
        return True
    if hier(a):
        return (not hier(b)) or (a["area"], a["size"], a["path"], a["bit"]) != (b["area"], b["size"], b["path"], b["bit"])
    if hier(b) or a["area"] != b["area"]:
        return True
    if a["byte"] + WIDTH[a["size"]] <= b["byte"] or b["byte"] + WIDTH[b["size"]] <= a["byte"]:
        return True
    return a["size"] == "X" and b["size"] == "X" and a["byte"] == b["byte"] and a["bit"] != b["bit"]


def parse_impl(line):
    return dict(tok.split("=", 1) for tok in line.split())


def oracle_case(case):
    """Yield (op_index, op, impl, clause) for every clause of the property the implementation breaks."""
    ndrv = sum(1 for l in case.lines if l.startswith("drv "))
    policy, wd, safe, prev = "halt", "safe", [], None
    for k, (op, impl) in enumerate(case.ops):
        if op is None:
            continue
        w = op.split()
        name = w[0]
        d = parse_impl(impl)
        bad = []
        if name == "runloop":
            # the ResourceRunner thread: it must never cycle on after a fault (unless the policy is
            # restart), and must end in Faulted with the safe image delivered when the decision says so
            evs = [] if d["ev"] == "-" else d["ev"].split(",")
            faults = [i for i, ev in enumerate(evs) if ev.startswith("F:")]
            if d["state"] == "Faulted":
                e = d["err"]
                if e == "-":
                    bad.append("thread Faulted without last_error")
                elif e != "ResourceFaulted" and (not evs or evs[-1] != "F:" + e) and \
                        (policy == "restart" or wd == "restart") and e == "DivisionByZero":
                    # the warm restart the thread performs for policy/action `restart` failed (an
                    # initialiser divides by the RETAIN divisor): `restart_err` ends the thread without
                    # apply_fault — the shape of known finding C08-runner-restart-failure
                    bad.append(KNOWN_PREFIX + PROBES["restartload"][0])
                elif e != "ResourceFaulted":
                    if not evs or evs[-1] != "F:" + e:
                        bad.append("thread reported a fault that is not the last event (not latched through apply_fault, or it went on)")
                    applies = (wd in ("halt", "safe")) if e == "WatchdogTimeout" else (policy == "safe")
                    if applies:
                        imgs = [ev.split(":", 1)[1] for ev in evs[-1 - ndrv:-1] if ev.startswith("w")]
                        names = [ev.split(":", 1)[0] for ev in evs[-1 - ndrv:-1]]
                        if names != [f"w{i}" for i in range(ndrv)] or len(set(imgs)) > 1:
                            bad.append("safe image not delivered to every driver before the thread reported the fault")
            elif d["err"] != "-":
                bad.append("thread not Faulted although it recorded an error")
            if policy != "restart" and faults and faults[0] != len(evs) - 1:
                bad.append("cycles executed after a fault without restart policy")
            for clause in bad:
                yield k, op, impl, clause
            continue
        pre_faulted = prev is not None and prev["f"] == "1"
        if name == "policy":
            policy = w[1]
        elif name == "wd":
            wd = w[1]
        elif name == "safe":
            safe = [(parse_addr(w[2 + 2 * i]), w[3 + 2 * i]) for i in range(int(w[1]))]
        if pre_faulted and name not in ("restart", "clear") and d["f"] != "1":
            bad.append("latch released without restart")
        if name == "restart" and d["e"] != "-":
            # a restart that returned an error is not a restart: latch and images as before
            if prev is not None and (d["f"] != prev["f"] or d["lf"] != prev["lf"] or
                                     any(d[x] != prev[x] for x in ("in", "out", "mem", "cc", "now"))):
                bad.append("a failed restart changed the latch, the images, the clock or the cycle counter")
        if name == "cycle" and pre_faulted:
            if d["e"] != "ResourceFaulted":
                bad.append("cycle on a faulted resource not refused")
            if d["ev"] != "-" or d["pr"] != "-" or d["st"] != prev["st"]:
                bad.append("refused cycle executed statements or called a driver")
            if d.get("ch") != "0" or any(d[x] != prev[x] for x in ("in", "out", "mem", "lf", "cc", "sr", "gv", "ns", "fn")):
                bad.append("refused cycle changed observable state")
        if name == "cycle" and d["e"] == "-" and d["f"] != "0":
            bad.append("successful cycle left the resource faulted")
        if name == "watchdog" and d["e"] != "WatchdogTimeout":
            bad.append("watchdog_timeout did not report WatchdogTimeout")
        if name == "simfault" and d["e"] != "SimulationFault":
            bad.append("simulation_fault did not report SimulationFault")
        if name in ("cycle", "watchdog", "simfault") and d["e"] not in ("-", "ResourceFaulted"):
            e = d["e"]
            evs = [] if d["ev"] == "-" else d["ev"].split(",")
            if d["f"] != "1" or d["lf"] != e:
                bad.append("fault not latched as last_fault")
            if not evs or evs[-1] != "F:" + e:
                bad.append("fault event is not the last event")
            applies = (wd in ("halt", "safe")) if name == "watchdog" else (policy == "safe")
            if applies:
                tail = [f"w{i}:{d['out']}" for i in range(ndrv)] + ["F:" + e]
                if evs[-len(tail):] != tail:
                    bad.append("safe image not delivered to every driver before the fault was reported")
                sr = [] if d["sr"] == "-" else d["sr"].split(",")
                for i, (a, v) in enumerate(safe):
                    if fits(a, v) and all(indep(a, b) or not writable(b, bv) for b, bv in safe[i + 1:]):
                        if i >= len(sr) or sr[i] != v:
                            bad.append(f"safe-state entry {i} does not hold its safe value")
            elif name != "cycle":
                if evs != ["F:" + e] or (prev is not None and any(d[x] != prev[x] for x in ("in", "out", "mem"))):
                    bad.append("safe state applied although the decision does not ask for it")
        for clause in bad:
            yield k, op, impl, clause
        prev = d


# Witness replays on the real ResourceRunner (vharness c08 --probe <kind>): kind -> (signature, clause).
# A reproduction is a KNOWN-FINDING only while known_findings.json lists the signature as "open";
# for a repaired finding ("fixed") the witness is a regression case and a reproduction is a VIOLATION.
PROBES = {
    "postcycle": ("runner-post-cycle:thread-Faulted-without-fault-decision",
                  "post-cycle simulation error: thread ended Faulted under safe_halt without latching the fault "
                  "or delivering the safe image"),
    "restartload": ("runner-restart-failure:thread-Faulted-without-fault-decision",
                    "failed restart request (load_retain_store error): thread ended Faulted under safe_halt "
                    "without latching the fault or delivering the safe image"),
}


KNOWN_PREFIX = "KNOWN:"


def run_probe(kind):
    """Returns (reproduces, line); reproduces is None when the probe could not be run."""
    import vlib  # noqa: PLC0415
    try:
        rc, log = vlib.sh([vlib.VHARNESS, "c08", "--probe", kind], cwd=vlib.WORK, timeout=300)
    except Exception as e:  # a starved machine must not turn a witness replay into a failure
        return None, f"probe {kind} did not finish: {e}"
    line = next((l for l in log.splitlines() if l.startswith(f"probe {kind} ")), None)
    if rc != 0 or line is None:
        return None, f"probe {kind} did not run: " + log[-300:]
    d = dict(tok.split("=", 1) for tok in line.split()[2:])
    evs = [] if d["ev"] == "-" else d["ev"].split(",")
    # setup of every probe: safe_halt, safe state %QB0 := 16#A5, one driver
    delivered = (len(evs) >= 2 and evs[-1].startswith("F:") and evs[-2].startswith("w0:a5"))
    return (d["state"] == "Faulted" and not delivered), line


def extra(ctx):
    failures, fails = [], []
    known = []
    import vlib  # noqa: PLC0415
    probe_lines = {}
    for kind, (signature, clause) in PROBES.items():
        repro, line = run_probe(kind)
        probe_lines[kind] = line
        listed = [f for f in vlib.known_findings("C08") if f.get("match") == signature]
        if repro and listed:
            known.append(listed[0]["what"])
        elif repro:
            failures.append({"case": "probe-" + kind, "op": "ResourceRunner witness replay " + kind,
                             "impl": line, "clause": clause, "seed": ctx["seed"], "tier": ctx["tier"]})
    for c in ctx["cases"]:
        for k, op, impl, clause in oracle_case(c):
            if clause.startswith(KNOWN_PREFIX):
                listed = [f for f in vlib.known_findings("C08") if f.get("match") == clause[len(KNOWN_PREFIX):]]
                if listed:
                    if listed[0]["what"] not in known:
                        known.append(listed[0]["what"])
                    continue
            failures.append({"case": c.n, "op_index": k, "op": op, "impl": impl, "clause": clause,
                             "seed": ctx["seed"], "tier": ctx["tier"], "case_lines": c.lines,
                             "what": "the property's statement evaluated on the implementation's own answers fails"})
            break
    stats = ctx["result"].get("stats", {})
    rows = ["fault_under_halt", "fault_under_safe", "fault_under_restart",
            "watchdog_under_halt", "watchdog_under_safe", "watchdog_under_restart",
            "simfault_under_safe", "cycle_refused", "cycle_fault_DivisionByZero", "cycle_fault_IoDriver",
            "cycle_fault_Overflow", "cycle_fault_TypeMismatch", "fb_units", "restart_failed_while_faulted",
            "op_varwrite_while_faulted"]
    if len(ctx["cases"]) >= 200:
        missing = [r for r in rows if not stats.get(r)]
        if missing:
            fails.append("generator coverage hole (tie too weak to trust): no case exercised " + ", ".join(missing))
    return {"oracle_failures": failures, "failures": fails, "known": known,
            "coverage": {"runner_probes": probe_lines,
                         "oracle": "property clauses evaluated on the impl lines of every case (checks/c08.py oracle_case)",
                         "policy_rows_exercised": {r: stats.get(r, 0) for r in rows}}}


def replay(obj):
    """./check.py C08 --replay replays/C08-….json : re-run exactly that case (model diff + oracle)."""
    import check  # noqa: PLC0415
    if str(obj.get("case", "")).startswith("probe-"):
        repro, line = run_probe(obj["case"][len("probe-"):])
        print(line)
        print("replay:", "still fails" if repro else "passes")
        return 1 if repro else 0
    if "case" not in obj or "seed" not in obj:
        print(obj)
        print("this replay names a broken obligation, not an input; re-run the check itself")
        return 1
    mod = sys.modules[__name__]
    r = check.standard_run(mod, obj.get("tier", "quick"), obj["seed"], only=obj["case"])
    for d in r["disagreements"]:
        print(f"case {d['case']} op {d['op_index']}: {d['op']}\n  impl : {d['impl']}\n  model: {d['model']}")
    for d in r["oracle_failures"]:
        print(f"case {d['case']} op {d['op_index']}: {d['op']}\n  impl : {d['impl']}\n  fails: {d['clause']}")
    bad = bool(r["disagreements"] or r["oracle_failures"] or r["failures"])
    for f in r["failures"]:
        print("failure:", f)
    print("replay:", "still fails" if bad else "passes")
    return 1 if bad else 0
