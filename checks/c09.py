"""C09 — restart semantics: warm keeps exactly RETAIN data, cold equals a fresh start."""
import re

import vlib

SPEC = {
    "id": "C09",
    "sub": "c09",
    "lean_modules": ["TrustVerif.Props.C09"],
    "tiers": {
        "quick": {"cases": 300, "extra": {"steps": 12}},
        "thorough": {"cases": 8000, "extra": {"steps": 16}},
    },
    # The model is a transcription of the code INCLUDING its known defects, so any disagreement is a
    # change of behaviour of the anchored functions on a concrete input.  The property's own clauses
    # are evaluated on the implementation's dumps by the harness (`#o` lines) and classified below.
    "disagreement_is_violation": True,
    "rule": "case = generated project (1-3 programs, 0-2 FB types, globals/program variables/FB members over "
            "RETAIN/NON_RETAIN/unqualified/PERSISTENT x 27 elementary types, enum, structs, arrays (1-2 dims, of "
            "struct), FB instances; PROGRAM-level RETAIN/NON_RETAIN; direct addresses %I/%Q/%M on globals, program "
            "variables and FB members; VAR_ACCESS; VAR_CONFIG values; tasks with SINGLE/INTERVAL and FB task "
            "bindings) x history of 12-16 steps over cycle(dt) / direct input write / restart(cold|warm) / "
            "restart+load / fault / access write / save / power cycle (new runtime + store [+ start-up restart] + "
            "load); untyped-literal increments (`h := h + 1`: SINT/INT variables hold a DINT afterwards, saved and "
            "loaded as such); program-variable initialisers that are EXPRESSIONS over globals, earlier variables and "
            "typed literals; one case in five ends with a tail through the REAL resource thread (scheduler.rs "
            "ResourceRunner::spawn, paused): 1-5 restart requests reach its restart signal before it starts, while "
            "it is idle, or while it is inside the retain load of the previous request's restart (the store parks "
            "on a channel; deterministic); after every cold restart a freshly built twin receives the same continuation.  Cases 0-9 are "
            "the recorded witnesses of the known findings (1, 2, 7, 8, 9: regression cases).  non-trivial = a restart or power cycle happened after "
            "at least one executed cycle; distinct = by hash of the case's description + operation lines",
    "trusted_base": [
        "Lean 4.33.0 kernel; axioms per theorem listed under 'theorems'",
        "hand-written model lean/TrustVerif/Model/C09.lean of VariableStorage, create_*_instance, Runtime::restart, "
        "retain_snapshot/apply_retain_snapshot/load/save, the build sequence of harness/config.rs and execute_cycle "
        "(I/O latch/publish through ValueRefs, task FB references), tied by this run's correspondence",
        "the C06 scheduler model (collect_ready_tasks / sort) reused for task activation",
        "Rust harness vharness c09 (generator, literal tables, dump through Runtime::storage()/io()/access_map()/"
        "tasks()/programs(), FileRetainStore on a temp file, oracle evaluation)",
        "the retain file codec is treated as the identity (C10 proves encode/decode round trip); the real "
        "FileRetainStore is what the harness runs; snapshot equality is structural in the model (the IEEE corner cases "
        "of the derived PartialEq are C10's c10_manager_* theorems)",
    ],
    "assumptions": [
        "initialisers are constants or integer expressions (+, *) over INT/DINT/LINT globals without a direct address, "
        "EARLIER variables of the same program and typed literals, with values inside the declared type's range",
        "untyped-literal arithmetic is `x := x + <literal>` only (result tag: DINT for SINT/INT operands, the "
        "operand's own type otherwise), never on SINT/INT variables bound to a direct address",
        "scheduler tails: at most one requester at a time is blocked on the restart signal (two blocked requesters "
        "acquire the mutex in an order the standard library does not define)",
        "FB types contain no FB instances (nesting depth global/program variable -> FB instance); no REF_TO / "
        "class / interface variables, no FB inheritance",
        "program bodies are straight-line typed assignments, NOT, typed-literal increments and FB calls; values "
        "stay inside their type's range (overflow is C01's subject)",
        "restart(Cold) zeroes the %I image as well; the twin therefore starts from its own zero image",
        "FB members: the property's parenthesis names global and program-level variables; for members the oracle "
        "uses the IEC 61131-3 rule (member qualifier, else qualifier of the instance variable)",
    ],
}

MANIFEST = {
    "technique": "Lean 4 proofs over a transcription of restart.rs / memory.rs / instance.rs / the build sequence "
                 "(warm and cold clauses, resets, retain snapshot; counterexamples for the clauses the code violates) "
                 "+ differential correspondence of the model with the real runtime on generated projects and "
                 "histories + the property's own oracle (fresh twin, warm rule, power cycle) on the implementation",
    "level_text": "Proved for every runtime state and every well-formed declaration set of the modelled fragment, without "
                  "bound (induction over the declaration lists): c09_warm (= c09_warm_globals_kept/_reset, "
                  "c09_warm_program_vars_kept/_reset via c09_program_var): after restart(Warm) exactly the RETAIN/PERSISTENT "
                  "globals and program variables with retainable values keep their value, every other one has its declared "
                  "initial value; c09_cold_globals / c09_cold_program_vars: cold = declared initial values; "
                  "c09_restart_resets: time, fault latch, cycle counter, frames reset, task state re-seeded as at "
                  "registration, images untouched by Warm and zero-filled WITH THEIR LENGTHS PRESERVED by Cold, drivers and "
                  "everything static untouched; "
                  "c09_old_instances_untouched and c09_program_fb_recreated: what happens to FB instances; "
                  "c09_cold_fresh_partial: with no VAR_CONFIG values (the only remaining guard) a cold restart and a fresh "
                  "build agree on every variable path, FB member, clock, latch, counter, task state (any SINGLE initial "
                  "value) and on all three process images (equal to the equally sized fresh images, lengths included); c09_bindings_live_partial: bindings rooted in globals stay "
                  "connected; c09_power_cycle_globals_partial: save+load moves exactly the retained retainable GLOBALS; "
                  "c09_warm_restart_load_partial: restart(Warm)+load keeps the warm clause when the file was saved from the "
                  "restarted state; c09_save_ok_store / c09_save_sequence / c09_save_failure_changes_nothing: after any "
                  "sequence of save calls with any pattern of failing writes, an Ok result means the medium holds the "
                  "snapshot of that call (up to the manager's ==), and a failed write leaves manager and medium untouched; "
                  "c09_sched_no_request_lost: in the transition system of the restart signal + resource thread (take and "
                  "carry out in one critical section), for EVERY interleaving of requests, polls and completions nothing "
                  "stays pending, and the restart carried out last is the one requested last (c09_sched_scripts: the "
                  "scripted tails, kernel-evaluated); c09_expr_init_reads_creation_storage: create_program_instance "
                  "evaluates a closed initialiser expression over the globals of the storage it is called on. The violated clauses are refuted on concrete witnesses inside the model "
                  "(c09_counterexample_bindings, _config_init, _fb_member, _power_cycle, _warm_rollback; kernel-evaluated), "
                  "the two repaired ones are kept as agreeing regression witnesses (c09_witness_last_single_agrees, "
                  "c09_witness_images_agrees), and all seven projects are replayed on the real runtime in every run "
                  "(cases 0-6). Each run compares model and runtime step by step on generated projects/histories, including "
                  "a freshly built twin after every cold restart.",
    "level_note": "Five OPEN known findings (known_findings.json): restart re-creates instances so I/O, VAR_ACCESS and task-FB "
                  "bindings go stale; the retain snapshot covers globals only; FB-member RETAIN is ignored (program level) or "
                  "over-applied (RETAIN global FB); VAR_CONFIG values are lost by any restart; the restart step of the "
                  "resource loop reloads the store without saving first (warm restart rolls RETAIN globals back).  Two are "
                  "FIXED (last_single seeding 5436414, cold restart zeroes the images d6c1b45); their witnesses are "
                  "regression cases whose divergence is a violation.  The model reproduces the open defects (it is faithful "
                  "to the code), so a repair of any of them shows up as a model/implementation disagreement until the model "
                  "is updated.  'Same outputs for every continuation' is proved only as equality of the state every cycle "
                  "reads (observation by path); that equal observations give equal continuations is tested by the twin "
                  "run, not proved (the cycle model is test scaffolding for straight-line programs).  Trusted: Lean kernel, "
                  "the hand-written model (validated only by the differential run, whose generator bounds what it sees: no "
                  "overflow, no REF_TO, FB nesting depth 1), retain codec = identity (C10).  TESTED, NOT PROVED: (a) "
                  "initialiser expressions across a whole restart / cold-vs-fresh (model + driver carry them; oracle "
                  "clauses warm-rule, cold-vars, power-cycle evaluate the expression on the implementation's own "
                  "post-restart globals; c09_cold_fresh_partial is guarded to constant initialisers); (b) that the real "
                  "resource thread implements the proved signal protocol: scripted tails through ResourceRunner::spawn "
                  "are compared with restart+load folded over the restarts the transition system carries out, and the "
                  "oracle sched-request-lost counts retain loads against requests; the thread is paused, so free-running "
                  "cycles and run.rs start-up are still not executed; (c) tag drift of untyped-literal arithmetic is "
                  "modelled as the code behaves (C02/C03's subject), here only its interplay with save/load/restart.",
}

_SIG = re.compile(r"^#o known (\S+) (.*)$")
_FAIL = re.compile(r"^#o fail (\S+) (.*)$")
_WIT = re.compile(r"^#o witness (\S+) (\S+)$")


def extra(ctx):
    """Classify the oracle lines the harness wrote (property clauses evaluated on the implementation)."""
    listed = {f["match"]: f for f in vlib.known_findings("C09")}
    known_counts, first, fails, witness = {}, {}, [], {}
    for c in ctx["cases"]:
        for line in c.lines:
            m = _SIG.match(line)
            if m:
                sig = m.group(1)
                known_counts[sig] = known_counts.get(sig, 0) + 1
                first.setdefault(sig, m.group(2))
                continue
            m = _FAIL.match(line)
            if m:
                fails.append({"case": int(c.n), "clause": m.group(1), "detail": m.group(2),
                              "what": "a clause of C09 evaluated on the implementation's own outputs failed and "
                                      "matches no known finding",
                              "seed": ctx["seed"], "tier": ctx["tier"], "case_lines": c.lines})
                continue
            m = _WIT.match(line)
            if m:
                witness[m.group(1)] = m.group(2)
    known, oracle_failures, failures = [], list(fails), []
    for sig, n in sorted(known_counts.items()):
        f = listed.get(sig)
        if f is None:
            # the harness classified a failure under a signature nobody recorded: a violation
            oracle_failures.append({"clause": "unlisted-signature", "detail": f"{sig}: {first[sig]}",
                                    "seed": ctx["seed"], "tier": ctx["tier"]})
        else:
            known.append(f"{f['id']} reproduced in {n} cases (witness case {f['witness'].get('harness_case')}); first: {first[sig][:140]}")
    cov = {
        "known_signatures_seen": known_counts,
        "witness_replays": witness,
        "oracle_lines_failed": len(fails),
    }
    return {"coverage": cov, "oracle_failures": oracle_failures, "known": known, "failures": failures}


def replay(obj):
    """Re-run one recorded case (model-vs-implementation disagreement or oracle failure)."""
    import sys

    import check  # the orchestrator (same directory)

    if "case" not in obj:
        print("this replay names a broken obligation, not an input; re-run the check itself")
        return 1
    mod = sys.modules[__name__]
    r = check.standard_run(mod, obj.get("tier", "quick"), obj["seed"], only=obj["case"])
    for d in r["disagreements"]:
        print(f"case {d['case']} op {d['op_index']}: {d['op']}\n  impl : {d['impl']}\n  model: {d['model']}")
    for d in r["oracle_failures"]:
        print(f"case {d.get('case')}: clause {d.get('clause')}: {d.get('detail')}")
    bad = bool(r["disagreements"] or r["oracle_failures"] or r["failures"])
    print("replay:", "still fails" if bad else "passes")
    return 1 if bad else 0
