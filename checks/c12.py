"""C12 — parsing is total and lossless for every input text."""
import sys

import vlib

SPEC = {
    "id": "C12",
    "sub": "c12",
    "lean_modules": ["TrustVerif.Props.C12"],
    "tiers": {
        "quick": {"cases": 1800, "extra": {"maxbytes": 4096, "maxmodeltokens": 3000, "maxparseevents": 4000}},
        "thorough": {"cases": 30000, "extra": {"maxbytes": 4096, "maxmodeltokens": 7000, "maxparseevents": 20000, "sweepfull": 1}},
    },
    "timeout": 7200,
    # The compared observables are the post-pass token list and the tree built from the real event
    # stream; the grammar itself is not modelled, so a model/implementation disagreement is a broken
    # tie (reported as such), while a failure of the oracle on the implementation is a failing input.
    "disagreement_is_violation": False,
    "rule": "case = one text (<= 4 KiB; deep-nesting cases are exempt from the size cap): random Unicode, token soups "
            "drawn from the real #[token] table of lexer/tokens.rs, every .st file under /repo (123 files) verbatim, "
            "mutated (14 token/character-level mutations, 1-4 per case), truncated or spliced, generated error-free "
            "programs, structured injection (sweep: 24 valid snippets covering every 'items until END_x' loop of the "
            "grammar; in EVERY run each token boundary of each snippet receives the core closers/separators "
            ") ] ; : , := ( [ THEN DO OF TO BY ELSE ELSIF UNTIL END_IF END_CASE END_VAR END_PROGRAM, end of input, a "
            "rotating slice of the remaining punctuation/END_*/structural keywords and trivia pieces; thorough: the whole "
            "focused list spaced, glued and followed by EOF; plus random (snippet|corpus file, boundary) pairs with the "
            "whole real token table; every injected variant that the CURRENT parser accepts without errors joins the pool "
            "of error-free inputs and gets spaces / newlines / block comments at the boundaries of the two significant "
            "tokens on either side of the injection point), keywords in identifier positions (kwpos, in EVERY run, one "
            "child process per base text: 11 compact texts that contain every identifier position of the grammar - member "
            "behind '.', base of a member access, callee, named-argument name, behind '#', typed-literal prefix and value, "
            "label / JMP target, FOR control variable, CASE labels, variable / field / type / enum-value / POU / method / "
            "action / property / namespace / USING / EXTENDS / IMPLEMENTS names, qualified type names, array bounds, "
            "subrange bounds, SIZEOF / ADR / REF operands, configuration / resource / task / program-configuration / "
            "VAR_ACCESS / VAR_CONFIG names - plus 3 of the 24 sweep snippets rotating with the seed (thorough: all 24); "
            "every identifier-shaped non-keyword token is a hole and receives, one at a time, EVERY identifier-shaped word "
            "of the real #[token] table (164 keywords) as spelled there and, for a rotating quarter, in lower or mixed case "
            "(thorough: all three spellings): about 30 000 candidate texts per run; every candidate is parsed (no panic, "
            "tree text = input, error ranges inside the text; a rotating eighth and every accepted one get the whole "
            "lossless oracle); the pool of error-free inputs is what the CURRENT parser accepts - about 1 900 of the "
            "candidates on the unchanged tree (EN / ENO / TRUE / REF / NEW ... as names, type keywords as types, any word "
            "in a typed-literal prefix) - and every member must keep its trivia-free tree shape and stay error-free when "
            "' ', newline, '(* c *)' or '/* c */' is inserted at each boundary of the hole token and of its two neighbours; "
            "the first accepted candidate of every distinct node structure and of a rotating quarter of the holes gets each "
            "piece between EVERY pair of adjacent significant tokens, the base texts at every token boundary; thorough: 9 "
            "pieces, at every token boundary for the first three accepted candidates of every hole and every new structure, "
            "around the hole for the others), the nesting families (in EVERY run, each text in its own capped child process on a thread "
            "with a 2 MiB stack: (i) 16 expression forms - parentheses, call arguments positional/named/second, index lists, "
            "right-associative **, unary - and NOT, unary after binary, call/index and paren/call alternations, ADR, and the "
            "three flat chains a + a + .., a.b.b.., a^[1](2).. - at exactly MAX_EXPRESSION_DEPTH levels, one more, 76 more, "
            "chains also 10 x (thorough: 2000-4000 levels, chains 100 x); (ii) 43 further forms covering every grammar "
            "function that can reach itself: 14 statement forms (IF, IF-ELSE, ELSIF, CASE, CASE-ELSE, FOR, WHILE, REPEAT, "
            "labels, mixed loops, unclosed, inside METHOD / ACTION / FUNCTION), 12 type forms (ARRAY OF in TYPE and VAR, "
            "bare ARRAY OF, POINTER [TO], REF_TO in variables, return types, struct fields, SIZEOF, and the SIZEOF(type(expr)) / "
            "STRING[expr] / ARRAY[expr] alternations of types and expressions), 3 namespace forms, 5 forms reaching the "
            "expression guard from declarations (initialiser, subrange, case label, enum value, condition) and 9 tree-depth "
            "forms (chains of comparison / sum of products / AND-OR / in a call argument / in a condition / call of call, "
            "and 'staircases' where every parenthesis or unary operator is followed by a chain so that the heights add up), "
            "each at its guard's limit, one level more and 10 x the limit, a rotating third of the non-expression forms at "
            "100 x (thorough: all at 100 x and up to 1000 x / 1 MB), one flat chain of 1 MB, and the 11 witnesses of the "
            "recorded stack-overflow findings; oracle: the child survives parse, second parse and drop, tokens tile, tree "
            "text = input, leaves = tokens, error ranges inside the text, the second parse gives the same dump and errors "
            "(skipped when one parse takes > 1.5 s), and the nesting-limit error of the guard that bounds the form - limits "
            "and messages read from grammar/*.rs, a guard the source does not have counts as 'no limit' - is reported iff "
            "the form needs more levels than the limit, and no other guard fires), and random nesting cases (expressions to "
            "depth 1500, statements/types/namespaces to depth 200, in a "
            "child process). Sweep and nesting cases run in a child process under an address-space cap with a "
            "per-text progress deadline; all other cases under a watchdog with a memory-growth check, so a hang or "
            "run-away allocation is reported with the text that causes it. Per case the real lexer, parser hook and parser run; 4 operations are compared with the "
            "model (lex = post-pass on the raw logos stream; sink = tree from the real tokens+events; errs; parse = the "
            "model parser run on operations reconstructed from the real events/errors must reproduce them). Cases with "
            "more than maxmodeltokens tokens are oracle-only. non-trivial = the lexer post-pass fired, or the event stream contains a forward "
            "parent, or the parser reported an error (recovery path); distinct = by hash of the case's operation lines",
    "trusted_base": [
        "Lean 4.33.0 kernel; axioms per theorem listed under 'theorems'",
        "hand-written model lean/TrustVerif/Model/C12.lean of Lexer::next (post-pass), Source, Parser::{start,bump,"
        "start_node,finish_node,error}, Marker::complete, CompletedMarker::precede, set_forward_parent, Sink::finish, "
        "tied by this run's correspondence (post-pass on the raw logos stream; sink on the real token + event stream; "
        "parser operations reconstructed from the real event/error stream and re-run by the model)",
        "rowan 0.15.19 GreenNodeBuilder modelled from its source (token/start_node/finish_node/finish), not verified; "
        "the tree comparison through rowan's public API (kind, text, preorder) tests that model on every case",
        "logos 0.14.4 is a black box: its raw spans are an input of the model; that they tile the text on character "
        "boundaries and never carry kind Eof is monitored on every case, not proved",
        "Rust harness vharness c12 (generators, observation, FNV-1a dump hash) and the driver's parser for the line "
        "protocol",
    ],
    "assumptions": [
        "texts shorter than 2^32 bytes (TextSize / forward_parent are u32; the casts are not modelled)",
        "the grammar functions (grammar/*.rs) are NOT modelled: that they terminate, never drop a Marker, pair "
        "start_node/finish_node and stop with the cursor at the end is checked per generated input by the premise "
        "monitor and the oracle, not proved",
        "the stack available to the parser is at least 2 MiB (Rust's default for spawned threads; the language "
        "server parses on such threads): the nesting families are decided on exactly that stack in the dev profile",
    ],
}

MANIFEST = {
    "technique": "Lean 4 invariant proofs about a hand-written model of the lexer post-pass, the Marker/Event "
                 "discipline and the tree sink (incl. forward parents and the rowan builder) + differential "
                 "correspondence on the real token/event streams + run-time monitor of the theorem premises + "
                 "oracle (testing) of the property statement on the real parser",
    "level_text": "Proved for every input (no bound): c12_lexer_iterator + c12_lex_tiles / c12_lex_boundaries (Lexer::next "
                  "with its pending queue; the IntLiteral-dot split keeps token ranges contiguous, non-empty, non-overlapping "
                  "and on character boundaries), c12_tokens_concat (token texts of a tiling concatenate to the text), "
                  "c12_lex_trivia_barrier / c12_lex_trivia_insertion / c12_lex_trivia_insertion_kinds (lexer part of the "
                  "trivia-insertion clause: the post-pass keeps no state across a trivia token, the final token list of a text "
                  "with a piece of trivia inserted at a token boundary is the old list with the trivia token inserted and the "
                  "rest moved, and the kinds of the significant tokens - all the grammar looks at - are unchanged), "
                  "c12_sink_lossless_events / c12_sink_tokens_events (for every token list and every event stream meeting "
                  "decidable premises E1-E3 (E4), Sink::finish with rowan's builder neither panics nor loops, the text of the "
                  "tree equals the input and its leaves are exactly the lexer's tokens; forward-parent chains of any shape "
                  "included), c12_parser_events_ok + c12_sink_lossless (every sequence of parser operations that respects "
                  "the Marker discipline runs without panic and produces such a stream), c12_errors_in_bounds. Each run "
                  "executes the model on the real raw logos stream, on the real (tokens, events) of verif_parse_events and on "
                  "parser operations reconstructed from the real stream, compares token list, whole tree, events and error "
                  "ranges with the real lexer/parser/rowan tree, and evaluates every theorem premise (E1-E4, tiling, "
                  "boundaries, no-Eof, discipline, at-end) on the real stream.",
    "level_note": "PARTIAL. Not proved, only tested on generated inputs (oracle on the implementation): that the grammar "
                  "functions terminate without panic, keep the Marker discipline and consume every token; purity (parse "
                  "twice, compare green trees and errors); tree-shape invariance under insertion of spaces/newlines/block "
                  "comments at token boundaries for error-free inputs (random boundaries of every error-free case; exhaustively "
                  "for the sweep snippets and for the kwpos family, whose pool of error-free inputs is whatever the parser under "
                  "test accepts among all texts with a keyword in an identifier position). Trusted: Lean kernel + standard axioms; the "
                  "hand-written model (validated by the differential run only); rowan's builder as modelled; logos as a "
                  "black box whose spans are monitored. Termination without stack overflow is DECIDED per run, not proved: every "
                  "recursive grammar rule (59 forms, see 'rule') is parsed, re-parsed and dropped on a 2 MiB stack at, just beyond "
                  "and 10-100 x (chains: 1 MB of text) beyond the limits MAX_EXPRESSION_DEPTH / MAX_STATEMENT_DEPTH / "
                  "MAX_TYPE_DEPTH / MAX_NAMESPACE_DEPTH read from the source, with the C12 oracle on the outputs; a crash of "
                  "any of them is reported as a violation with the text as replay. That the guards bound the depth of the "
                  "TREE (not only of the recursion) for every input is tested by these families, not proved. Found this way "
                  "and recorded in known_findings.json: C12-expression-tree-depth-overflow, C12-statement-nesting-overflow, "
                  "C12-type-nesting-overflow, C12-namespace-nesting-overflow (their witnesses are replayed in every run and the "
                  "repaired behaviour is required).",
}


def _case_info(c):
    info = {"case": c.n}
    for l in c.lines:
        if l.startswith("# class"):
            info["class"] = l[8:]
        elif l.startswith("src "):
            h = l[4:]
            info["src_hex"] = h if len(h) <= 20000 else h[:20000] + "..."
            try:
                info["src_text"] = bytes.fromhex("" if h == "-" else h).decode("utf-8", "replace")[:4000]
            except ValueError:
                pass
    return info


def _finding_of(cls):
    """The recorded finding a nesting-family case belongs to (by the guard that bounds its form)."""
    if " kind=statement " in cls:
        return "C12-statement-nesting-overflow"
    if " kind=type " in cls:
        return "C12-type-nesting-overflow"
    if " kind=namespace " in cls:
        return "C12-namespace-nesting-overflow"
    if cls.startswith("deep nest ") or cls.startswith("deep guard "):
        return "C12-expression-tree-depth-overflow"
    return None


def _all_findings():
    import json
    import os
    path = vlib.KNOWN
    if not os.path.exists(path):
        return []
    return [f for f in json.load(open(path)).get("findings", []) if f.get("property") == "C12"]


def extra(ctx):
    """Oracle on the implementation: collect the harness's `# oracle FAIL` verdicts.

    A failing nesting-family case belongs to one of the recorded findings.  While that finding is `open`
    and the failure carries its `match` signature it is printed as KNOWN-FINDING; once it is `fixed`
    (or for any other failure) the repaired behaviour is required and the case is a violation.  The
    witnesses of all recorded findings must have been run (and passed) in every complete run."""
    fails, known = [], []
    checked = ok = 0
    classes = {}
    open_findings = {f["id"]: f for f in vlib.known_findings("C12")}
    known_seen = {}
    witnesses_ok = set()
    for c in ctx["cases"]:
        verdicts = [l for l in c.lines if l.startswith("# oracle")]
        if not verdicts:
            fails.append({**_case_info(c), "failed": ["no oracle verdict written for this case"]})
            continue
        checked += 1
        info = _case_info(c)
        cls = info.get("class", "")
        bad = [l[len("# oracle FAIL "):] for l in verdicts if l.startswith("# oracle FAIL")]
        if bad:
            fid = _finding_of(cls)
            if fid is None and all("[lexer-context-literal " in b for b in bad):
                fid = "C12-lexer-context-dependent-literal"
            f = open_findings.get(fid)
            if f is not None and all(f.get("match") and f["match"] in b for b in bad):
                known_seen.setdefault(fid, []).append(cls)
            else:
                d = info
                d.update({"failed": bad, "seed": ctx["seed"], "tier": ctx["tier"],
                          "what": "the property's own statement fails on the real lexer/parser for this text",
                          "reproduce": f"VERIF_SEED={ctx['seed']} vharness c12 --seed {ctx['seed']} --cases <n> --only {c.n} --dump 1"})
                if fid:
                    d["finding"] = fid + (" (recorded as fixed: the repaired behaviour is required; this is a regression "
                                          "or the tree does not contain the fix)" if f is None else " (open, but this failure does not match its signature)")
                fails.append(d)
        else:
            ok += 1
            if cls.startswith("deep nest "):
                w = dict(kv.split("=", 1) for kv in cls.split()[2:] if "=" in kv)
                witnesses_ok.add(f"{w.get('form')}:{w.get('units')}")
        for l in c.lines:
            if l.startswith("# class"):
                k = l.split()[2]
                classes[k] = classes.get(k, 0) + 1
    for fid, seen in known_seen.items():
        known.append(f"{fid}: {open_findings[fid]['what']} [{len(seen)} cases, e.g. {seen[0]}]")
    # crashes first: they are the property's failures, the verdict mismatches only announce them
    fails.sort(key=lambda d: 0 if any("child process died" in b or "no progress within" in b for b in d.get("failed", [])) else 1)
    failures = []
    complete = len(ctx["cases"]) >= 600  # a replay of one case (--only) does not run the families
    if complete:
        kw = [c for c in ctx["cases"] if any(l.startswith("# class kwpos ") for l in c.lines)]
        stats = [l for c in kw for l in c.lines if l.startswith("# kwpos base=")]
        cands = sum(int(kv.split("=")[1]) for l in stats for kv in l.split() if kv.startswith("candidates="))
        acc = sum(int(kv.split("=")[1]) for l in stats for kv in l.split() if kv.startswith("accepted="))
        crashed = [c for c in kw if any("child process died" in l or "no progress within" in l for l in c.lines)]
        if not crashed and (len(kw) < 11 or len(stats) < len(kw) or cands < 20000 or acc < 100):
            failures.append(f"kwpos family incomplete: {len(kw)} base texts, {cands} candidates, {acc} accepted by the parser "
                            "(expected >= 11 base texts, >= 20000 candidates, >= 100 accepted: the pool of error-free inputs "
                            "would be empty and the trivia-insertion clause vacuous)")
    if complete and not fails:
        for f in _all_findings():
            for w in (f.get("witness") or {}).get("replayed_as", []):
                if w not in witnesses_ok and f["id"] not in known_seen:
                    failures.append(f"witness {w} of {f['id']} was not replayed by this run (nesting families incomplete)")
    return {
        "oracle_failures": fails,
        "known": known,
        "failures": failures,
        "coverage": {"oracle_cases_checked": checked, "oracle_cases_ok": ok, "case_classes": classes,
                     "finding_witnesses_replayed_ok": sorted(witnesses_ok & {w for f in _all_findings() for w in (f.get("witness") or {}).get("replayed_as", [])}),
                     "oracle_clauses": ["no panic in lex / parse / event hook", "tokens tile [0,|s|) and their texts "
                                        "concatenate to s", "parse(s).syntax().text() == s", "error ranges inside the text "
                                        "and equal to a significant token's range or 0..0", "second parse gives the same "
                                        "green tree and errors", "the leaves of the tree are the lexer's tokens (kind, range) "
                                        "in order", "events and errors are reproducible by parser operations (Marker discipline)",
                                        "error-free inputs: same shape (trivia-free pre-order dump) "
                                        "and still error-free after inserting spaces/newlines/block comments at token "
                                        "boundaries (an insertion counts when the TEXTS of the significant tokens are "
                                        "untouched; a token that changes its kind because of the inserted trivia is a failure, "
                                        "not a skipped insertion)",
                                        "kwpos: the pool of error-free inputs is taken from what the current parser accepts "
                                        "among all (identifier position, keyword) candidates; every accepted candidate is "
                                        "stable under trivia insertion around the keyword, a representative of every accepted "
                                        "structure between every pair of adjacent tokens", "premises of c12_sink_lossless_events hold on the real stream",
                                        "nesting families: the process survives parse + second parse + drop on a 2 MiB stack, "
                                        "and the nesting-limit error is reported iff the form exceeds the limit read from the source"]},
    }


def replay(obj):
    """Re-run exactly the recorded case (same seed, same case number) and report."""
    import check  # the orchestrator (already on sys.path)
    if "case" not in obj or "seed" not in obj:
        import json
        print(json.dumps(obj, indent=1)[:4000])
        print("this replay names a broken obligation, not an input; re-run the check itself")
        return 1
    mod = sys.modules[__name__]
    r = check.standard_run(mod, obj.get("tier", "quick"), obj["seed"], only=obj["case"])
    for d in r["disagreements"]:
        print(f"case {d['case']} op {d['op_index']}: {d['op']}\n  impl : {d['impl']}\n  model: {d['model']}")
    for d in r["oracle_failures"]:
        print(f"case {d['case']} ({d.get('class', '')}): oracle fails: {d['failed']}")
        if "src_text" in d:
            print("  text:", repr(d["src_text"][:400]))
    bad = bool(r["disagreements"] or r["oracle_failures"] or r["failures"])
    for f in r["failures"]:
        print("failure:", f[:600])
    print("replay:", "still fails" if bad else "passes")
    return 1 if bad else 0
