"""C12 — parsing is total and lossless for every input text."""
import sys

import vlib

SPEC = {
    "id": "C12",
    "sub": "c12",
    "lean_modules": ["TrustVerif.Props.C12"],
    "tiers": {
        "quick": {"cases": 1800, "extra": {"maxbytes": 4096, "maxmodeltokens": 3000, "maxparseevents": 4000}},
        "thorough": {"cases": 30000, "extra": {"maxbytes": 4096, "maxmodeltokens": 7000, "maxparseevents": 20000, "sweepfull": 1}},
    },
    "timeout": 7200,
    # The compared observables are the post-pass token list and the tree built from the real event
    # stream; the grammar itself is not modelled, so a model/implementation disagreement is a broken
    # tie (reported as such), while a failure of the oracle on the implementation is a failing input.
    "disagreement_is_violation": False,
    "rule": "case = one text (<= 4 KiB; deep-nesting cases are exempt from the size cap): random Unicode, token soups "
            "drawn from the real #[token] table of lexer/tokens.rs, every .st file under /repo (123 files) verbatim, "
            "mutated (14 token/character-level mutations, 1-4 per case), truncated or spliced, generated error-free "
            "programs, structured injection (sweep: 24 valid snippets covering every 'items until END_x' loop of the "
            "grammar; in EVERY run each token boundary of each snippet receives the core closers/separators "
            ") ] ; : , := ( [ THEN DO OF TO BY ELSE ELSIF UNTIL END_IF END_CASE END_VAR END_PROGRAM, end of input, a "
            "rotating slice of the remaining punctuation/END_*/structural keywords and trivia pieces; thorough: the whole "
            "focused list spaced, glued and followed by EOF; plus random (snippet|corpus file, boundary) pairs with the "
            "whole real token table), the nesting-guard family (in EVERY run: 13 recursive expression forms - parentheses, "
            "call arguments positional/named/second, index lists, right-associative **, unary - and NOT, unary after "
            "binary, call/index and paren/call alternations, ADR - at exactly MAX_EXPRESSION_DEPTH levels, one level "
            "more and 76 more (thorough: also 1000, 2000, 3000, 4000 levels), plus 3 flat chain forms; parsed in the "
            "capped child on a 2 MiB thread stack; oracle: the parse returns, and the nesting-limit error (limit and "
            "message read from expressions.rs) is reported iff the form needs more levels than the limit), and nesting cases (expressions to depth 1500, statements/types/namespaces to depth 200, in a "
            "child process). Sweep and nesting cases run in a child process under an address-space cap with a "
            "per-text progress deadline; all other cases under a watchdog with a memory-growth check, so a hang or "
            "run-away allocation is reported with the text that causes it. Per case the real lexer, parser hook and parser run; 4 operations are compared with the "
            "model (lex = post-pass on the raw logos stream; sink = tree from the real tokens+events; errs; parse = the "
            "model parser run on operations reconstructed from the real events/errors must reproduce them). Cases with "
            "more than maxmodeltokens tokens are oracle-only. non-trivial = the lexer post-pass fired, or the event stream contains a forward "
            "parent, or the parser reported an error (recovery path); distinct = by hash of the case's operation lines",
    "trusted_base": [
        "Lean 4.33.0 kernel; axioms per theorem listed under 'theorems'",
        "hand-written model lean/TrustVerif/Model/C12.lean of Lexer::next (post-pass), Source, Parser::{start,bump,"
        "start_node,finish_node,error}, Marker::complete, CompletedMarker::precede, set_forward_parent, Sink::finish, "
        "tied by this run's correspondence (post-pass on the raw logos stream; sink on the real token + event stream; "
        "parser operations reconstructed from the real event/error stream and re-run by the model)",
        "rowan 0.15.19 GreenNodeBuilder modelled from its source (token/start_node/finish_node/finish), not verified; "
        "the tree comparison through rowan's public API (kind, text, preorder) tests that model on every case",
        "logos 0.14.4 is a black box: its raw spans are an input of the model; that they tile the text on character "
        "boundaries and never carry kind Eof is monitored on every case, not proved",
        "Rust harness vharness c12 (generators, observation, FNV-1a dump hash) and the driver's parser for the line "
        "protocol",
    ],
    "assumptions": [
        "texts shorter than 2^32 bytes (TextSize / forward_parent are u32; the casts are not modelled)",
        "the grammar functions (grammar/*.rs) are NOT modelled: that they terminate, never drop a Marker, pair "
        "start_node/finish_node and stop with the cursor at the end is checked per generated input by the premise "
        "monitor and the oracle, not proved",
        "nesting beyond the stated depths is outside the claim: statements, types and namespaces recurse without a "
        "guard (expressions are guarded by MAX_EXPRESSION_DEPTH = 1024)",
        "flat operator/postfix chains are exercised up to 4000 chained operations: the green tree of a flat chain is as "
        "deep as the chain is long and rowan's recursive drop overflows a 2 MiB stack from about 6000-9000 operations on "
        "the unchanged code (witness: x := a followed by 3000 x '^[1](2)', 21 KB)",
    ],
}

MANIFEST = {
    "technique": "Lean 4 invariant proofs about a hand-written model of the lexer post-pass, the Marker/Event "
                 "discipline and the tree sink (incl. forward parents and the rowan builder) + differential "
                 "correspondence on the real token/event streams + run-time monitor of the theorem premises + "
                 "oracle (testing) of the property statement on the real parser",
    "level_text": "Proved for every input (no bound): c12_lexer_iterator + c12_lex_tiles / c12_lex_boundaries (Lexer::next "
                  "with its pending queue; the IntLiteral-dot split keeps token ranges contiguous, non-empty, non-overlapping "
                  "and on character boundaries), c12_tokens_concat (token texts of a tiling concatenate to the text), "
                  "c12_sink_lossless_events / c12_sink_tokens_events (for every token list and every event stream meeting "
                  "decidable premises E1-E3 (E4), Sink::finish with rowan's builder neither panics nor loops, the text of the "
                  "tree equals the input and its leaves are exactly the lexer's tokens; forward-parent chains of any shape "
                  "included), c12_parser_events_ok + c12_sink_lossless (every sequence of parser operations that respects "
                  "the Marker discipline runs without panic and produces such a stream), c12_errors_in_bounds. Each run "
                  "executes the model on the real raw logos stream, on the real (tokens, events) of verif_parse_events and on "
                  "parser operations reconstructed from the real stream, compares token list, whole tree, events and error "
                  "ranges with the real lexer/parser/rowan tree, and evaluates every theorem premise (E1-E4, tiling, "
                  "boundaries, no-Eof, discipline, at-end) on the real stream.",
    "level_note": "PARTIAL. Not proved, only tested on generated inputs (oracle on the implementation): that the grammar "
                  "functions terminate without panic, keep the Marker discipline and consume every token; purity (parse "
                  "twice, compare green trees and errors); tree-shape invariance under insertion of spaces/newlines/block "
                  "comments at token boundaries for error-free inputs. Trusted: Lean kernel + standard axioms; the "
                  "hand-written model (validated by the differential run only); rowan's builder as modelled; logos as a "
                  "black box whose spans are monitored. Nesting is exercised up to expressions 1500 / statements 200 deep; "
                  "deeper statement/type nesting has no guard in the parser and is outside the claim.",
}


def _case_info(c):
    info = {"case": c.n}
    for l in c.lines:
        if l.startswith("# class"):
            info["class"] = l[8:]
        elif l.startswith("src "):
            h = l[4:]
            info["src_hex"] = h if len(h) <= 20000 else h[:20000] + "..."
            try:
                info["src_text"] = bytes.fromhex("" if h == "-" else h).decode("utf-8", "replace")[:4000]
            except ValueError:
                pass
    return info


def extra(ctx):
    """Oracle on the implementation: collect the harness's `# oracle FAIL` verdicts."""
    fails, known = [], []
    checked = ok = 0
    classes = {}
    for c in ctx["cases"]:
        verdicts = [l for l in c.lines if l.startswith("# oracle")]
        if not verdicts:
            fails.append({**_case_info(c), "failed": ["no oracle verdict written for this case"]})
            continue
        checked += 1
        bad = [l[len("# oracle FAIL "):] for l in verdicts if l.startswith("# oracle FAIL")]
        if bad:
            d = _case_info(c)
            d.update({"failed": bad, "seed": ctx["seed"], "tier": ctx["tier"],
                      "what": "the property's own statement fails on the real lexer/parser for this text",
                      "reproduce": f"VERIF_SEED={ctx['seed']} vharness c12 --seed {ctx['seed']} --cases <n> --only {c.n} --dump 1"})
            fails.append(d)
        else:
            ok += 1
        for l in c.lines:
            if l.startswith("# class"):
                k = l.split()[2]
                classes[k] = classes.get(k, 0) + 1
    return {
        "oracle_failures": fails,
        "known": known,
        "coverage": {"oracle_cases_checked": checked, "oracle_cases_ok": ok, "case_classes": classes,
                     "oracle_clauses": ["no panic in lex / parse / event hook", "tokens tile [0,|s|) and their texts "
                                        "concatenate to s", "parse(s).syntax().text() == s", "error ranges inside the text "
                                        "and equal to a significant token's range or 0..0", "second parse gives the same "
                                        "green tree and errors", "the leaves of the tree are the lexer's tokens (kind, range) "
                                        "in order", "events and errors are reproducible by parser operations (Marker discipline)",
                                        "error-free inputs: same shape (trivia-free pre-order dump) "
                                        "and still error-free after inserting spaces/newlines/block comments at token "
                                        "boundaries", "premises of c12_sink_lossless_events hold on the real stream"]},
    }


def replay(obj):
    """Re-run exactly the recorded case (same seed, same case number) and report."""
    import check  # the orchestrator (already on sys.path)
    if "case" not in obj or "seed" not in obj:
        import json
        print(json.dumps(obj, indent=1)[:4000])
        print("this replay names a broken obligation, not an input; re-run the check itself")
        return 1
    mod = sys.modules[__name__]
    r = check.standard_run(mod, obj.get("tier", "quick"), obj["seed"], only=obj["case"])
    for d in r["disagreements"]:
        print(f"case {d['case']} op {d['op_index']}: {d['op']}\n  impl : {d['impl']}\n  model: {d['model']}")
    for d in r["oracle_failures"]:
        print(f"case {d['case']} ({d.get('class', '')}): oracle fails: {d['failed']}")
        if "src_text" in d:
            print("  text:", repr(d["src_text"][:400]))
    bad = bool(r["disagreements"] or r["oracle_failures"] or r["failures"])
    for f in r["failures"]:
        print("failure:", f[:600])
    print("replay:", "still fails" if bad else "passes")
    return 1 if bad else 0
