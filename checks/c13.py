"""C13 — incremental analysis equals from-scratch analysis after any edit history."""
import os
import random
import re
import subprocess
import sys

import vlib

SPEC = {
    "id": "C13",
    "sub": "c13",
    "lean_modules": ["TrustVerif.Props.C13"],
    "tiers": {
        "quick": {"cases": 180, "extra": {"steps": 25, "lsp": 40, "jobs": 4}},
        "thorough": {"cases": 3000, "extra": {"steps": 35, "lsp": 600, "jobs": 4}},
    },
    "search_factor": 4,
    # The compared `impl`/`m` lines are the three file-set views of the Database (verif_views hook), i.e.
    # internal bookkeeping, not the property's observables: a disagreement breaks the tie between the
    # proved model and the code but is not by itself a failing input.  Failing inputs come from the
    # oracle on the implementation (`#o` / `#p` lines, see extra()).
    "disagreement_is_violation": False,
    "rule": "case = generated history of 25 (quick) / 35 (thorough) operations set(f,text) / rm(f) / burst of 1-3 "
            "queries (analyze, diagnostics, file_symbols, type_of, expr_id_at_offset) over 1-5 files of a small "
            "cross-referencing project (functions+callers, TYPE/FB/PROGRAM, VAR_GLOBAL/VAR_EXTERNAL with tasks, "
            "namespaces+USING, interfaces/EXTENDS, duplicate global names, INHERITANCE ACROSS FILES (bases, derived "
            "FB/CLASS, interfaces, users and second-level heirs in five files; the variants of the derived file and "
            "of the interface file differ only in the name after EXTENDS / IMPLEMENTS, same length; users read members "
            "that exist in one base only), RECURSIVE DATA TYPES ACROSS FILES (a structure/union reaching itself through "
            "REF_TO / POINTER TO / ARRAY OF / an alias, two structures pointing at each other in one file and split over "
            "two files, function blocks referring to themselves and to each other, users in other files), "
            "CONSTANT EXPRESSIONS with boundary "
            "arithmetic (operands 0, +-1, +-2, 63, 64, MIN/MAX of i8..i64 built from literals or named constants; "
            "operators + - * / MOD ** unary +-; in VAR CONSTANT initialisers, array bounds, subrange bounds, enum "
            "values, STRING lengths, CASE labels, array indices, subrange assignments, typed literals, across files), "
            "the filling_line/plant_demo examples, token soup), texts drawn from per-role variants, generic mutations (truncate, drop/duplicate a line, "
            "INT->DINT, stray token), EDITS THAT MOVE NOTHING (a name replaced by another name of the same length taken "
            "from the texts of the case or an elementary type, one occurrence or all; a variant of the same shape, i.e. "
            "equal line lengths: no range, id, scope or type changes, only what is stored by name), foreign roles, "
            "identical re-sets, empty text; file ids in random relative "
            "order incl. u32::MAX; the Database/Project cases run in a WORKER PROCESS that announces every operation "
            "before running it: an operation that kills the process (stack overflow, failed allocation) or hangs it "
            "(180 s) is recorded by the supervising process as a failed judgement of that operation and the run goes on "
            "with the next case; 2 of 5 histories are built from MOTIFS (add or re-add a file then, before any "
            "project-level query, edit or remove another file; remove and re-add the lowest-id file; a project-level "
            "sweep of diagnostics/analyze/type_of after the operations, also on the still empty project; a name-only edit "
            "of a file between two project-level sweeps); every history "
            "ends with a sweep of all kinds over all files and an unknown file "
            "in random order. Every 5th case is a Project-layer history (keys instead of ids; also the three project "
            "calls of rename_document, incl. old = new). After them 40 (quick) / 600 (thorough) LSP SESSIONS with the real "
            "trust-lsp binary over stdio on a 2-6 file workspace without duplicate global names: didOpen / didChange / "
            "didSave+didClose, willRenameFiles + didRenameFiles (ordinary, and aliasing renames between spellings of one "
            "file: %2E, a symlinked directory, both; open and closed documents), didCreateFiles / didDeleteFiles + "
            "didChangeWatchedFiles, external edits; judged at the end and once in the middle against a FRESH server on "
            "the same directory that got one didOpen per open buffer (pull diagnostics, documentSymbol, 8 hovers per "
            "file); 1 session in 4 runs UNDER A MEMORY BUDGET (trust-lsp.toml [indexing] memory_budget_mb = 1|2, "
            "evict_to_percent 1..100; the library and 1-4 other files padded with a 300-900 kB comment so that closed "
            "documents are evicted, least recently used first): there the analysis is judged against a fresh server "
            "WITHOUT the budget on exactly the files the document layer holds (hook request per file; evicted files are "
            "moved out of the directory while the fresh server lives), so an evicted or deleted file must contribute "
            "nothing; the first three sessions are fixed (aliasing-rename regression case, witness of "
            "C13-lsp-symlink-stale-key, budget regression case: library evicted, then deleted). non-trivial = a query "
            "was answered before a later edit AND a file was removed at some point AND a file remains at the end (db stream), or a key "
            "was removed and re-added (proj stream); distinct = by hash of the case's operation lines",
    "trusted_base": [
        "Lean 4.33.0 kernel; axioms per theorem listed under 'theorems'",
        "salsa: a tracked query returns the function of the current values of the inputs it is keyed on "
        "(DESIGN section 4). The model therefore returns what a query READS (Reads: the resolved ProjectInputs.files "
        "list / the text behind the file's SourceInput / default), not an answer; the real answer is taken to be a "
        "fixed function of that value. This assumption is what the fresh-database oracle tests on every query.",
        "hand-written model lean/TrustVerif/Model/C13.lean of Database::{set_source_text, remove_source_text, "
        "with_synced_salsa_state, prepare_salsa_project, source_input_for_file, source_handle_for_file, the five "
        "query entry points}, sync_project_inputs, project_inputs().expect, SourceRegistry::{ensure_file_id, remove}, "
        "Project::{set_source_text, remove_source}; tied by this run's comparison of the verif_views() hook after "
        "every operation",
        "hand-written model DocLayer of crates/trust-lsp/src/state/documents.rs {open_document, index_document_impl, "
        "update_document, close_document, remove_document, victim loop of enforce_memory_budget} over one URI "
        "spelling per file and a client that sends didChange only for open documents; NOT tied by a hook comparison "
        "(the server exposes the documents map through trust-lsp/verifDocumentText but not the project's sources): "
        "its statement is what the fresh-server oracle tests on the sessions under a memory budget",
        "FxHashMap modelled as an association list (lawful finite map); its unspecified iteration order is "
        "irrelevant because every order-sensitive use in the code sorts by file id and the one unsorted loop "
        "(prepare_salsa_project) is proved to be a no-op on every reachable state",
        "Rust harness vharness c13: generator, canonical dump of answers (incl. the EXTENDS / IMPLEMENTS names of "
        "every symbol), PartialEq of the real answer types AND equality of the dumps (a broken Eq of an answer type "
        "cannot blind the oracle), catch_unwind, supervising process for aborts and hangs; the final texts of a "
        "history are tracked by the harness, not read back from the database",
        "trust-lsp binary built from the same tree with the hook feature; stdio JSON-RPC client copied from harness/src/c14.rs; "
        "the hook request trust-lsp/verifDocumentText is used only as a barrier after notifications",
        "the fresh database of the oracle lives in the harness process: state outside the Database object would be "
        "shared with it. Guarded by (a) a fail-closed scan that trust-hir/trust-syntax contain no static with interior "
        "mutability / thread_local!, (b) a sample of answers (60 quick / 500 thorough) recomputed by `vharness c13 "
        "--freshq` in a NEW process each and compared by hash",
    ],
    "assumptions": [
        "operations on one Database are sequential (set/remove take &mut self; concurrent readers are not modelled)",
        "Project layer: fewer than 2^32 key registrations (next_id is a saturating u32)",
    ],
}

MANIFEST = {
    "technique": "Lean 4 invariant proof over all edit/query histories of the Database bookkeeping model "
                 "(three file-set views + revision counters) + differential correspondence of the verif_views hook "
                 "+ fresh-database differential oracle on the real analysis for every generated query",
    "level_text": "Proved for every history of set/remove/query operations, of any length, over any files and texts "
                  "(induction over the history, invariant Inv): c13_view (Database.sources, SalsaState.sources and "
                  "ProjectInputs.files all equal the id-sorted listing of the final texts; ProjectInputs exists "
                  "whenever a project-keyed query reads it), c13_query_spec (every query reads exactly that listing, "
                  "resp. the final text of its file, resp. nothing for an unknown file), c13_fresh / c13_fresh_load / "
                  "c13_answers (two histories with the same final texts, in particular a fresh load in any order, give "
                  "the same answers for every semantics of the queries), c13_no_panic (the expect in project_inputs and "
                  "dangling SourceInputs are unreachable), c13_repeat (a repeated query changes nothing and returns the "
                  "same result, in every state), c13_queries_transparent (deleting a query from a history changes no "
                  "later answer), c13_lazy_sync_only_when_empty; for the LSP document layer's own bookkeeping (documents "
                  "map next to the project sources, incl. evictions under [indexing] memory_budget_mb with ANY choice of "
                  "closed victims): c13_doclayer_in_step (the project holds a text for a key exactly when a document is "
                  "held, and it is the document's content), c13_doclayer_deleted_is_gone (after the delete event the file "
                  "is out of the analysis, whatever was evicted before), c13_doclayer_evict_keeps_open. "
                  "Each run executes the model and the real Database on "
                  "the same generated histories and compares the hook views after every operation, and judges every "
                  "real answer (diagnostics, analysis, symbol table, expression type, expression id) against a "
                  "brand-new Database loaded with the final texts (in random order), against a repeated query, and for "
                  "panics; a sample of the answers is recomputed in a new process per query.",
    "level_note": "PARTIAL: the queries themselves (parser, symbol collection, cross-file import, type checker) and "
                  "salsa's memoisation are NOT modelled: answers are an uninterpreted function of what the model says "
                  "a query reads. That 'answers equal fresh answers', 'no query panics for any file contents' and "
                  "'repeat returns the same answer' hold for the real analysis is TESTED (differential oracle, "
                  "generator-bounded), not proved; only the bookkeeping layer (which inputs salsa sees) is proved. "
                  "Trusted: Lean kernel + propext/Quot.sound/Classical.choice, salsa soundness, the hand-written model "
                  "(tied by the hook comparison), the harness. Layer: the claim is made where the property observes, at "
                  "trust_hir::Database (files = caller-supplied FileIds). One level up, trust_hir::Project gives a "
                  "re-added key a NEW FileId (proved: c13_project_readd_moves_last, c13_project_order_counterexample), "
                  "so with duplicate global names across files the answers after remove+re-add differ from a freshly "
                  "loaded Project; recorded as known finding C13-project-readd-id-order and replayed on every run. "
                  "'No query panics for any file contents' was false in the dev profile: an enum value of i64::MAX "
                  "overflowed `next_value = value + 1` in collect_enum_type and every project-level query panicked "
                  "(C13-enum-next-value-overflow, found by the constant-expression stream, fixed in /repo by 0bd32a4; the "
                  "witness is replayed on every run as a regression case, Lean: c13_enum_values_no_overflow); any panic "
                  "is a violation. "
                  "Third layer (crates/trust-lsp/src/state/documents.rs, an anchor file): TESTED only, by the fresh-server "
                  "oracle over stdio; its rename is modelled at the Project layer (projRename = remove old, remove new, set "
                  "new, on canonical keys) and proved: c13_project_view_rename (view theorem over set/remove/query/rename), "
                  "c13_alias_rename_keeps_text; the documents map with is_open and the budget evictions is modelled separately "
                  "(DocLayer, one URI spelling per file: proved in step with the project sources, not tied by a hook). "
                  "Not modelled there: ensure_document, the index "
                  "cache, URI canonicalisation - where the open known finding C13-lsp-symlink-stale-key lives (a file known "
                  "through a symbolic link keeps its symbols in the project after it is deleted or renamed away: the key is "
                  "recomputed from a path that can no longer be canonicalised); generated histories rename such a file back "
                  "to its canonical URI first, the witness is replayed on every run. Closing a dirty buffer and deleting an "
                  "open file are not generated (C14 covers the document text); every disk change is reported by the watcher. "
                  "Memory budget (enforce_memory_budget): the statement proved for DocLayer and TESTED on the server is 'the analysis is that of a "
                  "brand-new server on exactly the documents the layer holds', i.e. documents map and project sources stay "
                  "in step through evictions, reloads and deletions (which files are evicted is LRU policy and not judged). "
                  "Round-3 additions at the Database layer (all TESTED by the fresh-database oracle, not modelled): salsa's "
                  "backdating of re-computed symbol tables after edits that move no range (same-length name swaps, EXTENDS / "
                  "IMPLEMENTS targets across files), termination of the cross-file type import on recursive and mutually "
                  "recursive types (a process abort is observed by the supervising process and is a violation of 'no query "
                  "panics'). "
                  "Proved for the Project layer: c13_project_view (texts by key are right), c13_project_db_fresh "
                  "(answers equal a fresh Database given the same ids).",
}

LSP_TARGET = os.path.join(vlib.BUILD, "lsp")
LSP_BIN = os.path.join(LSP_TARGET, "debug", "trust-lsp")


def build_lsp():
    """Build step of the third layer (fail closed), as in checks/c14.py: the `trust-lsp` binary is rebuilt
    from the tree the harness is built against (vlib.repo_root()), with the hook, into <checkout>/.build/lsp."""
    manifest = os.environ.get("VERIF_REPO_MANIFEST") or os.path.join(vlib.repo_root(), "Cargo.toml")
    cmd = ["cargo", "build", "--offline", "--quiet", "--manifest-path", manifest, "-p", "trust-lsp",
           "--features", "verif-hooks", "--target-dir", LSP_TARGET]
    rc, log = vlib.sh(cmd, timeout=3600)
    if rc != 0 or not os.path.exists(LSP_BIN):
        raise RuntimeError("trust-lsp does not build: " + log[-1200:])


SPEC["translators"] = [build_lsp]

KNOWN_SIG = "project-readd-id-order"
KNOWN_LSP_TAG = "known-symlink-stale-key"
KNOWN_LSP_SIG = "lsp-symlink-stale-key"
# known panics: (signature in known_findings.json, substrings that must all occur in the panic message)
KNOWN_PANICS = [
    # ("panic:collector/types.rs:attempt to add with overflow", ("collector/types.rs", "attempt to add with overflow")),
    #   C13-enum-next-value-overflow: fixed by 0bd32a4; its witness is now a regression case, a panic is a violation
]


def _known_panic(message):
    """Signature of the listed known finding this panic message belongs to, or None."""
    for sig, needles in KNOWN_PANICS:
        if all(n in message for n in needles):
            if any(k.get("match") == sig for k in vlib.known_findings("C13")):
                return sig
    return None


def _fields(line):
    d = {}
    for w in line.split():
        if "=" in w:
            k, v = w.split("=", 1)
            d[k] = v
    return d


def _decode(hexs, limit=1500):
    if hexs == "-":
        return ""
    try:
        return bytes.fromhex(hexs).decode("utf-8", "replace")[:limit]
    except ValueError:
        return hexs[:limit]


def _details(lines):
    """Decode the `#x <name> <hex>` lines that follow a failing oracle line; for a pair of answer dumps
    keep only the lines in which they differ."""
    raw = {}
    for x in lines:
        if not x.startswith("#x "):
            break
        w = x.split()
        raw[w[1]] = _decode(w[2] if len(w) > 2 else "", 10 ** 7)
    out = {}
    if "panic" in raw:
        out["panic"] = raw["panic"][:600]
    others = [k for k in raw if k not in ("inc", "panic")]
    if "inc" in raw and others:
        a = raw["inc"].split("\n")
        for k in others:
            b = raw[k].split("\n")
            sa, sb = set(a), set(b)
            out[f"only_incremental(vs {k})"] = [x[:300] for x in a if x not in sb][:12]
            out[f"only_{k}"] = [x[:300] for x in b if x not in sa][:12]
            if not out[f"only_incremental(vs {k})"] and not out[f"only_{k}"]:
                out[f"order_differs({k})"] = True
    return out


def _lsp_history(c, upto):
    out = []
    for l in c.lines[: upto + 1]:
        if l.startswith("#l "):
            w = l.split()
            if w[1] in ("disk", "change", "create", "extedit") and len(w) > 3:
                pad = f" + {w[4][4:]} bytes of padding comment" if len(w) > 4 and w[4].startswith("pad=") else ""
                out.append(f"{w[1]} {w[2]} {_decode(w[3], 300)!r}{pad}")
            elif w[1] == "config" and len(w) > 2:
                out.append(f"trust-lsp.toml {_decode(w[2], 300)!r}")
            else:
                out.append(l[3:])
    return out


def _lsp_details(lines):
    import json
    raw = {}
    for x in lines:
        if x.startswith("#X "):
            w = x.split()
            raw[w[1]] = _decode(w[2] if len(w) > 2 else "", 10 ** 6)
    out = {}
    for k, v in raw.items():
        try:
            j = json.loads(v)
            if isinstance(j, dict) and "items" in j:
                out[k] = [f"{i.get('code')} {i.get('range', {}).get('start')} {i.get('message')}" for i in j["items"]][:20]
                continue
        except ValueError:
            pass
        out[k] = v[:1500]
    return out


def _history(c, upto):
    """The operation lines of case `c` up to line index `upto` (texts decoded, impl lines dropped)."""
    out = []
    for l in c.lines[: upto + 1]:
        if l.startswith("text "):
            w = l.split()
            out.append(f"text {w[1]} {_decode(w[2], 400)!r}" if w[2] != "-" else f"text {w[1]} ''")
        elif not l.startswith(("impl", "#", "tag")):
            out.append(l)
    return out


_STATEFUL_STATIC = re.compile(
    r"^\s*(pub(\([^)]*\))?\s+)?static\s+(mut\s+)?\w+\s*:[^=;]*"
    r"\b(Mutex|RwLock|Atomic\w*|OnceLock|OnceCell|LazyLock|LazyCell|Lazy|RefCell|Cell)\b"
    r"|^\s*(pub(\([^)]*\))?\s+)?static\s+mut\b|\bthread_local!\s*[({]|\blazy_static!\s*[({]")


def _crates_root():
    text = open(os.path.join(vlib.HARNESS, "Cargo.toml"), encoding="utf-8").read()
    m = re.search(r'^trust-hir\s*=\s*\{\s*path\s*=\s*"([^"]+)"', text, re.M)
    if not m:
        raise RuntimeError("harness/Cargo.toml does not name the trust-hir path")
    return os.path.dirname(m.group(1).rstrip("/"))


def purity_scan():
    """The fresh-database oracle runs in the same process as the database under test, so it shares any
    process-global mutable state of the analysis crates.  Today there is none (no `static` with interior
    mutability, no `thread_local!`); this scan keeps that assumption checked (fail closed)."""
    root = _crates_root()
    hits = []
    for crate in ("trust-hir", "trust-syntax"):
        src = os.path.join(root, crate, "src")
        if not os.path.isdir(src):
            raise RuntimeError(f"{src} not found")
        for dirpath, _, files in os.walk(src):
            for fn in sorted(files):
                if not fn.endswith(".rs"):
                    continue
                path = os.path.join(dirpath, fn)
                for ln, line in enumerate(open(path, encoding="utf-8", errors="replace"), 1):
                    if line.lstrip().startswith("//"):
                        continue
                    if _STATEFUL_STATIC.search(line):
                        hits.append(f"{os.path.relpath(path, root)}:{ln}: {line.strip()[:120]}")
    return hits


def cross_process_sample(ctx, k):
    """Sampled answers of the long-running harness process (hash `h=` of the canonical dump) against a
    NEW process that loads the final texts into a new Database and asks the same query."""
    total = 0
    for c in ctx["cases"]:
        if c.lines and c.lines[0] == "stream db":
            total += sum(1 for l in c.lines if l.startswith("#o ") and " panic=0 " in l)
    if total == 0:
        return 0, []
    rnd = random.Random(ctx["seed"])
    chosen = set(rnd.sample(range(total), min(k, total)))
    fails, idx, asked = [], 0, 0
    for c in ctx["cases"]:
        if not c.lines or c.lines[0] != "stream db":
            continue
        texts, finals = {}, {}
        for i, l in enumerate(c.lines):
            w = l.split()
            if not w:
                continue
            if w[0] == "text":
                texts[w[1]] = w[2]
            elif w[0] == "set":
                finals[w[1]] = w[2]
            elif w[0] == "rm":
                finals.pop(w[1], None)
            elif w[0] == "#o" and " panic=0 " in l:
                if idx in chosen:
                    req = os.path.join(vlib.WORK, "C13.freshq.txt")
                    with open(req, "w") as f:
                        f.write(f"{w[1]} {w[2]} {w[3]}\n")
                        for fid in sorted(finals, key=int):
                            f.write(f"{fid} {texts[finals[fid]]}\n")
                    p = subprocess.run([vlib.VHARNESS, "c13", "--freshq", req], stdout=subprocess.PIPE,
                                       stderr=subprocess.PIPE, text=True, timeout=120)
                    asked += 1
                    got = p.stdout.strip()
                    want = "h=" + _fields(l).get("h", "?")
                    if p.returncode != 0 or got != want:
                        fails.append({"case": c.n, "seed": ctx["seed"], "tier": ctx["tier"],
                                      "layer": "Database (new process)",
                                      "what": "answer of the long-running process differs from that of a new process "
                                              "with a new database loaded with the final texts",
                                      "query": l[3:], "history": _history(c, i),
                                      "answers": {"long_running_process": want, "new_process": got or p.stderr[-300:]}})
                idx += 1
    return asked, fails


def extra(ctx):
    fails, known_hits, n_o, n_p = [], [], 0, 0
    failures = []
    known_panics = {}
    n_l, lsp_known, lsp_failed_cases = 0, 0, set()
    proj = {"queries": 0, "with_permuted_ids": 0, "differs_from_fresh_same_ids": 0,
            "differs_from_fresh_key_order": 0}
    witness_reproduced = False
    for c in ctx["cases"]:
        for i, l in enumerate(c.lines):
            if l.startswith("#o "):
                n_o += 1
                f = _fields(l)
                if f.get("fresh") == "1" and f.get("repeat") == "1" and f.get("panic") == "0":
                    continue
                detail = _details(c.lines[i + 1: i + 4])
                if f.get("panic") != "0":
                    sig = _known_panic(detail.get("panic", ""))
                    if sig:
                        known_panics.setdefault(sig, [0, False])
                        known_panics[sig][0] += 1
                        if "witness" in c.tags:
                            known_panics[sig][1] = True
                        continue
                which = ("the operation killed the analysis process (abort / stack overflow / hang)"
                         if f.get("panic") != "0" and detail.get("panic", "").startswith("process died") else
                         "panic" if f.get("panic") != "0" else
                         "answer differs from a fresh database" if f.get("fresh") != "1" else
                         "repeated query returned a different answer")
                fails.append({"case": c.n, "seed": ctx["seed"], "tier": ctx["tier"], "layer": "Database",
                              "what": which, "query": l[3:], "history": _history(c, i), "answers": detail})
            elif l.startswith("#L "):
                n_l += 1
                if not l.rstrip().endswith(" FAIL") and " FAIL " not in l:
                    continue
                if KNOWN_LSP_TAG in c.tags and any(k.get("match") == KNOWN_LSP_SIG for k in vlib.known_findings("C13")):
                    lsp_known += 1
                    continue
                if c.n in lsp_failed_cases:
                    continue
                lsp_failed_cases.add(c.n)
                w = l.split()
                what = ("the server does not hold an open buffer" if "held" in w else
                        "the server stayed silent twice (transport)" if "transport" in w else
                        f"{w[4] if len(w) > 4 else '?'} request for {w[2] if len(w) > 2 else '?'} got no answer within the "
                        "timeout (a handler that panicked leaves the server silent)" if "no-answer" in w else
                        f"{w[4] if len(w) > 4 else '?'} of {w[2] if len(w) > 2 else '?'} differs from a FRESH server "
                        "started on the same on-disk + open state"
                        + (" (session under a memory budget: fresh server without the budget on exactly the files the "
                           "document layer holds)" if any(x.startswith("#l config ") for x in c.lines) else ""))
                fails.append({"case": c.n, "seed": ctx["seed"], "tier": ctx["tier"], "layer": "LSP documents",
                              "what": what, "query": l[3:], "history": _lsp_history(c, i),
                              "answers": _lsp_details(c.lines[i + 1: i + 3])})
            elif l.startswith("#p "):
                n_p += 1
                f = _fields(l)
                proj["queries"] += 1
                if f.get("order_differs") == "1":
                    proj["with_permuted_ids"] += 1
                bad_same = f.get("same_order") != "1" or f.get("repeat") != "1" or f.get("panic") != "0"
                bad_key = f.get("key_order") != "1"
                if bad_same:
                    detail = _details(c.lines[i + 1: i + 6])
                    if f.get("panic") != "0":
                        sig = _known_panic(detail.get("panic", ""))
                        if sig:
                            known_panics.setdefault(sig, [0, False])
                            known_panics[sig][0] += 1
                            continue
                    proj["differs_from_fresh_same_ids"] += 1
                    fails.append({"case": c.n, "seed": ctx["seed"], "tier": ctx["tier"], "layer": "Project",
                                  "what": ("the operation killed the analysis process (abort / stack overflow / hang)"
                                           if detail.get("panic", "").startswith("process died") else
                                           "panic / repeat / answer differs from a fresh project with the same id order"),
                                  "query": l[3:], "history": _history(c, i), "answers": detail})
                elif bad_key:
                    proj["differs_from_fresh_key_order"] += 1
                    if f.get("order_differs") == "1":
                        known_hits.append((c, i, l))
                        if "witness" in c.tags:
                            witness_reproduced = True
                    else:  # same load order, different answer: not the recorded finding
                        fails.append({"case": c.n, "seed": ctx["seed"], "tier": ctx["tier"], "layer": "Project",
                                      "what": "two fresh projects loaded in the same order disagree",
                                      "query": l[3:], "history": _history(c, i)})
    known = []
    if known_hits:
        listed = [k for k in vlib.known_findings("C13") if k.get("match") == KNOWN_SIG]
        if listed:
            known.append(f"{listed[0]['id']}: {listed[0]['what']} "
                         f"[{len(known_hits)} queries in this run; recorded witness "
                         f"{'reproduces' if witness_reproduced else 'did NOT reproduce'}]")
        else:
            for c, i, l in known_hits[:3]:
                fails.append({"case": c.n, "seed": ctx["seed"], "tier": ctx["tier"], "layer": "Project",
                              "what": "answers after remove+re-add differ from a fresh project loaded in key order "
                                      "(not listed in known_findings.json)",
                              "query": l[3:], "history": _history(c, i), "answers": _details(c.lines[i + 1: i + 6])})
    for sig, (count, on_witness) in sorted(known_panics.items()):
        entry = [k for k in vlib.known_findings("C13") if k.get("match") == sig][0]
        known.append(f"{entry['id']}: {entry['what']} [{count} queries in this run; recorded witness "
                     f"{'reproduces' if on_witness else 'did NOT reproduce'}]")
    if lsp_known:
        entry = [k for k in vlib.known_findings("C13") if k.get("match") == KNOWN_LSP_SIG][0]
        known.append(f"{entry['id']}: {entry['what']} [recorded witness reproduces: {lsp_known} answers differ]")
    # the in-process oracle's blind spot: state outside the Database object
    try:
        hits = purity_scan()
        if hits:
            failures.append("assumption of the in-process fresh-database oracle broken: process-global mutable state in "
                            "the analysis crates (a fresh Database in the same process would share it): " + "; ".join(hits[:5]))
    except Exception as e:  # fail closed
        hits = None
        failures.append(f"purity scan could not run: {e}")
    asked, xfails = cross_process_sample(ctx, 60 if ctx["tier"] == "quick" else 500)
    fails += xfails
    cov = {"oracle_queries_database_layer": n_o, "oracle_queries_project_layer": n_p, "project_layer": proj,
           "project_witness_reproduced": witness_reproduced,
           "known_panics": {k: v[0] for k, v in known_panics.items()},
           "oracle_judgements_lsp_layer": n_l, "lsp_cases_with_failed_judgement": len(lsp_failed_cases),
           "oracle_queries_rechecked_in_a_new_process": asked,
           "stateful_statics_in_trust_hir_and_trust_syntax": hits}
    return {"coverage": cov, "oracle_failures": fails, "known": known, "failures": failures}


def run(tier, seed):
    """The standard pipeline, plus: when the tie between the proved model and the code breaks (hook views
    disagree) without the oracle having produced a failing input, a follow-up search biased to the shapes
    in which stale bookkeeping shows (`--focus 1`: duplicate global names across files with a user file,
    out-of-order ids, add->edit->query, add->remove->query, remove->re-add, project-level sweeps between
    the operations), 2 rounds of 2x the budget, same seed family.  The first oracle failure found is promoted to the
    failing input.  When failing inputs exist the (then redundant) view disagreements are attached to
    them instead of being listed as separate `no-failing-input-found` entries."""
    import check
    mod = sys.modules[__name__]
    r = check.standard_run(mod, tier, seed)
    ok_proofs = r.get("proof") is not None and r["cases"]
    if ok_proofs and r["disagreements"] and not r["oracle_failures"]:
        extra_cfg = SPEC["tiers"][tier]["extra"]
        extra_cfg["focus"] = 1
        try:
            for k in range(1, 3):
                r2 = check.standard_run(mod, tier, seed + 7919 * k, search_factor=2)
                r["cases"] += r2["cases"]
                r["wall"] += r2["wall"]
                r["extra"]["focused_search_cases"] = r["extra"].get("focused_search_cases", 0) + r2["cases"]
                if r2["oracle_failures"]:
                    for d in r2["oracle_failures"]:
                        d["extra"] = {"focus": 1}
                        d["found_by"] = "focused follow-up search after the model/implementation views disagreed"
                    r["oracle_failures"] = r2["oracle_failures"]
                    break
        finally:
            extra_cfg.pop("focus", None)
    elif (not r["disagreements"] and not r["oracle_failures"] and r["failures"] and r["cases"]):
        # a proof obligation or an assumption is broken: search harder for a concrete failing input
        r2 = check.standard_run(mod, tier, seed + 1, search_factor=SPEC.get("search_factor", 4))
        r["disagreements"] = r2["disagreements"]
        r["oracle_failures"] = r2["oracle_failures"]
        r["cases"] += r2["cases"]
        r["wall"] += r2["wall"]
    if r["oracle_failures"] and r["disagreements"]:
        first = r["disagreements"][0]
        note = {"count": len(r["disagreements"]),
                "first": {k: first.get(k) for k in ("case", "seed", "op_index", "op", "impl", "model")}}
        for d in r["oracle_failures"]:
            d["model_vs_implementation_view_disagreements"] = note
        r["extra"]["correspondence_disagreements_attached_to_failing_inputs"] = len(r["disagreements"])
        r["disagreements"] = []
    code = check.decide(mod, r, tier, seed)
    print(f"C13 {tier} seed={seed}: proofs {r['proof']['discharged']}/{r['proof']['obligations']} "
          f"cases={r['cases']} nontrivial={r['distinct_nontrivial']} "
          f"oracle_failures={len(r['oracle_failures'])} disagreements={len(r['disagreements'])} "
          f"failures={len(r['failures'])} wall={r['wall']:.1f}s -> exit {code}", flush=True)
    return code


def replay(obj):
    """./check.py C13 --replay replays/C13-….json : re-runs exactly that case (same seed, tier, case number)."""
    import check
    if "case" not in obj:
        import json
        print(json.dumps(obj, indent=1))
        print("this replay names a broken obligation, not an input; re-run the check itself")
        return 1
    mod = sys.modules[__name__]
    tier = obj.get("tier", "quick")
    extra_cfg = SPEC["tiers"][tier]["extra"]
    if (obj.get("extra") or {}).get("focus"):
        extra_cfg["focus"] = 1
    try:
        r = check.standard_run(mod, tier, obj["seed"], only=int(obj["case"]))
    finally:
        extra_cfg.pop("focus", None)
    for d in r["disagreements"]:
        print(f"case {d['case']} op {d['op_index']}: {d['op']}\n  impl : {d['impl']}\n  model: {d['model']}")
    for d in r["oracle_failures"]:
        print(f"case {d['case']} [{d['layer']}] {d['what']}: {d['query']}")
        for k, v in d.get("answers", {}).items():
            print(f"--- {k}")
            print(v if isinstance(v, (str, bool)) else "\n".join(v))
    for k in r["known"]:
        print("KNOWN-FINDING: property=C13", k)
    bad = bool(r["disagreements"] or r["oracle_failures"] or r["failures"])
    print("replay:", "still fails" if bad else "passes")
    return 1 if bad else 0
