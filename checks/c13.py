"""C13 — incremental analysis equals from-scratch analysis after any edit history."""

SPEC = {
    "id": "C13",
    "sub": "c13",
    "lean_modules": ["TrustVerif.Props.C13"],
    "tiers": {
        "quick": {"cases": 250, "extra": {"steps": 25}},
        "thorough": {"cases": 8000, "extra": {"steps": 40}},
    },
    "disagreement_is_violation": False,
    "rule": "",
    "trusted_base": [],
    "assumptions": [],
}

MANIFEST = {"technique": "", "level_text": "", "level_note": ""}


def extra(ctx):
    fails = []
    nq = 0
    for c in ctx["cases"]:
        for i, l in enumerate(c.lines):
            if l.startswith("#o "):
                nq += 1
                if "fresh=1 repeat=1 panic=0" not in l:
                    fails.append({"case": c.n, "line": l, "seed": ctx["seed"], "tier": ctx["tier"]})
    return {"coverage": {"oracle_queries": nq}, "oracle_failures": fails}
