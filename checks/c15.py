"""C15 — formatting never changes the program and is idempotent."""
import json
import os
import subprocess
import time

import vlib
from checks import c15_translate


def translate_glue():
    """Regenerates lean/TrustVerif/Generated/Glue.lean from formatting.rs / tokens.rs (fail closed)."""
    c15_translate.generate()


def build_lsp():
    """The LSP server is a binary crate: rebuild it from the tree the harness is built against."""
    root = c15_translate.repo_root()
    cmd = ["cargo", "build", "--offline", "--quiet", "--manifest-path", os.path.join(root, "Cargo.toml"),
           "-p", "trust-lsp", "--features", "verif-hooks", "--target-dir", os.path.join(vlib.BUILD, "lsp")]
    rc, log = vlib.sh(cmd, timeout=3600)
    if rc != 0:
        raise RuntimeError("trust-lsp does not build: " + log[-1200:])


SPEC = {
    "id": "C15",
    "sub": "c15",
    "lean_modules": ["TrustVerif.Props.C15"],
    "translators": [translate_glue, build_lsp],
    "tiers": {
        "quick": {"cases": 372, "extra": {"lexreps": 4, "gluecases": 42}},
        "thorough": {"cases": 12420, "extra": {"lexreps": 99, "gluecases": 420}},
    },
    # model and implementation are compared on the formatters' complete replies; what the property
    # itself says is evaluated on the implementation's output by the oracle (extra()), so a
    # disagreement alone is reported without a failing input
    "disagreement_is_violation": False,
    "rule": "case = generated text (risky 12%: URL-like strings + trailing comments, commented-out assignments and strings with "
            "`:=`/`=>`/`:` next to real assignments, lines that wrap, runs of 3-6 blank lines, every literal class of the lexer (TOD/DT/LTOD/LDT/T#, based numbers, typed "
            "literals, strings with every special character) in VAR-block initialisers incl. multi-line and shuffled ones, "
            "assignments, named call arguments and CASE labels; 1 text in 8 ends without a line terminator in a line with "
            "characters outside the BMP, with range / on-type requests reaching it; valid programs 38%, mutated 22%, "
            "mixed comment/pragma/string lines 14%, token soup 11%, tiny 3%; 1 text in 4 writes variable references Siemens-style `#name` "
            "(a Hash token directly behind keywords, operators, brackets), flagged texts take based / typed literals apart at the `#` (`16 # FF`, `INT# 5`); "
            "LF/CRLF/mixed) x generated configuration (FormattingOptions, vendor profile via trust-lsp.toml, all "
            "eight client settings through random key aliases) x full + 1-2 ranges + 1-2 on-type positions + second "
            "formatting + web formatter twice; non-trivial = at least 3 non-trivia tokens and 2 lines; distinct = by hash of "
            "the case's operation lines.  GLUE MATRIX (the gluecases cases that follow the fixed witness cases - 20..61 in the quick tier - swept independently of the seed; the seed picks "
            "representatives, continuation, frame and source white space): every left-hand token class (keyword, identifier, integer, "
            "real, temporal literal, typed-literal prefix, temporal prefix, direct address, string, closer) x every punctuation / operator "
            "should_glue mentions (12 + 15), 20 swept + 8 random pairs per text, each pair on a line WITHOUT any other `(` `.` `..` and on "
            "a line with a call / member access / subrange next to it, in default-spaced (profiles none/codesys/mitsubishi/acme), "
            "explicitly spaced (all five profiles) and compact (explicit or by the siemens profile) style; lines containing a token the "
            "lexer labels by its right context (open finding) are left out, exactly those",
    "trusted_base": [
        "Lean 4.33.0 kernel; axioms per theorem listed under 'theorems'",
        "hand-written model lean/TrustVerif/Model/C15.lean of format_config, should_glue, format_line_tokens, the per-line "
        "loop of format_document, the alignment and wrapping passes, format_lines_edit, expand_range_to_block and the web "
        "formatter; tied by this run's correspondence (complete replies compared)",
        "translator checks/c15_translate.py (regexes over should_glue, is_symbolic_operator, is_dedent_token, is_end_keyword, "
        "line_has_indent_start, block_start_kind, block_end_kind, format_profile_overrides, enum TokenKind, is_trivia, "
        "is_keyword, is_var_keyword; fails closed when the structure of should_glue changes)",
        "trust_syntax::lex is the measuring stick and is NOT modelled: the theorems about re-lexing assume the abstract "
        "interface LexIface (a rendering whose glued pairs are all classSafe re-lexes to its tokens); classSafe is validated "
        "against the real lexer in case 0 of every run (class pairs x representative texts x continuations)",
        "Rust harness vharness c15 (LSP client over stdio, generators, oracle on the implementation via trust_syntax::lex)",
    ],
    "assumptions": [
        "comments are compared after trimming trailing white space of line comments and reading CRLF as LF inside "
        "multi-line comments / pragmas (line-terminator normalisation is layout, not content)",
        "LSP edits are applied the way an editor does (harness Editor, as in C14): UTF-16 code units on the editor's own "
        "buffer, columns clamped to the line end, lines ending at LF / CR LF; the server's byte offsets are never trusted",
    ],
}

MANIFEST = {
    "technique": "Lean 4 proofs about a function-by-function model of both formatters (glue table generated from the Rust "
                 "source, decided over all token-class pairs) + differential correspondence through the real LSP server "
                 "and WebIdeState + oracle with the real lexer",
    "level_text": "filled in below",
    "level_note": "filled in below",
}

# ------------------------------------------------------------------------------------------------
# classification of oracle failures by the decidable guards of the _partial theorems
# ------------------------------------------------------------------------------------------------

CONTENT = ("tokens", "strings", "comments", "pragmas")


def explain(op, what, g_src, g_doc):
    """Ids of the OPEN findings that explain a failure of `op` (`what` differs / happened), given the guards
    the model computed for the source document (g_src) and for the document the request ran on (g_doc).
    Repaired findings (glue hazards, panic, multi-line pragma, colon in literal, range index, stray CR, assignment
    operator found by text search)
    explain nothing any more: their witnesses are still run, and a failure there is a violation."""
    both = g_src | g_doc
    out = set()
    if what == "panic":
        return out
    if op in ("full", "range", "ontype") and what in CONTENT:
        if "open-ended-error-token" in g_src and what == "tokens":
            out.add("C15-open-ended-error-token")
        if "exotic-space-token" in g_src and what == "tokens":
            out.add("C15-exotic-space")
        if "irregular-token" in g_src and what == "tokens":
            out.add("C15-lexer-context-dependent-token")
    elif op == "idem":
        if "wrapped" in both:
            out.add("C15-wrap-not-idempotent")
        if "open-ended-error-token" in both:
            out.add("C15-open-ended-error-token")
        if "irregular-token" in both:
            out.add("C15-lexer-context-dependent-token")
    elif op == "web" and what in CONTENT:
        if what in ("comments", "pragmas") and ("multiline-comment" in g_src or "multiline-pragma" in g_src):
            out.add("C15-web-multiline-trivia")
        if what == "tokens" and "open-ended-error-token" in g_src:
            out.add("C15-open-ended-error-token")
        if what == "tokens" and "exotic-space-token" in g_src:
            out.add("C15-exotic-space")
    return out


def run_guards(cases_path):
    out = subprocess.run([vlib.DRIVER, "c15", "guards"], stdin=open(cases_path, "rb"), stdout=subprocess.PIPE,
                         stderr=subprocess.PIPE, timeout=3600)
    if out.returncode != 0:
        raise RuntimeError("driver c15 guards failed: " + out.stderr.decode(errors="replace")[-400:])
    guards = {}
    for line in out.stdout.decode(errors="replace").splitlines():
        w = line.split()
        if len(w) == 4 and w[0] == "g":
            guards[(w[1], int(w[2]))] = set() if w[3] == "-" else set(w[3].split(","))
        elif line.startswith("bad-op"):
            raise RuntimeError("driver c15 guards answered bad-op")
    return guards


def classify(cases, guards, open_findings, seed, tier, found_by):
    """Evaluates the `# oracle` lines of parsed cases: (unexplained failures, hits of open findings, counters)."""
    failures, known_hits, guard_hist = [], {}, {}
    n_oracle = n_fail = 0
    witnessed = set()
    for c in cases:
        docs = {}
        texts = {}
        cfg = ""
        for l in c.lines:
            if l.startswith("# irregular "):
                # set by the harness: a token whose label depends on its right context (lexer quirk)
                guards.setdefault((c.n, {"source": 0, "lsp-formatted": 1, "web-formatted": 2}[l.split()[2]]), set()).add("irregular-token")
        request = ""
        for l in c.lines:
            if l.startswith(("range ", "ontype ", "full", "web")):
                request = l
            if l.startswith("cfg "):
                cfg = l
            elif l.startswith("# doc "):
                w = l.split(" ", 4)
                docs[w[3]] = int(w[2])
                texts[w[3]] = json.loads(w[4])
            elif l.startswith("# oracle "):
                o = json.loads(l[9:])
                n_oracle += 1
                if o["verdict"] == "ok":
                    continue
                n_fail += 1
                g_src = guards.get((c.n, 0), set())
                g_doc = guards.get((c.n, docs.get(o["doc"], 0)), set())
                ids = {i for i in explain(o["op"], o["what"], g_src, g_doc) if i in open_findings}
                if ids:
                    for i in ids:
                        known_hits[i] = known_hits.get(i, 0) + 1
                        if "witness" in c.tags:
                            witnessed.add(i)
                else:
                    failures.append({
                        "what": f"{o['op']} formatting: {o['what']} — {o['detail']}",
                        "case": c.n, "seed": seed, "tier": tier, "config": cfg,
                        "source": texts.get("source", ""), "document": texts.get(o["doc"], ""),
                        "operation": o["op"], "failure": o["what"], "request": request,
                        "guards_violated": sorted(g_src | g_doc),
                        "not_a_known_finding": "no guard of an open finding is violated",
                        "found_by": found_by, "shrunk": "shrunk" in c.tags,
                        "replay_cmd": "./check.py C15 --replay <this file>",
                    })
        for g in guards.get((c.n, 0), set()):
            key = g if not g.startswith("glue") else g.split(":")[0]
            guard_hist[key] = guard_hist.get(key, 0) + 1
    return failures, known_hits, guard_hist, n_oracle, n_fail, witnessed


def requests_of(request):
    """`range a b c d` / `ontype l c` op line -> the `requests` object of a neighbour-file entry."""
    w = request.split()
    if len(w) == 5 and w[0] == "range":
        return {"ranges": [[int(x) for x in w[1:]]], "ontype": []}
    if len(w) == 3 and w[0] == "ontype":
        return {"ranges": [], "ontype": [[int(x) for x in w[1:]]]}
    return {"ranges": [], "ontype": []}


def neighbourhood(ctx, open_findings, failing=()):
    """`failing`: oracle failures of generated cases that no open finding explains - the first three distinct cases
    are run again with the request that failed and shrunk line by line while the same failure persists (the shrunk
    text is judged by the oracle and classified like every other case).
    Model and implementation disagree: look for a failing input OF THE PROPERTY near the disagreeing cases.
    The harness splices the constructs that text-based helpers trip over (strings / comments containing `//`,
    `:=`, `=>`, `:`; commented-out code; lines that wrap; runs of blank lines) into each disagreeing source, varies
    the line limit, runs full / range / on-type / second formatting through the real server, judges every variant
    with the property oracle and shrinks the first failing variants line by line."""
    tier, seed = ctx["tier"], ctx["seed"]
    seeds, seen = [], set()
    for f in failing:
        if (f["config"], f["source"]) not in seen and len(seeds) < 3 and f["failure"] != "panic":
            seen.add((f["config"], f["source"]))
            seeds.append({"cfg": f["config"], "source": f["source"], "want": [f["operation"], f["failure"]],
                          "requests": requests_of(f["request"])})
    nwant = len(seeds)
    for d in ctx["result"]["disagreements"]:
        cfg = src = None
        for l in d.get("case_lines", []):
            if l.startswith("cfg ") and cfg is None:
                cfg = l
            elif l.startswith("# doc 0 source "):
                src = json.loads(l.split(" ", 4)[4])
        if cfg and src is not None and (cfg, src) not in seen:
            seen.add((cfg, src))
            seeds.append({"cfg": cfg, "source": src})
        if len(seeds) >= 6 + nwant:
            break
    if not seeds:
        return [], {}
    npath = os.path.join(vlib.WORK, f"C15.{tier}.neighbour.json")
    json.dump(seeds, open(npath, "w"))
    out_path = os.path.join(vlib.WORK, f"C15.{tier}.neighbour.cases.txt")
    rc, log = vlib.run_harness("c15", seed, 40 if tier == "quick" else 150, out_path, {"neighbour": npath}, timeout=3600)
    if rc != 0:
        raise RuntimeError(f"neighbourhood search: harness exited {rc}: {log[-600:]}")
    ncases = vlib.parse_cases(out_path)
    failures, _, _, n_oracle, n_fail, _ = classify(ncases, run_guards(out_path), open_findings, seed, tier,
                                                   "neighbourhood search around a model-vs-implementation disagreement")
    # shrunk failing inputs first
    failures.sort(key=lambda f: (not f["shrunk"], len(f["source"])))
    return failures, {"neighbourhood_seeds": len(seeds), "neighbourhood_variants": len(ncases),
                      "neighbourhood_oracle_evaluations": n_oracle, "neighbourhood_oracle_failures": n_fail}


def extra(ctx):
    cases = ctx["cases"]
    tier, seed = ctx["tier"], ctx["seed"]
    cases_path = os.path.join(vlib.WORK, f"C15.{tier}.cases.txt")
    guards = run_guards(cases_path)
    open_findings = {f["id"]: f for f in vlib.known_findings("C15")}
    failures, known_hits, guard_hist, n_oracle, n_fail, witnessed = classify(
        cases, guards, open_findings, seed, tier, "generated case")
    known = [f"{open_findings[i]['what']} [{i}; {n} failing operations this run]" for i, n in sorted(known_hits.items())]
    coverage = {
        "oracle_evaluations": n_oracle,
        "oracle_failures_total": n_fail,
        "oracle_failures_explained_by_known_findings": dict(sorted(known_hits.items())),
        "cases_violating_a_guard": dict(sorted(guard_hist.items())),
        "known_findings_reproduced_on_their_witness": sorted(witnessed),
        "known_findings_not_reproduced": sorted(set(open_findings) - set(known_hits)),
    }
    if (ctx["result"]["disagreements"] or failures) and "only" not in ctx:
        nf, ncov = neighbourhood(ctx, open_findings, failures)
        coverage.update(ncov)
        # failing inputs of the neighbourhood (shrunk ones first) are reported before the generated ones
        failures = nf + failures
    return {"coverage": coverage, "oracle_failures": failures, "known": known}


def replay(obj):
    """Re-runs the single case named by a replay file and prints what the oracle and the model say."""
    import check
    if "case" not in obj:
        print(json.dumps(obj, indent=1)[:3000])
        print("this replay names a broken obligation, not an input; re-run the check itself")
        return 1
    if str(obj.get("found_by", "")).startswith("neighbourhood"):
        # the failing input itself is in the replay file: run exactly it through the real formatters
        vlib.ensure_dirs()
        build_lsp()
        ok, log, _ = vlib.build_harness(("verif-hooks",))
        if not ok:
            print("harness does not build:", log[-800:])
            return 1
        npath = os.path.join(vlib.WORK, "C15.replay.neighbour.json")
        json.dump([{"cfg": obj["config"], "source": obj["source"], "requests": requests_of(obj.get("request", ""))}],
                  open(npath, "w"))
        out_path = os.path.join(vlib.WORK, "C15.replay.cases.txt")
        rc, log = vlib.run_harness("c15", obj["seed"], 1, out_path, {"neighbour": npath})
        if rc != 0:
            print("harness exited", rc, log[-600:])
            return 1
        open_findings = {f["id"]: f for f in vlib.known_findings("C15")}
        failures = classify(vlib.parse_cases(out_path), run_guards(out_path), open_findings, obj["seed"], "quick", "replay")[0]
        for f in failures:
            print("oracle:", f["what"][:400])
            print("  source:", json.dumps(f["source"])[:600])
        print("replay:", "still fails" if failures else "passes")
        return 1 if failures else 0
    mod = check.load_spec("C15")
    r = check.standard_run(mod, obj.get("tier", "quick"), obj["seed"], only=obj["case"])
    bad = 0
    for d in r["disagreements"]:
        bad += 1
        print(f"case {d['case']} op {d['op_index']}: {d['op'][:100]}\n  impl : {d['impl'][:300]}\n  model: {d['model'][:300]}")
    for f in r["oracle_failures"]:
        bad += 1
        print("oracle:", f["what"][:400])
        print("  source:", json.dumps(f["source"])[:600])
    for k in r["known"]:
        print("known finding (not a violation):", k)
    bad += len(r["failures"])
    for f in r["failures"]:
        print("failure:", f[:400])
    print("replay:", "still fails" if bad else "passes")
    return 1 if bad else 0


MANIFEST["level_text"] = (
    "Proved in Lean 4, unbounded, about a function-by-function model of both formatters (as repaired by 0cc0118, 2b1ad0b, "
    "997b5b5, b483235, 26b5189, 944815f, 6232ed3, PENDING-C15-align-assign) whose glue table, keyword lists, block tables and vendor profiles are "
    "regenerated from the Rust source on every run: (1) c15_line_tokens - IN FULL: the text format_line_tokens returns (glued "
    "text when the re-lex guard accepts it, one-space fallback otherwise) lexes to exactly the tokens it was made from, keywords "
    "re-cased (c15_recase), for every list of valid tokens, every style and keyword case, relative to the abstract lexer "
    "interface LexIface; c15_glue_table / c15_glue_safe (kernel-decided over 46x46 classes x 2 styles) and "
    "c15_glued_line_relexes: the fallback can only be taken on one of 34 recorded class pairs; (2) c15_verbatim_block / _line "
    "/ _wrap / c15_verbatim_document: block-comment lines, lines of multi-line tokens and lines with a line comment or pragma "
    "reach the final output unchanged up to indentation, in order, through all post passes; c15_colon_guard: no colon index "
    "when the first ':' is not a Colon token; (3) c15_range_edit (the edit replaces exactly source lines a..b by formatted "
    "lines a..b; LF texts, range not touching the last line) + c15_range_line_count (without wrapping - range/on-type "
    "formatting never wrap - one formatted line per source line) + c15_full_edit; (4) c15_no_panic - for every configuration "
    "the indent never underflows; (5) web formatter: c15_web_lines, c15_web_nonws, c15_web_idempotent - IN FULL for every text; "
    "(6) c15_relex_guard_needed_without_paren_or_dot - the re-lex guard cannot be restricted to compact style or to lines with "
    "`(` `.` `..`: in spaced style exactly seven further class pairs (keyword / identifier / integer + `#`, temporal prefix + sign / "
    "number) are glued unsafely; c15_align_assign - align_assignment_ops inserts white space only, for every list of lines - and "
    "c15_align_assign_at_token - at the start of the line's first Assign / Arrow token (find_assignment_op as repaired by "
    "PENDING-C15-align-assign; the former witness `a <= > b;` in compact style is a fixed witness case that must pass). "
    "Still violated by the code, each with a proved counterexample or a replayed witness and an OPEN entry in "
    "known_findings.json: LSP formatting is not idempotent after wrapping (c15_wrap_idempotent_counterexample), the web "
    "formatter re-indents the interior of multi-line comments / pragmas (c15_web_comment_counterexample), open-ended Error "
    "tokens, Unicode white space Error tokens, context-dependent lexer labels."
)
MANIFEST["level_note"] = (
    "Correspondence: complete replies of textDocument/formatting, rangeFormatting, onTypeFormatting (trust-lsp binary over "
    "stdio; client settings through every key alias, FormattingOptions, vendor profile via trust-lsp.toml) and of "
    "WebIdeState::format_source are compared with the model on every generated case, plus second formatting (idempotence) "
    "and an oracle that evaluates the property's own statement on the implementation's output with trust_syntax::lex. The "
    "verdict of the re-lex guard is an INPUT of the model: the model prints its glued line texts (driver c15 glued), the "
    "harness lexes them with the real lexer (relexes_to) and feeds the verdicts back (`relex` lines); c15_line_tokens assumes "
    "exactly that the verdict is what the lexer says. Tested, not proved: the token-to-line assignment of buildDoc (incl. the "
    "verbatim marking of multi-line tokens), that the alignment / wrapping passes change only white space outside verbatim "
    "lines, idempotence of the LSP formatter, document-level token preservation (c15_line_tokens is per line), token "
    "preservation by the web formatter. Trusted: Lean kernel + propext/Quot.sound/Classical.choice; the hand model; the "
    "translator (fails closed on a restructured should_glue); the harness; LexIface (classSafe validated against the real "
    "lexer each run on every class pair x representative texts x continuations, with a real-lexer witness for every recorded "
    "pair; locality only exercised by the oracle). Repaired findings keep their witness cases: a regression is an oracle "
    "failure no open finding explains, i.e. a violation with the witness as failing input. Comments are compared modulo "
    "trailing blanks of line comments and CRLF/LF inside multi-line comments / pragmas."
)
