"""C15 — formatting never changes the program and is idempotent."""
import json
import os
import subprocess
import time

import vlib
from checks import c15_translate


def translate_glue():
    """Regenerates lean/TrustVerif/Generated/Glue.lean from formatting.rs / tokens.rs (fail closed)."""
    c15_translate.generate()


def build_lsp():
    """The LSP server is a binary crate: rebuild it from the tree the harness is built against."""
    root = c15_translate.repo_root()
    cmd = ["cargo", "build", "--offline", "--quiet", "--manifest-path", os.path.join(root, "Cargo.toml"),
           "-p", "trust-lsp", "--features", "verif-hooks", "--target-dir", os.path.join(vlib.BUILD, "lsp")]
    rc, log = vlib.sh(cmd, timeout=3600)
    if rc != 0:
        raise RuntimeError("trust-lsp does not build: " + log[-1200:])


SPEC = {
    "id": "C15",
    "sub": "c15",
    "lean_modules": ["TrustVerif.Props.C15"],
    "translators": [translate_glue, build_lsp],
    "tiers": {
        "quick": {"cases": 330, "extra": {"lexreps": 4}},
        "thorough": {"cases": 20000, "extra": {"lexreps": 99}},
    },
    # model and implementation are compared on the formatters' complete replies; what the property
    # itself says is evaluated on the implementation's output by the oracle (extra()), so a
    # disagreement alone is reported without a failing input
    "disagreement_is_violation": False,
    "rule": "case = generated text (valid programs 50%, mutated 22%, mixed comment/pragma/string lines 14%, token soup 11%, "
            "tiny 3%; LF/CRLF/mixed) x generated configuration (FormattingOptions, vendor profile via trust-lsp.toml, all "
            "eight client settings through random key aliases) x full + 1-2 ranges + 1-2 on-type positions + second "
            "formatting + web formatter twice; non-trivial = at least 3 non-trivia tokens and 2 lines; distinct = by hash of "
            "the case's operation lines",
    "trusted_base": [
        "Lean 4.33.0 kernel; axioms per theorem listed under 'theorems'",
        "hand-written model lean/TrustVerif/Model/C15.lean of format_config, should_glue, format_line_tokens, the per-line "
        "loop of format_document, the alignment and wrapping passes, format_lines_edit, expand_range_to_block and the web "
        "formatter; tied by this run's correspondence (complete replies compared)",
        "translator checks/c15_translate.py (regexes over should_glue, is_symbolic_operator, is_dedent_token, is_end_keyword, "
        "line_has_indent_start, block_start_kind, block_end_kind, format_profile_overrides, enum TokenKind, is_trivia, "
        "is_keyword, is_var_keyword; fails closed when the structure of should_glue changes)",
        "trust_syntax::lex is the measuring stick and is NOT modelled: the theorems about re-lexing assume the abstract "
        "interface LexIface (a rendering whose glued pairs are all classSafe re-lexes to its tokens); classSafe is validated "
        "against the real lexer in case 0 of every run (class pairs x representative texts x continuations)",
        "Rust harness vharness c15 (LSP client over stdio, generators, oracle on the implementation via trust_syntax::lex)",
    ],
    "assumptions": [
        "comments are compared after trimming trailing white space of line comments and reading CRLF as LF inside "
        "multi-line comments / pragmas (line-terminator normalisation is layout, not content)",
        "LSP edits are applied with lines ending at '\\n' and UTF-16 columns (the server's own convention, C14)",
    ],
}

MANIFEST = {
    "technique": "Lean 4 proofs about a function-by-function model of both formatters (glue table generated from the Rust "
                 "source, decided over all token-class pairs) + differential correspondence through the real LSP server "
                 "and WebIdeState + oracle with the real lexer",
    "level_text": "filled in below",
    "level_note": "filled in below",
}

# ------------------------------------------------------------------------------------------------
# classification of oracle failures by the decidable guards of the _partial theorems
# ------------------------------------------------------------------------------------------------

CONTENT = ("tokens", "strings", "comments", "pragmas")


def explain(op, what, g_src, g_doc):
    """Known-finding ids that explain a failure of `op` (`what` differs / happened), given the guards the
    model computed for the source document (g_src) and for the document the request ran on (g_doc)."""
    both = g_src | g_doc
    out = set()
    glue = any(g.startswith("glue:") for g in both)
    if what == "panic":
        if "indent-underflow-panic" in g_doc:
            out.add("C15-indent-underflow-panic")
        return out
    if op in ("full", "range", "ontype") and what in CONTENT:
        if glue and what in ("tokens", "strings", "comments"):
            out.add("C15-glue-hazards")
        if "multiline-pragma" in g_src:
            out.add("C15-multiline-pragma")
        if "var-colon-in-token" in g_src and what in ("tokens", "strings"):
            out.add("C15-var-colon-in-literal")
        if "open-ended-error-token" in g_src and what == "tokens":
            out.add("C15-open-ended-error-token")
        if "exotic-space-token" in g_src and what == "tokens":
            out.add("C15-exotic-space")
        if "irregular-token" in g_src and what == "tokens":
            out.add("C15-lexer-context-dependent-token")
        if op in ("range", "ontype") and "wrapped" in g_src:
            out.add("C15-wrap-range-index")
    elif op == "idem":
        if "wrapped" in both:
            out.add("C15-wrap-not-idempotent")
        if glue:
            out.add("C15-glue-hazards")
        if "multiline-pragma" in both:
            out.add("C15-multiline-pragma")
        if "open-ended-error-token" in both:
            out.add("C15-open-ended-error-token")
        if "var-colon-in-token" in both:
            out.add("C15-var-colon-in-literal")
        if "irregular-token" in both:
            out.add("C15-lexer-context-dependent-token")
    elif op == "web" and what in CONTENT:
        if what in ("comments", "pragmas") and ("multiline-comment" in g_src or "multiline-pragma" in g_src):
            out.add("C15-web-multiline-trivia")
        if what == "tokens" and "open-ended-error-token" in g_src:
            out.add("C15-open-ended-error-token")
        if what == "tokens" and "exotic-space-token" in g_src:
            out.add("C15-exotic-space")
    elif op == "web-idem":
        if "web-stray-cr" in both:
            out.add("C15-web-stray-cr")
    return out


def run_guards(cases_path):
    out = subprocess.run([vlib.DRIVER, "c15", "guards"], stdin=open(cases_path, "rb"), stdout=subprocess.PIPE,
                         stderr=subprocess.PIPE, timeout=3600)
    if out.returncode != 0:
        raise RuntimeError("driver c15 guards failed: " + out.stderr.decode(errors="replace")[-400:])
    guards = {}
    for line in out.stdout.decode(errors="replace").splitlines():
        w = line.split()
        if len(w) == 4 and w[0] == "g":
            guards[(w[1], int(w[2]))] = set() if w[3] == "-" else set(w[3].split(","))
        elif line.startswith("bad-op"):
            raise RuntimeError("driver c15 guards answered bad-op")
    return guards


def extra(ctx):
    cases = ctx["cases"]
    tier, seed = ctx["tier"], ctx["seed"]
    cases_path = os.path.join(vlib.WORK, f"C15.{tier}.cases.txt")
    guards = run_guards(cases_path)
    open_findings = {f["id"]: f for f in vlib.known_findings("C15")}
    failures, known_hits, guard_hist = [], {}, {}
    n_oracle = n_fail = 0
    witnessed = set()
    for c in cases:
        docs = {}
        texts = {}
        cfg = ""
        for l in c.lines:
            if l.startswith("# irregular "):
                # set by the harness: a token whose label depends on its right context (lexer quirk)
                guards.setdefault((c.n, {"source": 0, "lsp-formatted": 1, "web-formatted": 2}[l.split()[2]]), set()).add("irregular-token")
        for l in c.lines:
            if l.startswith("cfg "):
                cfg = l
            elif l.startswith("# doc "):
                w = l.split(" ", 4)
                docs[w[3]] = int(w[2])
                texts[w[3]] = json.loads(w[4])
            elif l.startswith("# oracle "):
                o = json.loads(l[9:])
                n_oracle += 1
                if o["verdict"] == "ok":
                    continue
                n_fail += 1
                g_src = guards.get((c.n, 0), set())
                g_doc = guards.get((c.n, docs.get(o["doc"], 0)), set())
                ids = explain(o["op"], o["what"], g_src, g_doc)
                unknown = [i for i in ids if i not in open_findings]
                if ids and not unknown:
                    for i in ids:
                        known_hits[i] = known_hits.get(i, 0) + 1
                        if "witness" in c.tags:
                            witnessed.add(i)
                else:
                    failures.append({
                        "what": f"{o['op']} formatting: {o['what']} — {o['detail']}",
                        "case": c.n, "seed": seed, "tier": tier, "config": cfg,
                        "source": texts.get("source", ""), "document": texts.get(o["doc"], ""),
                        "operation": o["op"], "guards_violated": sorted(g_src | g_doc),
                        "classified_as": sorted(ids), "not_a_known_finding": unknown or "no guard of a _partial theorem is violated",
                        "replay_cmd": f"./check.py C15 --replay <this file>",
                    })
        for g in guards.get((c.n, 0), set()):
            key = g if not g.startswith("glue") else g.split(":")[0]
            guard_hist[key] = guard_hist.get(key, 0) + 1
    known = [f"{open_findings[i]['what']} [{i}; {n} failing operations this run]" for i, n in sorted(known_hits.items())]
    coverage = {
        "oracle_evaluations": n_oracle,
        "oracle_failures_total": n_fail,
        "oracle_failures_explained_by_known_findings": dict(sorted(known_hits.items())),
        "cases_violating_a_guard": dict(sorted(guard_hist.items())),
        "known_findings_reproduced_on_their_witness": sorted(witnessed),
        "known_findings_not_reproduced": sorted(set(open_findings) - set(known_hits)),
    }
    return {"coverage": coverage, "oracle_failures": failures, "known": known}


def replay(obj):
    """Re-runs the single case named by a replay file and prints what the oracle and the model say."""
    import check
    if "case" not in obj:
        print(json.dumps(obj, indent=1)[:3000])
        print("this replay names a broken obligation, not an input; re-run the check itself")
        return 1
    mod = check.load_spec("C15")
    r = check.standard_run(mod, obj.get("tier", "quick"), obj["seed"], only=obj["case"])
    bad = 0
    for d in r["disagreements"]:
        bad += 1
        print(f"case {d['case']} op {d['op_index']}: {d['op'][:100]}\n  impl : {d['impl'][:300]}\n  model: {d['model'][:300]}")
    for f in r["oracle_failures"]:
        bad += 1
        print("oracle:", f["what"][:400])
        print("  source:", json.dumps(f["source"])[:600])
    for k in r["known"]:
        print("known finding (not a violation):", k)
    bad += len(r["failures"])
    for f in r["failures"]:
        print("failure:", f[:400])
    print("replay:", "still fails" if bad else "passes")
    return 1 if bad else 0


MANIFEST["level_text"] = (
    "Proved in Lean 4, unbounded, about a function-by-function model of both formatters whose glue table, keyword lists, "
    "block tables and vendor profiles are regenerated from the Rust source on every run: (1) c15_glue_table / "
    "c15_glue_safe_partial - decided by the kernel over all 46x46 token-class pairs and both spacing styles: should_glue "
    "never writes two tokens without a separator unless the pair is class-safe or is one of the 44 recorded hazard pairs; "
    "c15_line_tokens - hence the line emitted by format_line_tokens lexes to exactly the tokens it was made from (keywords "
    "re-cased, c15_recase) for every hazard-free token list, every style and keyword case, relative to the abstract lexer "
    "interface LexIface; (2) c15_verbatim_block / _line / _wrap / c15_verbatim_document - every block-comment line and every "
    "line carrying a line comment or pragma reaches the final output unchanged up to indentation, in order, through the colon "
    "alignment, assignment alignment and wrapping passes for every configuration; (3) c15_range_edit - the edit built by "
    "format_lines_edit replaces exactly source lines a..b by formatted lines a..b (LF texts, range not touching the last "
    "line); c15_full_edit - full formatting is no edit or one whole-document edit; (4) c15_no_panic_aligned - with "
    "endKeywordStyle=aligned the line loop never underflows the indent; (5) web formatter: c15_web_lines (each output line = "
    "spaces ++ source line without leading white space / trailing blanks), c15_web_nonws (non-white-space text preserved for "
    "every text), c15_web_idempotent_partial (idempotent on every text without a stray CR). The code VIOLATES the full "
    "property in eleven ways; each has a proved counterexample on the model (c15_glue_safe_counterexample, "
    "c15_glue_counterexample_typed_literal [valid programs: `x MOD INT#5` -> `x MODINT#5`], _comment, _compact, "
    "c15_range_edit_counterexample, c15_wrap_idempotent_counterexample, c15_panic_counterexample, c15_pragma_counterexample / "
    "c15_tokenless_line_dropped, c15_var_colon_counterexample, c15_web_idempotent_counterexample, "
    "c15_web_comment_counterexample), a witness replayed on every run through the real LSP server / WebIdeState, and an open "
    "entry in known_findings.json matched by the decidable guard of the corresponding _partial theorem."
)
MANIFEST["level_note"] = (
    "Correspondence: complete replies of textDocument/formatting, rangeFormatting, onTypeFormatting (trust-lsp binary over "
    "stdio; client settings through every key alias, FormattingOptions, vendor profile via trust-lsp.toml) and of "
    "WebIdeState::format_source are compared with the model on every generated case, plus second formatting (idempotence) "
    "and an oracle that evaluates the property's own statement on the implementation's output with trust_syntax::lex. "
    "Tested, not proved: that the alignment / wrapping passes change only white space outside verbatim lines, idempotence of "
    "the LSP formatter, document-level token preservation (c15_line_tokens is per line), token preservation by the web "
    "formatter (c15_web_lines gives it only for single-line tokens). Trusted: Lean kernel + propext/Quot.sound/"
    "Classical.choice; the hand model; the translator (fails closed on a restructured should_glue); the harness; LexIface: "
    "its pair-safety table classSafe is validated against the real lexer each run (soundness on every class pair x "
    "representative texts x continuations, and a real-lexer witness for every recorded hazard), its locality clause is only "
    "exercised by the oracle. The real lexer has backtracking quirks (`1.5ELSE` lexes as `1.5E`,`LSE`; `D#` is an Ident in "
    "`D#2024-01 ;`) which the table records. Comments are compared modulo trailing blanks of line comments and CRLF/LF inside "
    "multi-line comments / pragmas. A failure of the oracle is a violation unless the guard of a _partial theorem is violated "
    "on that input AND the matching finding is open in known_findings.json."
)
