"""C15 translator: regenerates lean/TrustVerif/Generated/Glue.lean from the Rust sources.

Items read (regexes over named Rust items; every failure raises => the check reports a broken tie):

  crates/trust-syntax/src/lexer/tokens.rs
      enum TokenKind              -> inductive K (one constructor per non-keyword variant, `Kw` for all
                                     `Kw*` variants), fixed texts of `#[token("..")]` variants
      is_trivia / is_keyword / is_var_keyword   -> lists of variant names
  crates/trust-lsp/src/handlers/formatting.rs
      should_glue                 -> the four `matches!` lists + the Ident-call rule; the skeleton of the
                                     function (order of the tests, what each returns) is compared with the
                                     skeleton the hand-written Lean `shouldGlue` mirrors
      is_symbolic_operator, is_dedent_token, is_end_keyword, line_has_indent_start -> lists
      block_start_kind / block_end_kind         -> (variant, BlockKind) tables
      format_profile_overrides    -> vendor profile table
"""
import os
import re

HERE = os.path.dirname(os.path.abspath(__file__))
VERIF = os.path.dirname(HERE)
OUT = os.path.join(VERIF, "lean", "TrustVerif", "Generated", "Glue.lean")


def repo_root():
    """The tree the harness is built against (so a scratch worktree is translated, too)."""
    toml = open(os.path.join(VERIF, "harness", "Cargo.toml")).read()
    m = re.search(r'trust-syntax\s*=\s*\{\s*path\s*=\s*"([^"]+)/crates/trust-syntax"', toml)
    if not m:
        raise RuntimeError("harness/Cargo.toml: trust-syntax path dependency not found")
    return m.group(1)


def strip_rust_comments(text):
    out = []
    for line in text.splitlines():
        # keep string contents: only strip `//` that is not inside a string literal (good enough: the
        # items we read contain no `//` inside strings except the regex attributes handled below)
        if re.match(r'\s*#\[(regex|token)', line):
            out.append(line)
            continue
        i = line.find("//")
        out.append(line if i < 0 else line[:i])
    return "\n".join(out)


def fn_body(src, name):
    """Text between the braces of `fn name(...) ... { ... }` (brace matched)."""
    m = re.search(r"\bfn\s+" + re.escape(name) + r"\s*\(", src)
    if not m:
        raise RuntimeError(f"function `{name}` not found")
    i = src.index("{", m.end())
    depth, j = 0, i
    while j < len(src):
        if src[j] == "{":
            depth += 1
        elif src[j] == "}":
            depth -= 1
            if depth == 0:
                return src[i + 1:j]
        j += 1
    raise RuntimeError(f"function `{name}`: unbalanced braces")


MATCHES = re.compile(r"matches!\s*\(\s*(\w+)\s*,\s*((?:(?:TokenKind|Self)::\w+\s*\|?\s*)+)\)", re.S)


def variants(listing):
    return re.findall(r"(?:TokenKind|Self)::(\w+)", listing)


def single_matches(src, name):
    body = fn_body(src, name)
    ms = MATCHES.findall(body)
    if len(ms) != 1:
        raise RuntimeError(f"`{name}`: expected exactly one matches! list, found {len(ms)}")
    rest = MATCHES.sub("M", body)
    return ms[0][0], variants(ms[0][1]), re.sub(r"\s+", "", rest)


SHOULD_GLUE_SKELETON = (
    "ifspacing_style==SpacingStyle::Compact&&(is_symbolic_operator(prev)||is_symbolic_operator(current)){returntrue;}"
    "ifspacing_style==SpacingStyle::Compact&&M{returntrue;}"
    "ifM{returntrue;}"
    "ifM{returntrue;}"
    "ifM&&prev==TokenKind::Ident{returntrue;}"
    "false"
)


def parse_should_glue(src):
    body = fn_body(src, "should_glue")
    ms = MATCHES.findall(body)
    skeleton = re.sub(r"\s+", "", MATCHES.sub("M", body))
    if skeleton != SHOULD_GLUE_SKELETON:
        raise RuntimeError("should_glue: the structure of the function changed; the Lean mirror "
                           "`shouldGlue` must be re-derived (skeleton: " + skeleton[:300] + ")")
    if [m[0] for m in ms] != ["prev", "prev", "current", "current"]:
        raise RuntimeError("should_glue: unexpected subjects of the matches! lists: " + str([m[0] for m in ms]))
    return [variants(m[1]) for m in ms]


def parse_block_table(src, name):
    body = fn_body(src, name)
    rows = []
    for m in re.finditer(r"((?:TokenKind::\w+\s*\|?\s*)+)=>\s*Some\(BlockKind::(\w+)\)", body):
        for v in variants(m.group(1)):
            rows.append((v, m.group(2)))
    rest = re.sub(r"((?:TokenKind::\w+\s*\|?\s*)+)=>\s*Some\(BlockKind::(\w+)\)\s*,", "", body)
    if re.sub(r"\s+", "", rest) != "matchkind{_=>None,}":
        raise RuntimeError(f"`{name}`: unexpected structure: " + re.sub(r"\s+", "", rest)[:200])
    if not rows:
        raise RuntimeError(f"`{name}`: no rows")
    return rows


def parse_token_enum(src):
    m = re.search(r"pub enum TokenKind\s*\{", src)
    if not m:
        raise RuntimeError("enum TokenKind not found")
    i = m.end()
    e = re.compile(r"^\}", re.M).search(src, i)   # the enum ends at the first `}` in column 0
    if not e:
        raise RuntimeError("enum TokenKind: end not found")
    body = src[i:e.start()]
    out = []      # (name, [fixed token texts], has_regex_or_callback)
    attrs = []
    buf = ""
    for line in body.splitlines():
        s = line.strip()
        if not s or s.startswith("//"):
            continue
        if buf or s.startswith("#["):
            buf += s
            # every attribute of this enum ends with `)]` (or is a bare `#[word]`)
            if buf.endswith(")]") or re.fullmatch(r"#\[\w+\]", buf):
                attrs.append(buf)
                buf = ""
            continue
        mm = re.fullmatch(r"([A-Z]\w*)\s*,?", s)
        if not mm:
            raise RuntimeError("enum TokenKind: cannot parse line: " + s[:80])
        fixed, other = [], False
        for a in attrs:
            t = re.fullmatch(r'#\[token\("((?:[^"\\]|\\.)*)"(\s*,\s*ignore\(ascii_case\))?\)\]', a)
            if t:
                fixed.append((t.group(1), bool(t.group(2))))
            elif a.startswith("#[token") or a.startswith("#[regex"):
                other = True
        out.append((mm.group(1), fixed, other))
        attrs = []
    if len(out) < 100:
        raise RuntimeError("enum TokenKind: suspiciously few variants")
    return out


def parse_profiles(src):
    body = fn_body(src, "format_profile_overrides")
    rows = []
    for m in re.finditer(r'((?:"[\w-]+"\s*\|?\s*)+)=>\s*FormatOverrides\s*\{(.*?)\}', body, re.S):
        names = re.findall(r'"([\w-]+)"', m.group(1))
        f = m.group(2)

        def field(key, pat):
            mm = re.search(key + r":\s*Some\(" + pat + r"\)", f)
            if not mm:
                raise RuntimeError(f"format_profile_overrides: field {key} not understood in {names}")
            return mm.group(1)
        row = {
            "indent": int(field("indent_width", r"(\d+)")),
            "spaces": field("insert_spaces", r"(true|false)"),
            "case": field("keyword_case", r"KeywordCase::(\w+)"),
            "alignVar": field("align_var_decl_colons", r"(true|false)"),
            "alignAsg": field("align_assignments", r"(true|false)"),
            "maxLen": int(field("max_line_length", r"(\d+)")),
            "spacing": field("spacing_style", r"SpacingStyle::(\w+)"),
            "endKw": field("end_keyword_style", r"EndKeywordStyle::(\w+)"),
        }
        for n in names:
            rows.append((n, row))
    if not rows:
        raise RuntimeError("format_profile_overrides: no profile rows found")
    return rows


def lean_str(s):
    return '"' + s.replace("\\", "\\\\").replace('"', '\\"') + '"'


def lean_list(items, per_line=6, indent="  "):
    if not items:
        return "[]"
    lines = []
    for i in range(0, len(items), per_line):
        lines.append(indent + ", ".join(items[i:i + per_line]))
    return "[\n" + ",\n".join(lines) + "]"


def generate():
    root = repo_root()
    tokens_rs = strip_rust_comments(open(os.path.join(root, "crates/trust-syntax/src/lexer/tokens.rs"), encoding="utf-8").read())
    fmt_rs = strip_rust_comments(open(os.path.join(root, "crates/trust-lsp/src/handlers/formatting.rs"), encoding="utf-8").read())

    enum = parse_token_enum(tokens_rs)
    names = [n for n, _, _ in enum]
    kw = [n for n in names if n.startswith("Kw")]
    plain = [n for n in names if not n.startswith("Kw")]
    ks = plain + ["Kw"]

    def k_of(v, where):
        if v not in names:
            raise RuntimeError(f"{where}: unknown TokenKind::{v}")
        return "Kw" if v.startswith("Kw") else v

    def check_names(vs, where):
        for v in vs:
            if v not in names:
                raise RuntimeError(f"{where}: unknown TokenKind::{v}")
        return vs

    g1, g2, g3, g4 = parse_should_glue(fmt_rs)
    for lst, where in ((g1, "should_glue/compact-prev"), (g2, "should_glue/prev"), (g3, "should_glue/current"),
                       (g4, "should_glue/call")):
        for v in lst:
            if v.startswith("Kw"):
                raise RuntimeError(f"{where}: keyword kind {v} in a glue list is not supported by the class model")
    _, sym, rest = single_matches(fmt_rs, "is_symbolic_operator")
    if rest != "M":
        raise RuntimeError("is_symbolic_operator: unexpected structure " + rest[:100])
    for v in sym:
        if v.startswith("Kw"):
            raise RuntimeError("is_symbolic_operator: keyword kind not supported by the class model")
    _, dedent, rest = single_matches(fmt_rs, "is_dedent_token")
    if rest != "M":
        raise RuntimeError("is_dedent_token: unexpected structure " + rest[:100])
    _, endkw, rest = single_matches(fmt_rs, "is_end_keyword")
    if rest != "M":
        raise RuntimeError("is_end_keyword: unexpected structure " + rest[:100])
    _, istart, rest = single_matches(fmt_rs, "line_has_indent_start")
    if rest != "tokens.iter().any(|token|{letkind=token.kind;M})":
        raise RuntimeError("line_has_indent_start: unexpected structure " + rest[:100])
    _, trivia, rest = single_matches(tokens_rs, "is_trivia")
    if rest != "M":
        raise RuntimeError("is_trivia: unexpected structure " + rest[:100])
    _, keyword, rest = single_matches(tokens_rs, "is_keyword")
    if rest != "M":
        raise RuntimeError("is_keyword: unexpected structure " + rest[:100])
    _, varkw, rest = single_matches(tokens_rs, "is_var_keyword")
    if rest != "M":
        raise RuntimeError("is_var_keyword: unexpected structure " + rest[:100])
    bstart = parse_block_table(fmt_rs, "block_start_kind")
    bend = parse_block_table(fmt_rs, "block_end_kind")
    profiles = parse_profiles(fmt_rs)
    for lst, where in ((dedent, "is_dedent_token"), (endkw, "is_end_keyword"), (istart, "line_has_indent_start"),
                       (trivia, "is_trivia"), (keyword, "is_keyword"), (varkw, "is_var_keyword"),
                       ([v for v, _ in bstart], "block_start_kind"), ([v for v, _ in bend], "block_end_kind")):
        check_names(lst, where)
    # a keyword kind must lex case-insensitively, otherwise re-casing it would change the token
    fixed = {n: f for n, f, _ in enum}
    for v in keyword:
        f = fixed.get(v, [])
        if not f or not all(ci for _, ci in f):
            raise RuntimeError(f"is_keyword: {v} is not a case-insensitive #[token]")

    L = []
    L.append("/-")
    L.append("GENERATED by checks/c15_translate.py from crates/trust-syntax/src/lexer/tokens.rs and")
    L.append("crates/trust-lsp/src/handlers/formatting.rs -- do not edit; regenerated on every run of check.py C15.")
    L.append("-/")
    L.append("namespace TrustVerif.C15.Gen")
    L.append("")
    L.append("/-- Token classes: every non-keyword `TokenKind` variant, and `Kw` for all keyword variants. -/")
    L.append("inductive K where")
    for k in ks:
        L.append(f"  | {k}")
    L.append("  deriving DecidableEq, Repr, Inhabited")
    L.append("")
    L.append("def K.all : List K := " + lean_list([f".{k}" for k in ks]))
    L.append("")
    L.append("def K.name : K → String")
    for k in ks:
        L.append(f"  | .{k} => {lean_str(k)}")
    L.append("")
    L.append("/-- Class of a `TokenKind` variant name (`format!(\"{:?}\", kind)`). -/")
    L.append("def K.ofName (s : String) : Option K :=")
    L.append("  if allKeywordVariants.contains s then some .Kw else")
    L.append("  match s with")
    for k in plain:
        L.append(f"  | {lean_str(k)} => some .{k}")
    L.append("  | _ => none")
    L.append("where allKeywordVariants : List String := " + lean_list([lean_str(k) for k in kw], 5, "    "))
    L.append("")
    L.append("/-- Text of the variants lexed by a single case-sensitive `#[token(\"..\")]`. -/")
    L.append("def fixedText : K → Option String")
    n_fixed = 0
    for n, f, other in enum:
        if n.startswith("Kw"):
            continue
        if len(f) == 1 and not other and not f[0][1]:
            L.append(f"  | .{n} => some {lean_str(f[0][0])}")
            n_fixed += 1
    L.append("  | _ => none")
    L.append("")

    def klist(name, vs, doc):
        L.append(f"/-- {doc} -/")
        L.append(f"def {name} : List K := " + lean_list([f".{k_of(v, name)}" for v in vs]))
        L.append("")

    def slist(name, vs, doc):
        L.append(f"/-- {doc} -/")
        L.append(f"def {name} : List String := " + lean_list([lean_str(v) for v in vs], 5))
        L.append("")

    klist("symbolicOps", sym, "`is_symbolic_operator`")
    klist("gluePrevCompact", g1, "`should_glue`: second test (compact style, on `prev`)")
    klist("gluePrev", g2, "`should_glue`: third test (on `prev`)")
    klist("glueCur", g3, "`should_glue`: fourth test (on `current`)")
    klist("glueCallCur", g4, "`should_glue`: fifth test (on `current`, with `prev == Ident`)")
    slist("dedentKinds", dedent, "`is_dedent_token`")
    slist("endKeywordKinds", endkw, "`is_end_keyword`")
    slist("indentStartKinds", istart, "`line_has_indent_start`")
    slist("triviaKinds", trivia, "`TokenKind::is_trivia`")
    slist("keywordKinds", keyword, "`TokenKind::is_keyword`")
    slist("varKeywordKinds", varkw, "`TokenKind::is_var_keyword`")
    L.append("/-- `block_start_kind` -/")
    L.append("def blockStart : List (String × String) := " + lean_list([f"({lean_str(a)}, {lean_str(b)})" for a, b in bstart], 3))
    L.append("")
    L.append("/-- `block_end_kind` -/")
    L.append("def blockEnd : List (String × String) := " + lean_list([f"({lean_str(a)}, {lean_str(b)})" for a, b in bend], 3))
    L.append("")
    L.append("/-- `format_profile_overrides`: (profile, indent, insertSpaces, keywordCase, alignVar, alignAsg, maxLen, spacing, endKw) -/")
    L.append("def profiles : List (String × Nat × Bool × String × Bool × Bool × Nat × String × String) := " + lean_list(
        [f"({lean_str(n)}, {r['indent']}, {r['spaces']}, {lean_str(r['case'])}, {r['alignVar']}, {r['alignAsg']}, "
         f"{r['maxLen']}, {lean_str(r['spacing'])}, {lean_str(r['endKw'])})" for n, r in profiles], 1))
    L.append("")
    L.append("end TrustVerif.C15.Gen")
    text = "\n".join(L) + "\n"
    os.makedirs(os.path.dirname(OUT), exist_ok=True)
    if not os.path.exists(OUT) or open(OUT, encoding="utf-8").read() != text:
        with open(OUT, "w", encoding="utf-8") as f:
            f.write(text)
    return {"variants": len(names), "classes": len(ks), "fixed_texts": n_fixed,
            "glue_lists": [len(g1), len(g2), len(g3), len(g4)], "symbolic": len(sym)}


if __name__ == "__main__":
    print(generate())
