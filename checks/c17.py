"""C17 — the debugger is transparent and never wedges the runtime."""

SPEC = {
    "id": "C17",
    "sub": "c17",
    "lean_modules": ["TrustVerif.Props.C17"],
    "tiers": {
        "quick": {"cases": 1500, "extra": {"ops": 60, "rt": 40, "rt_runs": 3, "jobs": 4}},
        "thorough": {"cases": 60000, "extra": {"ops": 80, "rt": 1200, "rt_runs": 4, "rt_all_threads": 1, "jobs": 6}},
    },
    "disagreement_is_violation": True,
    "rule": "TODO",
    "trusted_base": [],
    "assumptions": [],
}

MANIFEST = {
    "technique": "TODO",
    "level_text": "TODO",
    "level_note": "TODO",
}
