"""C17 — the debugger is transparent and never wedges the runtime."""
import os
import re

SPEC = {
    "id": "C17",
    "sub": "c17",
    "lean_modules": ["TrustVerif.Props.C17"],
    "tiers": {
        # cases = layer-1 monitor scripts; rt = layer-2 real-Runtime cases (each: undebugged run, trace
        # run, StepIn-only run(s), rt_runs scripted runs)
        "quick": {"cases": 1500, "extra": {"ops": 60, "rt": 40, "rt_runs": 3, "jobs": 4}},
        "thorough": {"cases": 40000,
                     "extra": {"ops": 80, "rt": 1200, "rt_runs": 4, "rt_all_threads": 1, "jobs": 6}},
    },
    # The compared observables are what the property speaks about (stop notifications with reason,
    # location, thread; whether the cycle thread came back; call depth; program state at every stop
    # and at the end), the model is proved to have the property for every program and interleaving,
    # and a watchdog expiry is itself the violation "a resume did not unblock the cycle".
    "disagreement_is_violation": True,
    "timeout": 5400,
    "rule": "layer 1: case = generated script of 60-80 operations against a real DebugControl (hook calls with "
            "overlapping statement spans in 3 files, depths 0-5, 4 thread ids incl. none; apply_action / pause_entry / "
            "breakpoint edits with hit counts, conditions, logpoints, near-miss spans; from the same thread between hook "
            "calls and from a second thread while the cycle thread sleeps; racy bursts of 2-3 calls; free runs with a "
            "pause fired after a random delay); layer 2: case = generated ST program (2 files, 2-3 programs in 2 tasks + "
            "background, FUNCTION/FB nesting to depth 3, FOR/WHILE/IF/CASE) x generated command scripts incl. "
            "asynchronous pauses. non-trivial = (layer 1) at least 2 stops and at least one call made from the second "
            "thread while the cycle thread slept; (layer 2) call depth >= 1, >= 2 threads and >= 3 step/breakpoint "
            "stops in one scripted run; distinct = by hash of the case's operation lines",
    "trusted_base": [
        "Lean 4.33.0 kernel; axioms per theorem listed under 'theorems'",
        "hand-written model lean/TrustVerif/Model/C17.lean of DebugControl::{new, apply_action, pause_entry, "
        "set_breakpoints_for_file, clear_breakpoints, set_current_thread, on_statement_inner (split at cvar.wait), "
        "emit_stop}, matches_breakpoint and HitCondition::is_met, tied by this run's correspondence (every public "
        "getter of DebugControl is compared after every operation)",
        "std::sync::{Mutex, Condvar, mpsc}: monitor semantics (a critical section is atomic; notify_all wakes the "
        "waiter; spurious wake-ups allowed; the channel is FIFO) and eventual scheduling of a runnable thread",
        "Rust harness vharness c17 (generators, the cycle thread / controller thread choreography, watchdog = 5 s per "
        "wait, the fingerprint of the program state taken from DebugControl::snapshot())",
        "layer 2 takes the statement trace from the implementation itself (breakpoint on every statement); it is "
        "cross-checked against facts that do not come from DebugControl (registered statement locations, static call "
        "level of the enclosing POU, initial state at the first stop, undebugged final state) and against StepIn-only "
        "runs per thread",
        "adapter layer (trust-debug/src/adapter/stop.rs, run_control.rs): model read from the source (the crate "
        "exposes it only through DAP stdio); tied by a source-pattern check and by replaying the listed finding "
        "against the real trust-debug binary over stdio (a race, retried)",
    ],
    "assumptions": [
        "set_current_thread is called by the cycle thread only (as in runtime/cycle.rs)",
        "breakpoint conditions are abstracted to 'evaluates to a fixed boolean when an evaluation context exists' "
        "(layer 2 uses literal TRUE/FALSE conditions); u64 hit / generation counters do not saturate",
        "the user queues no write/force (the property's own exception); writes are modelled as applied only at the "
        "cycle boundary but not exercised against the implementation",
    ],
}

MANIFEST = {
    "technique": "Lean 4 invariant proofs over a labelled transition system of the debugger monitor (atomic steps = "
                 "mutex-protected sections; all programs, all interleavings) + two-layer differential correspondence "
                 "against the real DebugControl and the real Runtime, with a hang watchdog",
    "level_text": "Proved for every program (any statement sequence, locations, call depths, task switches) and every "
                  "interleaving of the cycle thread with controller calls, unbounded: c17_no_wedge (any Continue/Step* "
                  "notifies in its critical section and the woken thread leaves the hook), c17_no_lost_wakeup (a thread "
                  "that sleeps un-notified is in a state where it must sleep; spurious wake-ups are no-ops), "
                  "c17_one_stop_enter / c17_one_stop_wake / c17_restop_only_after_resume / c17_controller_silent "
                  "(parking <-> exactly one stop with the statement's location and thread), c17_step_over_depth / "
                  "c17_step_out_depth / c17_step_origin (a Step stop after StepOver/StepOut is at depth <= origin, "
                  "resp. origin-1), c17_step_in_next, c17_transparent / c17_writes_only_at_boundary. The model is a "
                  "function-by-function transcription of debug/control.rs + breakpoints.rs. Each run drives (1) a real "
                  "DebugControl through generated scripts incl. second-thread calls, racy bursts and free runs, "
                  "comparing every public getter after every operation, and (2) a real Runtime on generated ST "
                  "programs with nested calls, loops and 2-3 tasks under scripted and asynchronous commands, comparing "
                  "every stop (reason, location, thread, generation, depth, position in the statement trace, program "
                  "state fingerprint) and the final state with the undebugged run; any wait that exceeds the watchdog "
                  "is reported as a hang.",
    "level_note": "Claim is at the DebugControl level. Trusted: Lean kernel + standard axioms; the hand-written model "
                  "(validated only by the differential runs, whose generators bound what they see); Mutex/Condvar "
                  "monitor semantics and eventual scheduling (not provable in Lean, exercised by real threads); the "
                  "layer-2 statement trace comes from the implementation (cross-checked statically and by StepIn "
                  "runs). Tested, not proved: that the real interpreter calls the hook once before every statement "
                  "with the right depth, and that the real debugger leaves the real program state alone (final state "
                  "and state at every stop compared with the undebugged run). Not covered: debugger writes/forces, "
                  "watch/condition expressions with side effects, reload, the remote/attach path. Second layer (DAP "
                  "adapter stop filter, modelled from the source): c17_adapter_counterexample refutes 'every runtime "
                  "stop is emitted or followed by a resume' (a breakpoint stop whose generation went stale is dropped "
                  "while the runtime stays parked) - confirmed on the real trust-debug binary over DAP stdio and listed "
                  "in known_findings.json; c17_adapter_told_partial proves the claim for every interleaving under the "
                  "decidable guard that excludes exactly that window. The adapter model is not differentially tested "
                  "beyond that replay.",
}


FINDING_ID = "C17-adapter-stale-generation"


def _dap_binary(tier):
    """Path of the real trust-debug binary (built from /repo's working tree into .build/dap), or None.
    Thorough tier: always (re)built.  Quick tier: only refreshed when it already exists, within 90 s,
    so that a cold checkout keeps the quick tier short."""
    import vlib
    target = os.path.join(vlib.BUILD, "dap")
    binary = os.path.join(target, "debug", "trust-debug")
    if tier != "thorough" and not os.path.exists(binary):
        return None, "trust-debug not built yet (the thorough tier builds it)"
    cmd = ["cargo", "build", "--offline", "--quiet", "--manifest-path", "/repo/Cargo.toml", "-p", "trust-debug",
           "--target-dir", target]
    try:
        rc, log = vlib.sh(cmd, timeout=(1800 if tier == "thorough" else 90))
    except Exception as e:  # timeout
        return None, f"trust-debug build did not finish: {e}"
    if rc != 0:
        return None, "trust-debug does not build: " + log[-300:]
    return binary, ""


def extra(ctx):
    """Coverage figures, the source-level tie of the adapter model, and the replay of the listed
    adapter-layer finding against the real trust-debug binary."""
    import vlib
    from checks import c17_dap
    cases = ctx["cases"]
    hangs = sum(1 for c in cases for (_op, impl) in c.ops if impl.startswith("hang"))
    mon = sum(1 for c in cases if "kind mon" in c.lines)
    rt = sum(1 for c in cases if "kind rt" in c.lines)
    cov = {"layer1_cases": mon, "layer2_cases": rt, "watchdog_expiries": hangs}
    out = {"coverage": cov, "known": []}
    # The adapter model is read from the source: say so if the source no longer looks like the model.
    stop_rs = "/repo/crates/trust-debug/src/adapter/stop.rs"
    frags = [r"pause_expected\.swap\(false", r"if current != Some\(generation\)",
             r"DebugStopReason::Breakpoint \| DebugStopReason::Step"]
    try:
        text = open(stop_rs, encoding="utf-8").read()
        missing = [f for f in frags if not re.search(f, text)]
        cov["adapter_filter_source_matches_model"] = not missing
    except OSError:
        cov["adapter_filter_source_matches_model"] = False
    # Known finding: replay the witness through DAP stdio (a real race: retried, never a failure).
    listed = [f for f in vlib.known_findings("C17") if f.get("id") == FINDING_ID]
    if listed:
        binary, why = _dap_binary(ctx["tier"])
        if binary is None:
            cov["adapter_finding_replay"] = "skipped: " + why
        else:
            try:
                res = c17_dap.replay(binary, vlib.WORK, attempts=(400 if ctx["tier"] == "thorough" else 80),
                                     budget_s=(240 if ctx["tier"] == "thorough" else 45))
            except Exception as e:
                res = {"reproduced": False, "attempts": 0, "detail": f"replay crashed: {e}"}
            cov["adapter_finding_replay"] = res
            if res.get("reproduced"):
                out["known"].append(
                    f"{listed[0]['what']} [{listed[0]['match']}; reproduced over DAP stdio against the real "
                    f"trust-debug binary in {res['attempts']} attempt(s): {res['detail']}]")
    return out
