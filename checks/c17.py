"""C17 — the debugger is transparent and never wedges the runtime."""
import os
import re

SPEC = {
    "id": "C17",
    "sub": "c17",
    "lean_modules": ["TrustVerif.Props.C17"],
    "tiers": {
        # cases = layer-1 monitor scripts; rt = layer-2 real-Runtime cases (each: undebugged run, trace
        # run, StepIn-only run(s), rt_runs scripted runs)
        "quick": {"cases": 1500, "extra": {"ops": 60, "rt": 40, "rt_runs": 3, "jobs": 4}},
        "thorough": {"cases": 40000,
                     "extra": {"ops": 80, "rt": 1200, "rt_runs": 4, "rt_all_threads": 1, "jobs": 6}},
    },
    # The compared observables are what the property speaks about (stop notifications with reason,
    # location, thread; whether the cycle thread came back; call depth; program state at every stop
    # and at the end), the model is proved to have the property for every program and interleaving,
    # and a watchdog expiry is itself the violation "a resume did not unblock the cycle".
    "disagreement_is_violation": True,
    "timeout": 5400,
    "rule": "layer 1: case = generated script of 60-80 operations against a real DebugControl (hook calls with "
            "overlapping statement spans in 3 files, depths 0-5, 4 thread ids incl. none; apply_action / pause_entry / "
            "breakpoint edits with hit counts, conditions, logpoints, near-miss spans; from the same thread between hook "
            "calls and from a second thread while the cycle thread sleeps; racy bursts of 2-3 calls; free runs with a "
            "pause fired after a random delay); layer 2: case = generated ST program (2 files, 2-3 programs in 2 tasks + "
            "background, FUNCTION/FB nesting to depth 3, FOR/WHILE/IF/CASE) x generated command scripts incl. "
            "asynchronous pauses. non-trivial = (layer 1) at least 2 stops and at least one call made from the second "
            "thread while the cycle thread slept; (layer 2) call depth >= 1, >= 2 threads and >= 3 step/breakpoint "
            "stops in one scripted run; distinct = by hash of the case's operation lines",
    "trusted_base": [
        "Lean 4.33.0 kernel; axioms per theorem listed under 'theorems'",
        "hand-written model lean/TrustVerif/Model/C17.lean of DebugControl::{new, apply_action, pause_entry, "
        "set_breakpoints_for_file, clear_breakpoints, set_current_thread, on_statement_inner (split at cvar.wait), "
        "emit_stop}, matches_breakpoint and HitCondition::is_met, tied by this run's correspondence (every public "
        "getter of DebugControl is compared after every operation)",
        "std::sync::{Mutex, Condvar, mpsc}: monitor semantics (a critical section is atomic; notify_all wakes the "
        "waiter; spurious wake-ups allowed; the channel is FIFO) and eventual scheduling of a runnable thread",
        "Rust harness vharness c17 (generators, the cycle thread / controller thread choreography, watchdog = 5 s per "
        "wait, the fingerprint of the program state taken from DebugControl::snapshot())",
        "layer 2 takes the statement trace from the implementation itself (breakpoint on every statement); it is "
        "cross-checked against facts that do not come from DebugControl (registered statement locations, static call "
        "level of the enclosing POU, initial state at the first stop, undebugged final state) and against StepIn-only "
        "runs per thread",
        "adapter layer (trust-debug/src/adapter/stop.rs, run_control.rs): model read from the source (the crate "
        "exposes it only through DAP stdio); tied by a fail-closed source-pattern check and by replaying the witness of the "
        "fixed finding against the real trust-debug binary over stdio on every run (a race, retried)",
    ],
    "assumptions": [
        "set_current_thread is called by the cycle thread only (as in runtime/cycle.rs)",
        "breakpoint conditions are abstracted to 'evaluates to a fixed boolean when an evaluation context exists' "
        "(layer 2 uses literal TRUE/FALSE conditions); u64 hit / generation counters do not saturate",
        "the user queues no write/force (the property's own exception); writes are modelled as applied only at the "
        "cycle boundary but not exercised against the implementation",
    ],
}

MANIFEST = {
    "technique": "Lean 4 invariant proofs over a labelled transition system of the debugger monitor (atomic steps = "
                 "mutex-protected sections; all programs, all interleavings) + two-layer differential correspondence "
                 "against the real DebugControl and the real Runtime, with a hang watchdog",
    "level_text": "Proved for every program (any statement sequence, locations, call depths, task switches) and every "
                  "interleaving of the cycle thread with controller calls, unbounded: c17_no_wedge (any Continue/Step* "
                  "notifies in its critical section and the woken thread leaves the hook), c17_no_lost_wakeup (a thread "
                  "that sleeps un-notified is in a state where it must sleep; spurious wake-ups are no-ops), "
                  "c17_one_stop_enter / c17_one_stop_wake / c17_restop_only_after_resume / c17_controller_silent "
                  "(parking <-> exactly one stop with the statement's location and thread), c17_step_over_depth / "
                  "c17_step_out_depth / c17_step_origin (a Step stop after StepOver/StepOut is at depth <= origin, "
                  "resp. origin-1), c17_step_in_next, c17_transparent / c17_writes_only_at_boundary. The model is a "
                  "function-by-function transcription of debug/control.rs + breakpoints.rs. Each run drives (1) a real "
                  "DebugControl through generated scripts incl. second-thread calls, racy bursts and free runs, "
                  "comparing every public getter after every operation, and (2) a real Runtime on generated ST "
                  "programs with nested calls, loops and 2-3 tasks under scripted and asynchronous commands, comparing "
                  "every stop (reason, location, thread, generation, depth, position in the statement trace, program "
                  "state fingerprint) and the final state with the undebugged run; any wait that exceeds the watchdog "
                  "is reported as a hang.",
    "level_note": "Claim is at the DebugControl level. Trusted: Lean kernel + standard axioms; the hand-written model "
                  "(validated only by the differential runs, whose generators bound what they see); Mutex/Condvar "
                  "monitor semantics and eventual scheduling (not provable in Lean, exercised by real threads); the "
                  "layer-2 statement trace comes from the implementation (cross-checked statically and by StepIn "
                  "runs). Tested, not proved: that the real interpreter calls the hook once before every statement "
                  "with the right depth, and that the real debugger leaves the real program state alone (final state "
                  "and state at every stop compared with the undebugged run). Not covered: debugger writes/forces, "
                  "watch/condition expressions with side effects, reload, the remote/attach path. Second layer (DAP "
                  "adapter stop filter as of d5a9ac8, modelled from the source, fail-closed source-pattern tie): the "
                  "stale-generation wedge (C17-adapter-stale-generation, fixed) is gone - c17_adapter_stale_generation_fixed, "
                  "and its DAP-stdio witness runs against the real trust-debug binary on every check as a regression (a "
                  "reproduction is a violation). The unguarded claim still fails in one residual window "
                  "(c17_adapter_counterexample_residual: a resume request handled while a Breakpoint stop is unprocessed in "
                  "the channel, that stop going stale, then a pause - the dropped stale stop clears pause_expected); "
                  "c17_adapter_told_partial proves the claim for every interleaving, with unrestricted breakpoint changes, "
                  "under the decidable guard that excludes exactly resumes of an undelivered breakpoint stop. The adapter "
                  "model is not differentially tested beyond that replay.",
}


FINDING_ID = "C17-adapter-stale-generation"  # status "fixed" (d5a9ac8); its witness is kept as a regression


def _dap_binary(tier):
    """Builds the real trust-debug binary from /repo's working tree into .build/dap (like the LSP
    binary of C14/C15: rebuilt on every run, warm = a second or two; setup.sh builds it cold)."""
    import vlib
    target = os.path.join(vlib.BUILD, "dap")
    binary = os.path.join(target, "debug", "trust-debug")
    cmd = ["cargo", "build", "--offline", "--quiet", "--manifest-path", os.path.join(vlib.repo_root(), "Cargo.toml"), "-p", "trust-debug",
           "--target-dir", target]
    try:
        rc, log = vlib.sh(cmd, timeout=3600)
    except Exception as e:  # timeout
        return None, f"trust-debug build did not finish: {e}"
    if rc != 0 or not os.path.exists(binary):
        return None, "trust-debug does not build against /repo: " + log[-600:]
    return binary, ""


def extra(ctx):
    """Coverage figures, the source-level tie of the adapter model, and the regression replay of the
    (fixed) adapter-layer finding against the real trust-debug binary: a reproduction is a violation."""
    import vlib
    from checks import c17_dap
    cases = ctx["cases"]
    hangs = sum(1 for c in cases for (_op, impl) in c.ops if impl.startswith("hang"))
    mon = sum(1 for c in cases if "kind mon" in c.lines)
    rt = sum(1 for c in cases if "kind rt" in c.lines)
    cov = {"layer1_cases": mon, "layer2_cases": rt, "watchdog_expiries": hangs}
    out = {"coverage": cov, "known": [], "oracle_failures": [], "failures": []}
    # The adapter model is read from the source: fail closed if the source no longer looks like it.
    stop_rs = os.path.join(vlib.repo_root(), "crates/trust-debug/src/adapter/stop.rs")
    frags = [r"pause_expected\.swap\(false", r"let still_parked = self\.stop_control\.is_paused\(\)",
             r"last\.location == stop\.location", r"last\.thread_id == stop\.thread_id",
             r"last\.breakpoint_generation == stop\.breakpoint_generation",
             r"if current != Some\(generation\) && !still_parked",
             r"DebugStopReason::Breakpoint \| DebugStopReason::Step"]
    try:
        text = open(stop_rs, encoding="utf-8").read()
        missing = [f for f in frags if not re.search(f, text)]
    except OSError as e:
        missing = [str(e)]
    cov["adapter_filter_source_matches_model"] = not missing
    if missing:
        out["failures"].append("adapter model (shouldEmitStop/stillParkedOn) no longer matches "
                               "trust-debug/src/adapter/stop.rs: missing " + "; ".join(missing))
    # Regression witness of C17-adapter-stale-generation through DAP stdio (a real race: retried).
    binary, why = _dap_binary(ctx["tier"])
    if binary is None:
        cov["adapter_regression_replay"] = "not run: " + why
        out["failures"].append(why)
        return out
    thorough = ctx["tier"] == "thorough"
    try:
        res = c17_dap.replay(binary, vlib.WORK, attempts=(600 if thorough else 120),
                             budget_s=(240 if thorough else 40))
    except Exception as e:
        res = {"reproduced": False, "attempts": 0, "detail": f"replay crashed: {e}"}
    cov["adapter_regression_replay"] = res
    if res.get("reproduced"):
        out["oracle_failures"].append({
            "what": "adapter layer: a breakpoint stop was dropped while the runtime stayed parked on it "
                    "(regression of C17-adapter-stale-generation, fixed in d5a9ac8)",
            "witness": "checks/c17_dap.py: at every breakpoint stop send `continue` and `setBreakpoints` (same "
                       "file, same lines) in one write",
            "observed": res["detail"], "attempts": res["attempts"], "seed": ctx["seed"], "tier": ctx["tier"],
            "expected": "every breakpoint hit is followed by a `stopped` event (c17_adapter_told_partial; the "
                        "witness run satisfies its guard)",
        })
    elif res.get("attempts", 0) == 0:
        out["failures"].append("adapter regression replay did not run: " + str(res.get("detail")))
    return out


def replay(obj):
    """`check.py C17 --replay f`: a model-vs-implementation case is re-run through the standard path;
    an adapter regression witness is re-run through DAP stdio."""
    import json as _json
    import vlib
    import check
    from checks import c17_dap
    import sys as _sys
    if obj.get("kind") == "oracle-on-implementation":
        binary, why = _dap_binary("thorough")
        if binary is None:
            print(why)
            return 1
        res = c17_dap.replay(binary, vlib.WORK, attempts=600, budget_s=240)
        print(_json.dumps(res, indent=1))
        print("replay:", "still fails" if res.get("reproduced") else "passes")
        return 1 if res.get("reproduced") else 0
    if "case" not in obj:
        print(_json.dumps(obj, indent=1))
        print("this replay names a broken obligation, not an input; re-run the check itself")
        return 1
    mod = _sys.modules[__name__]
    r = check.standard_run(mod, obj.get("tier", "quick"), obj["seed"], only=obj["case"])
    for d in r["disagreements"]:
        print(f"case {d['case']} op {d['op_index']}: {d['op']}\n  impl : {d['impl']}\n  model: {d['model']}")
    bad = r["disagreements"] or [f for f in r["failures"]]
    print("replay:", "still fails" if bad else "passes")
    return 1 if bad else 0
