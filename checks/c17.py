"""C17 — the debugger is transparent and never wedges the runtime."""

SPEC = {
    "id": "C17",
    "sub": "c17",
    "lean_modules": ["TrustVerif.Props.C17"],
    "tiers": {
        "quick": {"cases": 1500, "extra": {"ops": 60, "rt": 40}},
        "thorough": {"cases": 60000, "extra": {"ops": 80, "rt": 1000}},
    },
    "disagreement_is_violation": True,
    "rule": "TODO",
    "trusted_base": [],
    "assumptions": [],
}

MANIFEST = {
    "technique": "TODO",
    "level_text": "TODO",
    "level_note": "TODO",
}
