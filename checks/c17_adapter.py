"""C17, adapter layer: generated DAP sessions against the real `trust-debug` binary in which stops are
queued behind the adapter's stop gate while the client sends setBreakpoints / continue / pause / step
requests in every order.

How an interleaving is forced from outside (no hook in /repo):
  * the request thread holds a stop-gate token from the handler of continue / pause / next / stepIn /
    stepOut until the end of its loop iteration, i.e. until the response has been written to stdout;
  * the client gives the adapter a 4096-byte stdout pipe, fills it (responses to unsupported commands
    echo the command name, so a response of any size can be ordered) until fewer bytes are free than
    the next response needs, and then sends the gate-taking request G: the request thread blocks in
    the write of G's response WITH THE GATE CLOSED.  The runtime, resumed by G, runs into its next
    stop; the coordinator receives it and waits at the gate ("queued behind the gate");
  * the following requests X1..Xk are written to stdin and only then the pipe is drained: the request
    thread finishes G and handles X1..Xk back to back.  A second filler placed before the last
    resume request among them makes the request thread block again, gate closed, AFTER that resume
    was handled, which proves that the coordinator examined the queued stop only afterwards;
  * the adapter runs on one CPU under SCHED_BATCH (no wake-up preemption), which makes "back to back"
    hold in practice; nothing below relies on it for soundness.

What is judged: the adapter's own transcript (ST_DEBUG_DAP_LOG: requests, responses, and the
coordinator's `recv` / `emit` / `drop` lines, written in real order under one lock) is linearised.
Whatever the transcript does not order is left open: a stop (`recv` line) and a coordinator decision
may have happened earlier than their transcript line, but not earlier than a *marker* (a moment at
which the client saw the request thread blocked or idle for >= 40 ms with that line still missing: a
runnable coordinator would have written it) and a decision not earlier than its own `recv` line.  The
Lean adapter model (`astep`: handle_pause / handle_continue / step handlers / setBreakpoints /
`coord` = shouldEmitStop + stillParkedOn) is run on every admissible linearisation; the round passes
when one of them reproduces every real decision (emit / drop of each stop, "pause ignored" /
"pause requested").  No admissible linearisation = the real adapter decided something the model
cannot: VIOLATION with the round as replay.  On top, the property's own statement is evaluated on
the implementation: when the runtime is parked at the end of a round (probe: `pause` is answered
"already paused"), the stop it is parked on must have been announced (tested, not proved).
"""
import array
import fcntl
import json
import os
import random
import re
import select
import subprocess
import shutil
import tempfile
import termios
import time

F_SETPIPE_SZ = 1031
PIPE = 4096
HOLD1 = 0.040
HOLD2 = 0.050

PROGRAM = """FUNCTION Bump : DINT
VAR_INPUT
    x : DINT;
END_VAR
    Bump := x + 1;
END_FUNCTION

PROGRAM Main
VAR
    a : DINT := 0;
    i : DINT;
END_VAR
    a := a + 1;
    a := Bump(a);
    a := a + 2;
    FOR i := 1 TO 12000 DO a := a + 1; END_FOR;
    a := a + 3;
    a := a + 4;
    a := Bump(a);
    FOR i := 1 TO 12000 DO a := a + 1; END_FOR;
    a := a + 5;
    a := a + 6;
END_PROGRAM
"""
# Statement lines come in runs (13-15, 17-19, 21-22) separated by long loops: after a resume from
# the last line of a run the runtime is busy for a while before it can stop again.
BPSETS = {"all": [5, 13, 14, 15, 17, 18, 19, 21, 22], "half": [13, 15, 18, 21], "one": [18], "empty": []}
RESUMES = ("cont", "in", "over", "out")
DAPCMD = {"cont": "continue", "in": "stepIn", "over": "next", "out": "stepOut", "pause": "pause"}


class Adapter:
    def __init__(self, binary, log, cpu):
        def pre():
            try:
                os.sched_setaffinity(0, {cpu})
                os.sched_setscheduler(0, os.SCHED_BATCH, os.sched_param(0))
            except Exception:
                pass
        env = dict(os.environ, ST_DEBUG_DAP_LOG=log)
        env.pop("ST_DEBUG_DAP_VERBOSE", None)
        self.p = subprocess.Popen([binary], stdin=subprocess.PIPE, stdout=subprocess.PIPE,
                                  stderr=subprocess.DEVNULL, preexec_fn=pre, env=env, bufsize=0)
        self.fd = self.p.stdout.fileno()
        fcntl.fcntl(self.fd, F_SETPIPE_SZ, PIPE)
        self.seq = 100000
        self.buf = b""
        self.stream = []     # every message read from stdout, in order
        self.cursor = 0      # wait_for has looked at stream[:cursor]
        self.sent = {}       # seq -> our name of the request
        self.log = log
        self.log_pos = 0
        self.log_lines = []

    def frame(self, name, command, arguments=None):
        self.seq += 1
        self.sent[self.seq] = name
        msg = {"seq": self.seq, "type": "request", "command": command}
        if arguments is not None:
            msg["arguments"] = arguments
        b = json.dumps(msg).encode()
        return b"Content-Length: %d\r\n\r\n" % len(b) + b

    def send(self, *frames):
        self.p.stdin.write(b"".join(frames))
        self.p.stdin.flush()

    def avail(self):
        a = array.array("i", [0])
        fcntl.ioctl(self.fd, termios.FIONREAD, a)
        return a[0]

    def pump(self, timeout):
        out = []
        r, _, _ = select.select([self.fd], [], [], timeout)
        if r:
            d = os.read(self.fd, 1 << 16)
            if not d:
                raise EOFError("adapter closed stdout")
            self.buf += d
        while True:
            i = self.buf.find(b"\r\n\r\n")
            if i < 0:
                break
            n = int(self.buf[:i].split(b":")[1])
            if len(self.buf) < i + 4 + n:
                break
            m = json.loads(self.buf[i + 4:i + 4 + n])
            m["_size"] = i + 4 + n
            out.append(m)
            self.buf = self.buf[i + 4 + n:]
        self.stream += out
        return out

    def wait_for(self, pred, timeout):
        """First message at or after the cursor that satisfies pred (messages are never skipped)."""
        end = time.time() + timeout
        while True:
            while self.cursor < len(self.stream):
                m = self.stream[self.cursor]
                self.cursor += 1
                if pred(m):
                    return m
            if time.time() >= end:
                return None
            self.pump(min(0.02, max(0.001, end - time.time())))

    def quiesce(self, idle=0.12, maxt=3.0):
        end = time.time() + maxt
        last = time.time()
        while time.time() < end and time.time() - last < idle:
            if self.pump(0.01):
                last = time.time()

    def read_log(self):
        """Appends the complete new transcript lines; returns the total number of lines."""
        try:
            with open(self.log, "rb") as f:
                f.seek(self.log_pos)
                data = f.read()
        except OSError:
            return len(self.log_lines)
        k = data.rfind(b"\n")
        if k >= 0:
            self.log_pos += k + 1
            self.log_lines += data[:k].decode(errors="replace").split("\n")
        return len(self.log_lines)

    def close(self):
        try:
            self.p.kill()
            self.p.wait(timeout=5)
        except Exception:
            pass
        for f in (self.p.stdin, self.p.stdout):
            try:
                f.close()
            except Exception:
                pass


def is_stopped(m):
    return m.get("type") == "event" and m.get("event") == "stopped"


class Session:
    def __init__(self, binary, workdir, tag, cpu):
        # the launch loads every source next to the program: a directory of its own
        # (and not below work/: the launch of checks/c17_dap.py loads work/ recursively)
        self.srcdir = tempfile.mkdtemp(prefix="c17_adapter_src_")
        self.prog = os.path.join(self.srcdir, "prog.st")
        with open(self.prog, "w") as f:
            f.write(PROGRAM)
        log = os.path.join(workdir, f"c17_adapter_{tag}.log")
        if os.path.exists(log):
            os.remove(log)
        self.a = Adapter(binary, log, cpu)
        self.base = None      # bytes of a response to an unsupported command, minus the name
        self.sizes = {}       # request name -> bytes the request thread wrote for it last time
        self.gen = 1          # breakpoint generation of file 0 (the launch applies the pending set: 1)
        self.bps = None
        self.last_stop = None
        self.body = {}        # request name -> size of the response (header + body) seen last

    def req(self, name):
        a = self.a
        if name.startswith("setbps:"):
            lines = BPSETS[name.split(":")[1]]
            return a.frame(name, "setBreakpoints",
                           {"source": {"path": self.prog}, "breakpoints": [{"line": l} for l in lines]})
        if name == "threads":
            return a.frame(name, "threads")
        return a.frame(name, DAPCMD[name], {"threadId": 1})

    def start(self):
        a = self.a
        a.send(a.frame("initialize", "initialize", {"adapterID": "trust", "linesStartAt1": True,
                                                     "columnsStartAt1": True}))
        if not a.wait_for(lambda m: m.get("command") == "initialize", 10):
            return "adapter did not answer initialize"
        a.send(a.frame("launch", "launch", {"program": self.prog, "stopOnEntry": False}))
        a.send(self.req("setbps:all"))
        if not a.wait_for(lambda m: m.get("command") == "setBreakpoints", 10):
            return "no setBreakpoints response"
        a.send(a.frame("configurationDone", "configurationDone"))
        if not a.wait_for(is_stopped, 15):
            return "no first breakpoint stop"
        a.quiesce()
        # warm-up: one request of every kind, alone, to learn how many bytes the request thread writes for it
        s0 = len(a.stream)
        for name in ("setbps:half", "setbps:one", "setbps:empty", "setbps:all", "in", "over", "out", "cont", "pause"):
            a.send(self.req(name))
            if name.startswith("setbps:"):
                self.gen += 1
            if name in ("in", "over", "out", "cont"):
                if not a.wait_for(is_stopped, 5):
                    return "no stop after " + name
            a.quiesce(idle=0.03)
        self.learn_sizes(s0)
        a.quiesce()
        a.read_log()
        for line in a.log_lines:
            if "[trust-debug][stop] action=recv" in line:
                self.last_stop = parse_stop(line)
        self.bps = "all"
        return None

    # ---- pipe control -------------------------------------------------------------------------
    def fill(self):
        """Fills the (empty) stdout pipe so that 20..70 bytes are free and the request thread is idle."""
        a = self.a
        if a.avail() != 0 or a.buf:
            return False
        big = 3300
        a.send(a.frame("filler", "x" * big))
        t = time.time()
        while a.avail() < big and time.time() - t < 2:
            time.sleep(0.0005)
        time.sleep(0.002)
        n = a.avail()
        self.base = n - big
        name_len = (PIPE - n) - 40 - self.base
        if name_len < 1:
            return False
        a.send(a.frame("filler", "y" * name_len))
        t = time.time()
        while a.avail() == n and time.time() - t < 1:
            time.sleep(0.0005)
        time.sleep(0.002)
        free = PIPE - a.avail()
        return 0 <= free <= 75

    def blocked_in(self, seq):
        """The request thread logged the response to request `seq` and nothing of a later request."""
        a = self.a
        a.read_log()
        last_req = None
        resp = False
        for line in reversed(a.log_lines[-60:]):
            if line.startswith("<- "):
                try:
                    last_req = json.loads(line[3:]).get("seq")
                except ValueError:
                    last_req = None
                break
        if last_req != seq:
            return False
        for line in reversed(a.log_lines[-60:]):
            if line.startswith("-> ") and f'"request_seq":{seq},' in line:
                resp = True
                break
        return resp

    def learn_sizes(self, start):
        """Bytes the request thread wrote per request (response + its own events), from the stream."""
        cur = None
        for m in self.a.stream[start:]:
            if m.get("type") == "response":
                cur = self.a.sent.get(m.get("request_seq"))
                if cur:
                    self.sizes[cur] = m["_size"]
                    self.body[cur] = m["_size"]
            elif cur and m.get("type") == "event":
                out = (m.get("body") or {}).get("output", "") if m.get("event") == "output" else None
                if m.get("event") in ("stopped", "invalidated", "stIoState") or \
                        (out is not None and out.startswith("[trust-debug] stopped:")):
                    continue
                self.sizes[cur] += m["_size"]

    # ---- one round ----------------------------------------------------------------------------
    def round(self, script):
        """script: {"pre": [...], "G": name, "X": [...], "hold2": index into X or None}.
        Returns a record with the transcript slice, the markers and what the client saw."""
        a = self.a
        a.quiesce(idle=0.05)
        log0 = a.read_log()
        stream0 = len(a.stream)
        rec = {"script": script, "gen0": self.gen, "last0": self.last_stop, "markers": [], "notes": []}
        if script["pre"]:
            for name in script["pre"]:
                a.send(self.req(name))
            a.quiesce(idle=0.10)
            rec["markers"].append(a.read_log())
        if not self.fill():
            rec["notes"].append("fill failed")
            a.quiesce()
            a.read_log()
            rec["skipped"] = True
            return self.finish(rec, log0, stream0)
        full = a.avail()
        g = self.req(script["G"])
        gseq = a.seq
        a.send(g)
        time.sleep(HOLD1)
        held = self.blocked_in(gseq) and 0 <= a.avail() - full <= 30
        n1 = a.read_log()
        rec["held1"] = held
        if held:
            rec["markers"].append(n1)
        # the rest of the batch; a second filler before the chosen resume request
        frames = []
        target_seq = None
        h2 = script.get("hold2")
        used = self.body.get(script["G"], 140) - 23
        predictable = True
        for i, name in enumerate(script["X"]):
            if h2 is not None and i == h2:
                if predictable and self.base:
                    name_len = PIPE - used - 55 - self.base
                    if name_len >= 1:
                        frames.append(a.frame("filler", "z" * name_len))
                        frames.append(self.req(name))
                        target_seq = a.seq
                        continue
                rec["notes"].append("hold2 not attempted")
            if name not in self.sizes:
                predictable = False
            used += self.sizes.get(name, 0)
            frames.append(self.req(name))
        if frames:
            a.send(*frames)
        time.sleep(0.002)
        # drain: the request thread finishes G's iteration and runs through the batch
        a.pump(0.0)
        if target_seq is not None:
            t = time.time()
            ok = False
            while time.time() - t < 0.25:
                if PIPE - a.avail() < 110 and a.avail() > 3000:
                    time.sleep(0.004)
                    if self.blocked_in(target_seq):
                        ok = True
                        break
                time.sleep(0.001)
            if ok:
                before = a.avail()
                time.sleep(HOLD2)
                ok = self.blocked_in(target_seq) and a.avail() == before
                n2 = a.read_log()
                if ok:
                    rec["markers"].append(n2)
            rec["held2"] = ok
        a.quiesce(idle=0.09)
        return self.finish(rec, log0, stream0)

    def finish(self, rec, log0, stream0):
        a = self.a
        rec["markers"].append(a.read_log())
        # probe: is the runtime parked?  (`pause` is ignored when it is; otherwise it parks it)
        a.cursor = len(a.stream)
        a.send(self.req("pause"))
        pseq = a.seq
        m = a.wait_for(lambda m: m.get("type") == "event" and m.get("event") == "output"
                       and "[trust-debug] pause " in ((m.get("body") or {}).get("output") or ""), 5)
        text = ((m or {}).get("body") or {}).get("output", "").strip()
        rec["probe"] = text
        if "pause requested" in text:
            s = a.wait_for(is_stopped, 4)
            rec["probe_stop"] = bool(s)
        a.quiesce(idle=0.10)
        a.read_log()
        rec["probe_seq"] = pseq
        rec["log"] = a.log_lines[log0:]
        rec["log0"] = log0
        rec["markers"] = [k - log0 for k in rec["markers"]]
        rec["names"] = {str(k): v for k, v in a.sent.items()}
        self.learn_sizes(stream0)
        # bookkeeping for the next round
        for line in rec["log"]:
            if line.startswith("<- "):
                try:
                    q = json.loads(line[3:])
                except ValueError:
                    continue
                nm = a.sent.get(q.get("seq"), "")
                if nm.startswith("setbps:"):
                    self.gen += 1
                    self.bps = nm.split(":")[1]
            elif "[trust-debug][stop] action=recv" in line:
                self.last_stop = parse_stop(line)
        return rec


STOP_RE = re.compile(r"action=(\w+) reason=(\w+) thread=(\S+) bp_gen=(\S+) location=(\S+) detail=(.*)$")


def _opt(s):
    m = re.match(r"Some\((\d+)\)$", s)
    return m.group(1) if m else "-"


def parse_stop(line):
    m = STOP_RE.search(line)
    if not m:
        return None
    _act, reason, thread, gen, loc, _d = m.groups()
    r = {"breakpoint": "B", "step": "S", "pause": "P", "entry": "E"}[reason]
    lm = re.match(r"(\d+):(\d+)\.\.(\d+)$", loc)
    l = f"{lm.group(1)}:{lm.group(2)}:{lm.group(3)}" if lm else "-"
    return f"{r}/{l}/{_opt(thread)}/{_opt(gen)}"


# ---- linearisation ---------------------------------------------------------------------------------

def tokens_of(rec):
    """Transcript -> tokens in transcript order.
    ("M", name, answer|None) request handled by the request thread (answer for pause),
    ("mark",) marker, ("recv", k) the coordinator logged stop k, ("hit", k, stop) the runtime produced
    stop k (placed at its recv line; movable), ("coord", k, "emit"|"drop") decision (movable)."""
    toks = []
    names = rec["names"]
    marks = sorted(set(rec["markers"]))
    pending_pause = []   # indices of M tokens of pause requests waiting for their output line
    hits = 0
    decided = 0
    for i, line in enumerate(rec["log"]):
        while marks and marks[0] <= i:
            toks.append(("mark", len(toks)))
            marks.pop(0)
        if line.startswith("<- "):
            try:
                q = json.loads(line[3:])
            except ValueError:
                continue
            nm = names.get(str(q.get("seq")), "?")
            if nm in RESUMES or nm == "pause" or nm.startswith("setbps:"):
                toks.append(["M", nm, None])
                if nm == "pause":
                    pending_pause.append(len(toks) - 1)
        elif line.startswith("-> ") and "[trust-debug] pause " in line and pending_pause:
            k = pending_pause.pop(0)
            toks[k][2] = "ignored" if "pause ignored" in line else "requested"
        elif "[trust-debug][stop] action=" in line:
            m = STOP_RE.search(line)
            if not m:
                continue
            if m.group(1) == "recv":
                toks.append(("hit", hits, parse_stop(line)))
                toks.append(("recv", hits))
                hits += 1
            elif m.group(1) in ("emit", "drop"):
                toks.append(("coord", decided, m.group(1), parse_stop(line), m.group(6)))
                decided += 1
    while marks:
        toks.append(("mark", len(toks)))
        marks.pop(0)
    return [tuple(t) for t in toks]


def linearisations(toks, cap=400):
    """All orders obtained by moving `hit` and `coord` tokens earlier: not across a marker, a hit not
    across the previous hit, a decision not across its own `recv` line nor the previous decision."""
    out = []
    base = {t: i for i, t in enumerate(toks)}
    coord_at = {t[1]: i for i, t in enumerate(toks) if t[0] == "coord"}

    def lo_of(seq, idx):
        t = seq[idx]
        lo = 0
        for j in range(idx - 1, -1, -1):
            u = seq[j]
            if u[0] == "mark":
                # a stop is logged (`recv`) as soon as the coordinator is idle: the marker bounds the hit
                # only when the coordinator had decided the previous stop before the marker
                if t[0] == "hit" and t[1] > 0 and coord_at.get(t[1] - 1, 1 << 30) > base[u]:
                    continue
                lo = j + 1
                break
            if t[0] == "hit" and u[0] == "hit":
                lo = j + 1
                break
            if t[0] == "coord" and (u[0] == "coord" or (u[0] == "recv" and u[1] == t[1])):
                lo = j + 1
                break
        return lo

    movable = [i for i, t in enumerate(toks) if t[0] in ("hit", "coord")]

    def rec(seq, k):
        if len(out) >= cap:
            return
        if k == len(movable):
            out.append(seq)
            return
        # position of the k-th movable token in seq (identity by token value)
        tok = toks[movable[k]]
        idx = seq.index(tok)
        lo = lo_of(seq, idx)
        for pos in range(idx, lo - 1, -1):
            s2 = list(seq)
            s2.pop(idx)
            s2.insert(pos, tok)
            rec(s2, k + 1)

    rec(list(toks), 0)
    # the transcript order first, duplicates removed
    seen, uniq = set(), []
    for s in out:
        key = tuple(s)
        if key not in seen:
            seen.add(key)
            uniq.append(s)
    return uniq


def case_lines(rec, seq):
    """Driver ops + the real answers for one linearisation."""
    last0 = rec["last0"] or "-"
    gens = f"0:{rec['gen0']}" if rec["gen0"] else "-"
    lines = [("ainit P 0 %s %s" % (gens, last0), "ok")]
    for t in seq:
        if t[0] == "M":
            nm = t[1]
            if nm.startswith("setbps:"):
                lines.append(("areq setbps 0", "-"))
            elif nm == "pause":
                lines.append(("areq pause", t[2] or "?"))
            else:
                lines.append((f"areq {nm}", "-"))
        elif t[0] == "hit":
            lines.append((f"ahit {t[2]}", "ok"))
        elif t[0] == "coord":
            lines.append(("acoord", f"{t[2]} {t[3]}"))
    lines.append(("aend", None))
    return lines


# ---- generator --------------------------------------------------------------------------------------

def gen_script(rng, bps):
    pre = []
    if rng.random() < 0.22:
        pre = ["setbps:empty", "cont"]
        g = "pause"
    else:
        if bps != "all" and rng.random() < 0.8:
            pre = ["setbps:all"]
        g = rng.choice(["cont", "cont", "cont", "in", "over", "out"])
    n = rng.choice([0, 1, 2, 2, 3, 3])
    pool = ["setbps:all", "setbps:all", "setbps:half", "setbps:one", "setbps:empty", "setbps:empty",
            "cont", "cont", "cont", "in", "over", "out", "pause", "pause"]
    xs = [rng.choice(pool) for _ in range(n)]
    if rng.random() < 0.45 and g != "pause":
        # the family "a stop is queued, breakpoints are edited, then the client resumes" in every variant
        if rng.random() < 0.7:
            g = "cont"
        xs = [rng.choice(["setbps:all", "setbps:half", "setbps:one", "setbps:empty"]),
              rng.choice(["cont", "cont", "in", "over", "out"])] + xs[:rng.choice([0, 0, 1])]
        if rng.random() < 0.3:
            xs.insert(0, rng.choice(["setbps:all", "setbps:empty", "pause"]))
    h2 = None
    res = [i for i, x in enumerate(xs) if x in RESUMES]
    if res and rng.random() < 0.85:
        h2 = res[-1] if rng.random() < 0.75 else rng.choice(res)
    return {"pre": pre, "G": g, "X": xs, "hold2": h2}


# ---- judging ----------------------------------------------------------------------------------------

def judge(records, driver, workdir, tag):
    """Runs the Lean model on every admissible linearisation of every round.  Returns (per-round
    verdicts, stats)."""
    path = os.path.join(workdir, f"c17_adapter_{tag}.cases.txt")
    index = []
    with open(path, "w") as f:
        n = 0
        for ri, rec in enumerate(records):
            toks = tokens_of(rec)
            rec["tokens"] = toks
            cands = linearisations(toks)
            rec["candidates"] = len(cands)
            for ci, seq in enumerate(cands):
                lines = case_lines(rec, seq)
                f.write(f"case {n}\nkind ad\n")
                for op, impl in lines:
                    f.write(op + "\n")
                    if impl is not None:
                        f.write(f"impl {impl}\n")
                f.write("end\n")
                index.append((ri, ci, lines))
                n += 1
    p = subprocess.run([driver, "c17"], stdin=open(path, "rb"), stdout=subprocess.PIPE, stderr=subprocess.PIPE,
                       timeout=600)
    out = p.stdout.decode(errors="replace").split("\n")
    if p.returncode != 0:
        raise RuntimeError("driver failed: " + p.stderr.decode(errors="replace")[-400:])
    pos = 0
    verdict = {}
    for ri, ci, lines in index:
        ans = out[pos:pos + len(lines)]
        pos += len(lines)
        ok = True
        why = None
        for (op, impl), m in zip(lines, ans):
            if m == "bad-op" or not m.startswith("m "):
                raise RuntimeError(f"driver protocol: op {op!r} answered {m!r}")
            if impl is None:
                continue
            if m[2:] != impl:
                ok = False
                why = {"op": op, "impl": impl, "model": m[2:]}
                break
        v = verdict.setdefault(ri, {"accepted": None, "first": None})
        if ci == 0:
            v["first"] = {"why": why, "ops": [(op, impl) for op, impl in lines], "model": [m[2:] for m in ans]}
        if ok and v["accepted"] is None:
            v["accepted"] = {"candidate": ci, "end": ans[-1][2:]}
        if ok and "told=1" in ans[-1]:
            # some order the transcript admits ends with the client told (a `stopped` event after its last
            # continue/step request): the statement of c17_adapter_told_partial holds on this round
            v["any_told"] = True
    return verdict


def run(binary, driver, workdir, seed, sessions, rounds, budget_s, scripts=None):
    """Generated sessions.  Returns {"rounds", "failures": [...], "stats": {...}}."""
    t0 = time.time()
    stats = {"rounds": 0, "held_behind_gate": 0, "held_twice": 0, "stops": 0, "drops": 0, "emits": 0,
             "stale_emitted_while_parked": 0, "stale_dropped_after_resume": 0, "candidates": 0,
             "skipped": 0, "late_announcements": 0}
    failures = []
    cpus = sorted(os.sched_getaffinity(0))
    all_records = []
    for si in range(sessions):
        if time.time() - t0 > budget_s:
            break
        rng = random.Random(f"c17-adapter-{seed}-{si}")
        cpu = cpus[rng.randrange(len(cpus))]
        tag = f"s{seed}_{si}"
        sess = Session(binary, workdir, tag, cpu)
        records = []
        try:
            err = sess.start()
            if err:
                failures.append({"what": "adapter session did not start: " + err, "seed": seed, "session": si,
                                 "kind": "infrastructure"})
                continue
            plan = scripts[si] if scripts else None
            for ri in range(len(plan) if plan else rounds):
                if time.time() - t0 > budget_s:
                    break
                script = plan[ri] if plan else gen_script(rng, sess.bps)
                rec = sess.round(script)
                rec["session"] = si
                rec["round"] = ri
                records.append(rec)
                if "probe_stop" in rec and not rec["probe_stop"]:
                    # the runtime did not answer a pause with a stop the client saw: resynchronise in a new session
                    break
        except (EOFError, OSError, ValueError) as e:
            failures.append({"what": f"adapter session broke: {e!r}", "seed": seed, "session": si,
                             "kind": "infrastructure"})
        finally:
            sess.a.close()
            shutil.rmtree(sess.srcdir, ignore_errors=True)
        all_records += records
    verdicts = judge(all_records, driver, workdir, f"s{seed}") if all_records else {}
    try:
        with open(os.path.join(workdir, f"c17_adapter_s{seed}.records.json"), "w") as f:
            json.dump(all_records, f)
    except (OSError, TypeError):
        pass
    for ri, rec in enumerate(all_records):
        stats["rounds"] += 1
        if rec.get("skipped"):
            stats["skipped"] += 1
        if rec.get("held1"):
            stats["held_behind_gate"] += 1
        if rec.get("held2"):
            stats["held_twice"] += 1
        stats["candidates"] += rec.get("candidates", 0)
        toks = rec["tokens"]
        resumed_since_hit = {}
        last_hit = None
        for t in toks:
            if t[0] == "hit":
                stats["stops"] += 1
                last_hit = t[1]
            elif t[0] == "M" and t[1] in RESUMES and last_hit is not None:
                resumed_since_hit[last_hit] = True
            elif t[0] == "coord":
                stats["emits" if t[2] == "emit" else "drops"] += 1
                if t[2] == "drop" and "generation mismatch" in t[4] and resumed_since_hit.get(t[1]):
                    stats["stale_dropped_after_resume"] += 1
                if t[2] == "emit" and resumed_since_hit.get(t[1]):
                    stats["late_announcements"] += 1
        v = verdicts.get(ri, {"accepted": None, "first": None})
        where = {"seed": seed, "session": rec["session"], "round": rec["round"], "script": rec["script"],
                 "state_before": {"mode": "parked, announced", "generation_file0": rec["gen0"],
                                  "parked_on": rec["last0"]},
                 "held_behind_gate": rec.get("held1"), "second_hold": rec.get("held2"),
                 "transcript": [l[:230] for l in rec["log"] if not ('"command":"xxx' in l or '"command":"yyy' in l
                                                                     or '"command":"zzz' in l or '"command": "xxx' in l
                                                                     or '"command": "yyy' in l or '"command": "zzz' in l)][:80]}
        if v["accepted"] is None:
            first = v["first"] or {}
            failures.append({
                "kind": "model-vs-adapter",
                "what": "adapter layer: the real trust-debug adapter decided what the model (handle_* + "
                        "shouldEmitStop/stillParkedOn) cannot decide in any linearisation the transcript admits",
                "disagreement_in_transcript_order": first.get("why"),
                "linearisations_tried": rec.get("candidates"),
                "ops_in_transcript_order": first.get("ops"), **where})
            continue
        # the property's own statement on the implementation: a parked runtime has been announced
        parked_end = "pause ignored" in (rec.get("probe") or "")
        decisions = {t[1]: t[2] for t in toks if t[0] == "coord"}
        hits = [t for t in toks if t[0] == "hit"]
        if parked_end and hits:
            lh = hits[-1]
            # The statement judged is the one the theorem states (ASys.told): a runtime parked for good has been
            # announced by a `stopped` event after the client's last continue/step request.  That event may belong
            # to an earlier Pause stop of the same kind examined late (the event carries reason and thread only;
            # the client asks for the location afterwards), so a dropped LAST stop alone is not a failure.
            if decisions.get(lh[1]) != "emit" and not v.get("any_told"):
                # Known residual window (c17_adapter_counterexample_residual): the unannounced stop is a Pause
                # stop dropped for "pause/entry without pause_expected", and between the accepted `pause`
                # request and that drop the coordinator examined a Breakpoint/Step stop of an earlier halt
                # (which stores pause_expected = false).  Exactly that is classified; anything else is not.
                known = False
                ck = [i for i, t in enumerate(toks) if t[0] == "coord" and t[1] == lh[1]]
                if lh[2].startswith("P/") and ck and "without pause_expected" in toks[ck[0]][4]:
                    pj = [i for i, t in enumerate(toks[:ck[0]]) if t[0] == "M" and t[1] == "pause" and t[2] == "requested"]
                    if pj and any(t[0] == "coord" and t[3][:2] in ("B/", "S/") for t in toks[pj[-1]:ck[0]]):
                        known = True
                failures.append({
                    "kind": "known-residual" if known else "parked-unannounced",
                    "what": "adapter layer: the runtime is parked on a stop that was never announced to the client "
                            "(`pause` is answered 'already paused', no `stopped` event for that stop)",
                    "stop": lh[2], "decision": decisions.get(lh[1], "none"), "model_end": v["accepted"]["end"], **where})
        if "probe_stop" in rec and not rec["probe_stop"]:
            failures.append({
                "kind": "pause-unannounced",
                "what": "adapter layer: a `pause` request was accepted ('pause requested') and no `stopped` event "
                        "followed within 4 s", "model_end": v["accepted"]["end"], **where})
    stats["wall_s"] = round(time.time() - t0, 1)
    return {"failures": failures, "stats": stats, "records": len(all_records)}
