"""Regression replay of the (fixed, d5a9ac8) C17 adapter-layer finding against the real `trust-debug`
binary over DAP stdio.  What follows describes the behaviour BEFORE the fix.

Witness (known_findings.json, id C17-adapter-stale-generation): at a breakpoint stop the client sends
`continue` and `setBreakpoints` (same file, same lines) back to back.  When the next breakpoint is
hit while the `setBreakpoints` is being handled, the stop carries the previous breakpoint generation;
`StopCoordinator::should_emit_stop` drops it ("breakpoint generation mismatch") and nothing resumes
the runtime: no `stopped` event, a `pause` request is answered "pause ignored (already paused)", and
`stackTrace` shows the thread at the next breakpoint.

The interleaving is a real race, so the replay retries.  Since the fix, the runtime being still
parked on the stop makes the coordinator emit it: a reproduction is reported by checks/c17.py as a
VIOLATION (regression); not reproducing it is the expected outcome.  Every wait has a timeout and the adapter
process is killed at the end."""
import json
import os
import queue
import subprocess
import threading
import time

PROGRAM = """PROGRAM Main
VAR
    a : DINT := 0;
    i : DINT;
END_VAR
    a := a + 1;
    FOR i := 1 TO 5 DO
        a := a + 1;
    END_FOR;
    a := a + 2;
    FOR i := 1 TO 15 DO
        a := a + 1;
    END_FOR;
    a := a + 3;
    FOR i := 1 TO 30 DO
        a := a + 1;
    END_FOR;
    a := a + 4;
    FOR i := 1 TO 60 DO
        a := a + 1;
    END_FOR;
    a := a + 5;
    FOR i := 1 TO 120 DO
        a := a + 1;
    END_FOR;
    a := a + 6;
END_PROGRAM
"""
LINES = [6, 10, 14, 18, 22, 26]


class Dap:
    def __init__(self, binary):
        self.p = subprocess.Popen([binary], stdin=subprocess.PIPE, stdout=subprocess.PIPE,
                                  stderr=subprocess.DEVNULL)
        self.seq = 0
        self.q = queue.Queue()
        threading.Thread(target=self._reader, daemon=True).start()

    def _reader(self):
        f = self.p.stdout
        try:
            while True:
                line = f.readline()
                if not line:
                    break
                if line.lower().startswith(b"content-length:"):
                    n = int(line.split(b":")[1])
                    f.readline()
                    self.q.put(json.loads(f.read(n)))
        except Exception:
            pass
        self.q.put(None)

    def frame(self, command, arguments=None):
        self.seq += 1
        msg = {"seq": self.seq, "type": "request", "command": command}
        if arguments is not None:
            msg["arguments"] = arguments
        b = json.dumps(msg).encode()
        return b"Content-Length: %d\r\n\r\n" % len(b) + b

    def send(self, *frames):
        self.p.stdin.write(b"".join(frames))
        self.p.stdin.flush()

    def wait_for(self, pred, timeout):
        seen = []
        end = time.time() + timeout
        while True:
            left = end - time.time()
            if left <= 0:
                return None, seen
            try:
                m = self.q.get(timeout=left)
            except queue.Empty:
                return None, seen
            if m is None:
                return None, seen
            seen.append(m)
            if pred(m):
                return m, seen

    def close(self):
        try:
            self.send(self.frame("disconnect", {}))
            time.sleep(0.1)
        except Exception:
            pass
        try:
            self.p.kill()
        except Exception:
            pass


def _is_stopped(m):
    return m.get("type") == "event" and m.get("event") == "stopped"


def replay(binary, workdir, attempts=80, budget_s=60):
    """Returns a dict: reproduced (bool), attempts, detail (str)."""
    os.makedirs(workdir, exist_ok=True)
    prog = os.path.join(workdir, "c17_dap_prog.st")
    with open(prog, "w") as f:
        f.write(PROGRAM)
    bp_args = {"source": {"path": prog}, "breakpoints": [{"line": l} for l in LINES]}
    d = Dap(binary)
    t_end = time.time() + budget_s
    try:
        d.send(d.frame("initialize", {"adapterID": "trust", "linesStartAt1": True, "columnsStartAt1": True}))
        m, _ = d.wait_for(lambda m: m.get("type") == "response" and m.get("command") == "initialize", 10)
        if not m:
            return {"reproduced": False, "attempts": 0, "detail": "adapter did not answer initialize"}
        d.send(d.frame("launch", {"program": prog, "stopOnEntry": False}))
        d.send(d.frame("setBreakpoints", bp_args))
        d.wait_for(lambda m: m.get("type") == "response" and m.get("command") == "setBreakpoints", 10)
        d.send(d.frame("configurationDone"))
        m, _ = d.wait_for(_is_stopped, 15)
        if not m:
            return {"reproduced": False, "attempts": 0, "detail": "no first breakpoint stop"}
        for k in range(attempts):
            if time.time() > t_end:
                return {"reproduced": False, "attempts": k, "detail": "time budget used up"}
            d.send(d.frame("continue", {"threadId": m["body"].get("threadId", 1)}),
                   d.frame("setBreakpoints", bp_args))
            m2, _ = d.wait_for(_is_stopped, 2.0)
            if m2:
                m = m2
                continue
            # no `stopped` for 2 s (a cycle takes milliseconds): is the runtime parked?
            d.send(d.frame("pause", {"threadId": 1}))
            mp, _ = d.wait_for(lambda x: x.get("type") == "event" and x.get("event") == "output"
                               and "pause" in (x.get("body", {}).get("output") or ""), 5)
            text = mp["body"]["output"].strip() if mp else ""
            d.send(d.frame("stackTrace", {"threadId": 1}))
            ms, _ = d.wait_for(lambda x: x.get("type") == "response" and x.get("command") == "stackTrace", 5)
            frames = (ms or {}).get("body", {}).get("stackFrames", [])
            line = frames[0].get("line") if frames else None
            late, _ = d.wait_for(_is_stopped, 1.5)
            if late:
                # the notification was only slow: not the finding
                m = late
                continue
            if "already paused" in text and line in LINES:
                return {"reproduced": True, "attempts": k + 1,
                        "detail": f"after continue+setBreakpoints no stopped event for 3.5 s; pause answered "
                                  f"{text!r}; stackTrace: thread parked at line {line} (a breakpoint line)"}
            return {"reproduced": False, "attempts": k + 1,
                    "detail": f"no stopped event, but pause answered {text!r}, top frame line {line}"}
        return {"reproduced": False, "attempts": attempts, "detail": "race not hit"}
    finally:
        d.close()
