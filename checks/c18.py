"""C18 — the control endpoint executes a request only with a sufficient role.

Translators (regex / small scanners over named Rust items, fail closed) regenerate
`lean/TrustVerif/Generated/Control.lean` and `work/C18.tables.json` on every run from
  crates/trust-runtime/src/security.rs            enum AccessRole, as_str, allows
  crates/trust-runtime/src/control.rs             required_role_for_control_request,
                                                  required_role_for_config_set, is_debug_request,
                                                  the key table of handle_config_set
  crates/trust-runtime/src/control/handlers/*.rs  the dispatcher (module chain and names)
"""
import json
import os
import re

import vlib

REPO = os.environ.get("VERIF_REPO", "/repo")
RT = os.path.join(REPO, "crates", "trust-runtime", "src")
GENERATED = os.path.join(vlib.LEAN, "TrustVerif", "Generated", "Control.lean")
TABLES = os.path.join(vlib.WORK, "C18.tables.json")


class TranslateError(Exception):
    pass


def _read(rel):
    path = os.path.join(RT, rel)
    try:
        return open(path, encoding="utf-8").read()
    except OSError as e:
        raise TranslateError(f"cannot read {path}: {e}")


def _strip_comments(src):
    """Remove // and /* */ comments (string literals are respected)."""
    out, i, n = [], 0, len(src)
    while i < n:
        c = src[i]
        if c == '"':
            j = i + 1
            while j < n and src[j] != '"':
                j += 2 if src[j] == "\\" else 1
            out.append(src[i:j + 1])
            i = j + 1
        elif src.startswith("//", i):
            while i < n and src[i] != "\n":
                i += 1
        elif src.startswith("/*", i):
            j = src.find("*/", i + 2)
            if j < 0:
                raise TranslateError("unterminated block comment")
            i = j + 2
        else:
            out.append(c)
            i += 1
    return "".join(out)


def _balanced(src, start, open_ch="{", close_ch="}"):
    """`src[start]` is `open_ch`; return the index just after its matching `close_ch`."""
    if src[start] != open_ch:
        raise TranslateError(f"expected {open_ch!r} at offset {start}")
    depth, i, n = 0, start, len(src)
    while i < n:
        c = src[i]
        if c == '"':
            i += 1
            while i < n and src[i] != '"':
                i += 2 if src[i] == "\\" else 1
        elif c == "'" and i + 2 < n and src[i + 2] == "'":
            i += 2
        elif c == open_ch:
            depth += 1
        elif c == close_ch:
            depth -= 1
            if depth == 0:
                return i + 1
        i += 1
    raise TranslateError("unbalanced braces")


def fn_body(src, name):
    """Body (between the outer braces) of the unique `fn <name>(`."""
    hits = [m for m in re.finditer(r"\bfn\s+" + re.escape(name) + r"\s*(?:<[^>]*>)?\s*\(", src)]
    if len(hits) != 1:
        raise TranslateError(f"expected exactly one `fn {name}`, found {len(hits)}")
    i = _balanced(src, hits[0].end() - 1, "(", ")")
    j = src.find("{", i)
    if j < 0:
        raise TranslateError(f"fn {name}: no body")
    if ";" in src[i:j]:
        raise TranslateError(f"fn {name}: no body")
    end = _balanced(src, j)
    return src[j + 1:end - 1]


def match_arms(src, head_regex):
    """Arms [(pattern_text, body_text)] of the unique `match <head> {` found by `head_regex`."""
    hits = list(re.finditer(head_regex, src))
    if len(hits) != 1:
        raise TranslateError(f"expected exactly one match head /{head_regex}/, found {len(hits)}")
    start = hits[0].end() - 1
    end = _balanced(src, start)
    body = src[start + 1:end - 1]
    arms, i, n = [], 0, len(body)
    while True:
        while i < n and body[i] in " \t\r\n,":
            i += 1
        if i >= n:
            break
        # pattern: up to `=>` at depth 0
        j, depth = i, 0
        while j < n:
            c = body[j]
            if c == '"':
                j += 1
                while j < n and body[j] != '"':
                    j += 2 if body[j] == "\\" else 1
            elif c in "([{":
                depth += 1
            elif c in ")]}":
                depth -= 1
            elif depth == 0 and body.startswith("=>", j):
                break
            j += 1
        if j >= n:
            raise TranslateError("match arm without `=>`")
        pattern = body[i:j].strip()
        k = j + 2
        while k < n and body[k] in " \t\r\n":
            k += 1
        if k < n and body[k] == "{":
            e = _balanced(body, k)
            arm_body = body[k:e]
            i = e
        else:
            e, depth = k, 0
            while e < n:
                c = body[e]
                if c == '"':
                    e += 1
                    while e < n and body[e] != '"':
                        e += 2 if body[e] == "\\" else 1
                elif c in "([{":
                    depth += 1
                elif c in ")]}":
                    depth -= 1
                elif c == "," and depth == 0:
                    break
                e += 1
            arm_body = body[k:e]
            i = e + 1
        arms.append((pattern, arm_body.strip()))
    if not arms:
        raise TranslateError("match without arms")
    return arms


STR_LIT = re.compile(r'^"([^"\\]*)"$')


def string_alternatives(pattern):
    """`"a" | "b"` -> ["a", "b"];  `_` -> None.  Anything else fails closed."""
    if pattern == "_":
        return None
    names = []
    for alt in pattern.split("|"):
        m = STR_LIT.match(alt.strip())
        if not m:
            raise TranslateError(f"pattern is not a list of plain string literals: {pattern[:60]!r}")
        names.append(m.group(1))
    return names


def role_of(text, roles):
    m = re.fullmatch(r"\{?\s*AccessRole::(\w+)\s*\}?", text.strip())
    if not m or m.group(1) not in roles:
        raise TranslateError(f"cannot read a role from {text[:60]!r}")
    return m.group(1)


def parse_security():
    src = _strip_comments(_read("security.rs"))
    m = re.search(r"#\[derive\(([^\]]*)\)\]\s*(?:#\[[^\]]*\]\s*)*pub enum AccessRole\s*\{([^}]*)\}", src)
    if not m:
        raise TranslateError("enum AccessRole not found")
    derives = [d.strip() for d in m.group(1).split(",")]
    if "PartialOrd" not in derives or "Ord" not in derives:
        raise TranslateError("AccessRole no longer derives PartialOrd/Ord (role order is not the declaration order)")
    roles = [v.strip() for v in m.group(2).split(",") if v.strip()]
    if not roles or any(not re.fullmatch(r"[A-Z]\w*", r) for r in roles):
        raise TranslateError(f"unexpected AccessRole variants {roles}")
    impl = re.search(r"impl AccessRole\s*\{", src)
    if not impl:
        raise TranslateError("impl AccessRole not found")
    impl_src = src[impl.end() - 1:_balanced(src, impl.end() - 1)]
    allows = re.sub(r"\s+", " ", fn_body(impl_src, "allows")).strip()
    if allows != "self >= required":
        raise TranslateError(f"AccessRole::allows is no longer `self >= required`: {allows!r}")
    as_str = {}
    for pat, body in match_arms(fn_body(impl_src, "as_str"), r"match\s+self\s*\{"):
        mm = re.fullmatch(r"Self::(\w+)", pat)
        ms = STR_LIT.match(body)
        if not mm or not ms:
            raise TranslateError("AccessRole::as_str arm not understood")
        as_str[mm.group(1)] = ms.group(1)
    if sorted(as_str) != sorted(roles):
        raise TranslateError("AccessRole::as_str does not cover every variant")
    parse = {}
    for pat, body in match_arms(fn_body(impl_src, "parse"), r"match\s+text\.trim\(\)\.to_ascii_lowercase\(\)\.as_str\(\)\s*\{"):
        names = string_alternatives(pat)
        if names is None:
            if body != "None":
                raise TranslateError("AccessRole::parse default arm is not None")
            continue
        mm = re.fullmatch(r"Some\(Self::(\w+)\)", body)
        if not mm:
            raise TranslateError("AccessRole::parse arm not understood")
        for nm in names:
            parse[nm] = mm.group(1)
    return roles, as_str, parse


def parse_control(roles):
    src = _strip_comments(_read("control.rs"))
    # permission table
    arms = match_arms(fn_body(src, "required_role_for_control_request"), r"match\s+kind\s*\{")
    table, default = [], None
    for pat, body in arms:
        names = string_alternatives(pat)
        if names is None:
            default = role_of(body, roles)
            continue
        if re.fullmatch(r"\{?\s*required_role_for_config_set\(params\)\s*\}?", body):
            req = "configSet"
        else:
            req = role_of(body, roles)
        for nm in names:
            if any(nm == t for t, _ in table):
                raise TranslateError(f"permission table lists {nm!r} twice")
            table.append((nm, req))
    if default is None:
        raise TranslateError("permission table has no default arm")
    # config.set role
    body = re.sub(r"\s+", " ", fn_body(src, "required_role_for_config_set"))
    m = re.fullmatch(
        r" ?let Some\(params\) = params\.and_then\(serde_json::Value::as_object\) else \{ return AccessRole::(\w+); \}; "
        r"let requires_admin = params\.keys\(\)\.any\(\|key\| \{ matches!\( key\.as_str\(\), ([^)]*?),? ?\) \}\); "
        r"if requires_admin \{ AccessRole::(\w+) \} else \{ AccessRole::(\w+) \} ?",
        body,
    )
    if not m:
        raise TranslateError("required_role_for_config_set no longer has the expected shape")
    for r in (m.group(1), m.group(3), m.group(4)):
        if r not in roles:
            raise TranslateError(f"unknown role {r}")
    cfg = {
        "no_object": m.group(1),
        "admin_keys": string_alternatives(m.group(2)),
        "if_listed": m.group(3),
        "otherwise": m.group(4),
    }
    # debug request list
    body = re.sub(r"\s+", " ", fn_body(src, "is_debug_request")).strip()
    m = re.fullmatch(r"matches!\( kind, ([^)]*?),? ?\)", body)
    if not m:
        raise TranslateError("is_debug_request no longer has the expected shape")
    debug = string_alternatives(m.group(1))
    if len(set(debug)) != len(debug):
        raise TranslateError("is_debug_request lists a name twice")
    # config.set key table (the keys handle_config_set accepts)
    hbody = fn_body(src, "handle_config_set")
    handled = []
    saw_default = False
    for pat, abody in match_arms(hbody, r"match\s+key\.as_str\(\)\s*\{"):
        names = string_alternatives(pat)
        if names is None:
            saw_default = True
            if "unknown config key" not in abody or "return ControlResponse::error" not in abody:
                raise TranslateError("handle_config_set default arm no longer rejects unknown keys")
            continue
        handled += names
    if not saw_default:
        raise TranslateError("handle_config_set has no default arm")
    if len(set(handled)) != len(handled):
        raise TranslateError("handle_config_set lists a key twice")
    pre = re.findall(r'params\.get\("([^"\\]*)"\)', hbody)
    for k in pre:
        if k not in handled:
            raise TranslateError(f"handle_config_set reads {k!r} outside its key table")
    return table, default, cfg, debug, handled


def parse_dispatch():
    mod_src = _strip_comments(_read(os.path.join("control", "handlers", "mod.rs")))
    declared = re.findall(r"^\s*mod\s+(\w+)\s*;", mod_src, re.M)
    body = re.sub(r"\s+", "", fn_body(mod_src, "dispatch"))
    m = re.fullmatch(r"(\w+)::dispatch\(request,state\)((?:\.or_else\(\|\|\w+::dispatch\(request,state\)\))*)", body)
    if not m:
        raise TranslateError("handlers::dispatch is no longer an or_else chain")
    chain = [m.group(1)] + re.findall(r"\.or_else\(\|\|(\w+)::dispatch", m.group(2))
    if sorted(chain) != sorted(declared) or len(set(chain)) != len(chain):
        raise TranslateError(f"handler modules declared {declared} but chained {chain}")
    hdir = os.path.join(RT, "control", "handlers")
    files = sorted(f[:-3] for f in os.listdir(hdir) if f.endswith(".rs") and f != "mod.rs")
    if files != sorted(chain):
        raise TranslateError(f"handler files {files} differ from the dispatch chain {chain}")
    modules = []
    for mod in chain:
        src = _strip_comments(_read(os.path.join("control", "handlers", mod + ".rs")))
        fb = fn_body(src, "dispatch")
        handlers, saw_default = [], False
        for pat, abody in match_arms(fb, r"match\s+request\.r#type\.as_str\(\)\s*\{"):
            names = string_alternatives(pat)
            if names is None:
                saw_default = True
                if re.sub(r"\s+", " ", abody).strip() != "return None":
                    raise TranslateError(f"{mod}.rs: default arm is not `return None`")
                continue
            fn = re.search(r"\b(handle_\w+)\s*\(", abody)
            if not fn:
                raise TranslateError(f"{mod}.rs: arm {pat[:40]!r} does not call a handle_* function")
            for nm in names:
                handlers.append({"name": nm, "fn": fn.group(1), "takes_params": "request.params" in abody})
        if not saw_default:
            raise TranslateError(f"{mod}.rs: no default arm")
        modules.append({"module": mod, "handlers": handlers})
    return modules


def lean_str(s):
    if not re.fullmatch(r"[ -!#-\[\]-~]*", s):
        raise TranslateError(f"string {s!r} needs escaping; refusing")
    return '"' + s + '"'


def translate_control():
    """Regenerate Generated/Control.lean and work/C18.tables.json from the current /repo sources."""
    roles, as_str, parse = parse_security()
    table, default, cfg, debug, handled = parse_control(roles)
    modules = parse_dispatch()
    ctor = {r: r[0].lower() + r[1:] for r in roles}
    L = []
    L.append("-- GENERATED by checks/c18.py (translate_control) from crates/trust-runtime/src/security.rs,")
    L.append("-- control.rs and control/handlers/*.rs.  Regenerated on every run of the C18 check; do not edit.")
    L.append("namespace TrustVerif.C18.Gen")
    L.append("")
    L.append("/-- `enum AccessRole` (security.rs); declaration order is the derived `Ord`. -/")
    L.append("inductive Role where")
    for r in roles:
        L.append(f"  | {ctor[r]}")
    L.append("  deriving DecidableEq, Repr")
    L.append("")
    L.append("/-- Position in the declaration = rank under the derived `Ord`. -/")
    L.append("def Role.rank : Role → Nat")
    for i, r in enumerate(roles):
        L.append(f"  | .{ctor[r]} => {i}")
    L.append("")
    L.append("/-- `AccessRole::as_str`. -/")
    L.append("def Role.name : Role → String")
    for r in roles:
        L.append(f"  | .{ctor[r]} => {lean_str(as_str[r])}")
    L.append("")
    L.append("def Role.all : List Role := [" + ", ".join("." + ctor[r] for r in roles) + "]")
    L.append("")
    L.append("/-- `AccessRole::parse` after `trim().to_ascii_lowercase()`. -/")
    L.append("def roleParseTable : List (String × Role) := [")
    L.append(",\n".join(f"  ({lean_str(k)}, .{ctor[v]})" for k, v in parse.items()))
    L.append("]")
    L.append("")
    L.append("/-- Right-hand side of an arm of `required_role_for_control_request`. -/")
    L.append("inductive Required where")
    L.append("  | fixed (r : Role)")
    L.append("  | configSet")
    L.append("  deriving DecidableEq, Repr")
    L.append("")
    L.append("/-- The explicit arms of `required_role_for_control_request` (control.rs), in source order. -/")
    L.append("def permissionArms : List (String × Required) := [")
    rows = []
    for nm, req in table:
        rows.append(f"  ({lean_str(nm)}, " + (".configSet" if req == "configSet" else f".fixed .{ctor[req]}") + ")")
    L.append(",\n".join(rows))
    L.append("]")
    L.append("")
    L.append("/-- The `_ =>` arm of `required_role_for_control_request`. -/")
    L.append(f"def permissionDefault : Role := .{ctor[default]}")
    L.append("")
    L.append("/-- `required_role_for_config_set`: params absent or not an object. -/")
    L.append(f"def configSetNoObject : Role := .{ctor[cfg['no_object']]}")
    L.append("/-- `required_role_for_config_set`: keys that raise the requirement. -/")
    L.append("def configSetListedKeys : List String := [" + ", ".join(lean_str(k) for k in cfg["admin_keys"]) + "]")
    L.append(f"def configSetIfListed : Role := .{ctor[cfg['if_listed']]}")
    L.append(f"def configSetOtherwise : Role := .{ctor[cfg['otherwise']]}")
    L.append("")
    L.append("/-- Keys accepted by `handle_config_set` (every other key is rejected before anything is applied). -/")
    L.append("def configSetHandledKeys : List String := [")
    L.append(",\n".join("  " + lean_str(k) for k in handled))
    L.append("]")
    L.append("")
    L.append("/-- `is_debug_request`. -/")
    L.append("def debugRequests : List String := [")
    L.append(",\n".join("  " + lean_str(k) for k in debug))
    L.append("]")
    L.append("")
    L.append("/-- `control/handlers/mod.rs::dispatch`: modules in `or_else` order, each with the request names of its")
    L.append("`match` (source order), the handler function called and whether `request.params` is passed on. -/")
    L.append("structure Handler where")
    L.append("  name : String")
    L.append("  fn : String")
    L.append("  takesParams : Bool")
    L.append("  deriving DecidableEq, Repr")
    L.append("")
    L.append("def dispatchModules : List (String × List Handler) := [")
    mods = []
    for m in modules:
        hs = ",\n".join(
            f"    ⟨{lean_str(h['name'])}, {lean_str(h['fn'])}, {'true' if h['takes_params'] else 'false'}⟩" for h in m["handlers"]
        )
        mods.append(f"  ({lean_str(m['module'])}, [\n{hs}])")
    L.append(",\n".join(mods))
    L.append("]")
    L.append("")
    L.append("end TrustVerif.C18.Gen")
    text = "\n".join(L) + "\n"
    os.makedirs(os.path.dirname(GENERATED), exist_ok=True)
    if not os.path.exists(GENERATED) or open(GENERATED, encoding="utf-8").read() != text:
        with open(GENERATED, "w", encoding="utf-8") as f:
            f.write(text)
    vlib.ensure_dirs()
    tables = {
        "roles": [as_str[r] for r in roles],
        "permission": [[nm, (req if req == "configSet" else as_str[req])] for nm, req in table],
        "permission_default": as_str[default],
        "config_set": {
            "no_object": as_str[cfg["no_object"]], "listed_keys": cfg["admin_keys"],
            "if_listed": as_str[cfg["if_listed"]], "otherwise": as_str[cfg["otherwise"]],
            "handled_keys": handled,
        },
        "debug_requests": debug,
        "modules": modules,
    }
    with open(TABLES, "w") as f:
        json.dump(tables, f, indent=1)
        f.write("\n")
    return tables


if __name__ == "__main__":
    t = translate_control()
    print(json.dumps({k: (len(v) if isinstance(v, list) else v) for k, v in t.items() if k != "modules"}, indent=1))
    print("dispatched:", sum(len(m["handlers"]) for m in t["modules"]))
