"""C18 — the control endpoint executes a request only with a sufficient role.

Translators (regex / small scanners over named Rust items, fail closed) regenerate
`lean/TrustVerif/Generated/Control.lean` and `work/C18.tables.json` on every run from
  crates/trust-runtime/src/security.rs            enum AccessRole, as_str, allows
  crates/trust-runtime/src/control.rs             required_role_for_control_request,
                                                  required_role_for_config_set, is_debug_request,
                                                  the key table of handle_config_set
  crates/trust-runtime/src/control/handlers/*.rs  the dispatcher (module chain and names)
"""
import json
import os
import re

import vlib

REPO = os.environ.get("VERIF_REPO") or vlib.repo_root()
RT = os.path.join(REPO, "crates", "trust-runtime", "src")
GENERATED = os.path.join(vlib.LEAN, "TrustVerif", "Generated", "Control.lean")
TABLES = os.path.join(vlib.WORK, "C18.tables.json")


class TranslateError(Exception):
    pass


def _read(rel):
    path = os.path.join(RT, rel)
    try:
        return open(path, encoding="utf-8").read()
    except OSError as e:
        raise TranslateError(f"cannot read {path}: {e}")


def _strip_comments(src):
    """Remove // and /* */ comments (string literals are respected)."""
    out, i, n = [], 0, len(src)
    while i < n:
        c = src[i]
        if c == '"':
            j = i + 1
            while j < n and src[j] != '"':
                j += 2 if src[j] == "\\" else 1
            out.append(src[i:j + 1])
            i = j + 1
        elif src.startswith("//", i):
            while i < n and src[i] != "\n":
                i += 1
        elif src.startswith("/*", i):
            j = src.find("*/", i + 2)
            if j < 0:
                raise TranslateError("unterminated block comment")
            i = j + 2
        else:
            out.append(c)
            i += 1
    return "".join(out)


def _balanced(src, start, open_ch="{", close_ch="}"):
    """`src[start]` is `open_ch`; return the index just after its matching `close_ch`."""
    if src[start] != open_ch:
        raise TranslateError(f"expected {open_ch!r} at offset {start}")
    depth, i, n = 0, start, len(src)
    while i < n:
        c = src[i]
        if c == '"':
            i += 1
            while i < n and src[i] != '"':
                i += 2 if src[i] == "\\" else 1
        elif c == "'" and i + 2 < n and src[i + 2] == "'":
            i += 2
        elif c == open_ch:
            depth += 1
        elif c == close_ch:
            depth -= 1
            if depth == 0:
                return i + 1
        i += 1
    raise TranslateError("unbalanced braces")


def fn_body(src, name):
    """Body (between the outer braces) of the unique `fn <name>(`."""
    hits = [m for m in re.finditer(r"\bfn\s+" + re.escape(name) + r"\s*(?:<[^>]*>)?\s*\(", src)]
    if len(hits) != 1:
        raise TranslateError(f"expected exactly one `fn {name}`, found {len(hits)}")
    i = _balanced(src, hits[0].end() - 1, "(", ")")
    j = src.find("{", i)
    if j < 0:
        raise TranslateError(f"fn {name}: no body")
    if ";" in src[i:j]:
        raise TranslateError(f"fn {name}: no body")
    end = _balanced(src, j)
    return src[j + 1:end - 1]


def match_arms(src, head_regex):
    """Arms [(pattern_text, body_text)] of the unique `match <head> {` found by `head_regex`."""
    hits = list(re.finditer(head_regex, src))
    if len(hits) != 1:
        raise TranslateError(f"expected exactly one match head /{head_regex}/, found {len(hits)}")
    start = hits[0].end() - 1
    end = _balanced(src, start)
    body = src[start + 1:end - 1]
    arms, i, n = [], 0, len(body)
    while True:
        while i < n and body[i] in " \t\r\n,":
            i += 1
        if i >= n:
            break
        # pattern: up to `=>` at depth 0
        j, depth = i, 0
        while j < n:
            c = body[j]
            if c == '"':
                j += 1
                while j < n and body[j] != '"':
                    j += 2 if body[j] == "\\" else 1
            elif c in "([{":
                depth += 1
            elif c in ")]}":
                depth -= 1
            elif depth == 0 and body.startswith("=>", j):
                break
            j += 1
        if j >= n:
            raise TranslateError("match arm without `=>`")
        pattern = body[i:j].strip()
        k = j + 2
        while k < n and body[k] in " \t\r\n":
            k += 1
        if k < n and body[k] == "{":
            e = _balanced(body, k)
            arm_body = body[k:e]
            i = e
        else:
            e, depth = k, 0
            while e < n:
                c = body[e]
                if c == '"':
                    e += 1
                    while e < n and body[e] != '"':
                        e += 2 if body[e] == "\\" else 1
                elif c in "([{":
                    depth += 1
                elif c in ")]}":
                    depth -= 1
                elif c == "," and depth == 0:
                    break
                e += 1
            arm_body = body[k:e]
            i = e + 1
        arms.append((pattern, arm_body.strip()))
    if not arms:
        raise TranslateError("match without arms")
    return arms


STR_LIT = re.compile(r'^"([^"\\]*)"$')


def string_alternatives(pattern):
    """`"a" | "b"` -> ["a", "b"];  `_` -> None.  Anything else fails closed."""
    if pattern == "_":
        return None
    names = []
    for alt in pattern.split("|"):
        m = STR_LIT.match(alt.strip())
        if not m:
            raise TranslateError(f"pattern is not a list of plain string literals: {pattern[:60]!r}")
        names.append(m.group(1))
    return names


def role_of(text, roles):
    m = re.fullmatch(r"\{?\s*AccessRole::(\w+)\s*\}?", text.strip())
    if not m or m.group(1) not in roles:
        raise TranslateError(f"cannot read a role from {text[:60]!r}")
    return m.group(1)


def parse_security():
    src = _strip_comments(_read("security.rs"))
    m = re.search(r"#\[derive\(([^\]]*)\)\]\s*(?:#\[[^\]]*\]\s*)*pub enum AccessRole\s*\{([^}]*)\}", src)
    if not m:
        raise TranslateError("enum AccessRole not found")
    derives = [d.strip() for d in m.group(1).split(",")]
    if "PartialOrd" not in derives or "Ord" not in derives:
        raise TranslateError("AccessRole no longer derives PartialOrd/Ord (role order is not the declaration order)")
    roles = [v.strip() for v in m.group(2).split(",") if v.strip()]
    if not roles or any(not re.fullmatch(r"[A-Z]\w*", r) for r in roles):
        raise TranslateError(f"unexpected AccessRole variants {roles}")
    impl = re.search(r"impl AccessRole\s*\{", src)
    if not impl:
        raise TranslateError("impl AccessRole not found")
    impl_src = src[impl.end() - 1:_balanced(src, impl.end() - 1)]
    allows = re.sub(r"\s+", " ", fn_body(impl_src, "allows")).strip()
    if allows != "self >= required":
        raise TranslateError(f"AccessRole::allows is no longer `self >= required`: {allows!r}")
    as_str = {}
    for pat, body in match_arms(fn_body(impl_src, "as_str"), r"match\s+self\s*\{"):
        mm = re.fullmatch(r"Self::(\w+)", pat)
        ms = STR_LIT.match(body)
        if not mm or not ms:
            raise TranslateError("AccessRole::as_str arm not understood")
        as_str[mm.group(1)] = ms.group(1)
    if sorted(as_str) != sorted(roles):
        raise TranslateError("AccessRole::as_str does not cover every variant")
    parse = {}
    for pat, body in match_arms(fn_body(impl_src, "parse"), r"match\s+text\.trim\(\)\.to_ascii_lowercase\(\)\.as_str\(\)\s*\{"):
        names = string_alternatives(pat)
        if names is None:
            if body != "None":
                raise TranslateError("AccessRole::parse default arm is not None")
            continue
        mm = re.fullmatch(r"Some\(Self::(\w+)\)", body)
        if not mm:
            raise TranslateError("AccessRole::parse arm not understood")
        for nm in names:
            parse[nm] = mm.group(1)
    return roles, as_str, parse


def parse_control(roles):
    src = _strip_comments(_read("control.rs"))
    # permission table
    arms = match_arms(fn_body(src, "required_role_for_control_request"), r"match\s+kind\s*\{")
    table, default = [], None
    for pat, body in arms:
        names = string_alternatives(pat)
        if names is None:
            default = role_of(body, roles)
            continue
        if re.fullmatch(r"\{?\s*required_role_for_config_set\(params\)\s*\}?", body):
            req = "configSet"
        else:
            req = role_of(body, roles)
        for nm in names:
            if any(nm == t for t, _ in table):
                raise TranslateError(f"permission table lists {nm!r} twice")
            table.append((nm, req))
    if default is None:
        raise TranslateError("permission table has no default arm")
    # config.set role
    body = re.sub(r"\s+", " ", fn_body(src, "required_role_for_config_set"))
    m = re.fullmatch(
        r" ?let Some\(params\) = params\.and_then\(serde_json::Value::as_object\) else \{ return AccessRole::(\w+); \}; "
        r"let requires_admin = params\.keys\(\)\.any\(\|key\| \{ matches!\( key\.as_str\(\), ([^)]*?),? ?\) \}\); "
        r"if requires_admin \{ AccessRole::(\w+) \} else \{ AccessRole::(\w+) \} ?",
        body,
    )
    if not m:
        raise TranslateError("required_role_for_config_set no longer has the expected shape")
    for r in (m.group(1), m.group(3), m.group(4)):
        if r not in roles:
            raise TranslateError(f"unknown role {r}")
    cfg = {
        "no_object": m.group(1),
        "admin_keys": string_alternatives(m.group(2)),
        "if_listed": m.group(3),
        "otherwise": m.group(4),
    }
    # debug request list
    body = re.sub(r"\s+", " ", fn_body(src, "is_debug_request")).strip()
    m = re.fullmatch(r"matches!\( kind, ([^)]*?),? ?\)", body)
    if not m:
        raise TranslateError("is_debug_request no longer has the expected shape")
    debug = string_alternatives(m.group(1))
    if len(set(debug)) != len(debug):
        raise TranslateError("is_debug_request lists a name twice")
    # config.set key table (the keys handle_config_set accepts)
    hbody = fn_body(src, "handle_config_set")
    handled = []
    saw_default = False
    for pat, abody in match_arms(hbody, r"match\s+key\.as_str\(\)\s*\{"):
        names = string_alternatives(pat)
        if names is None:
            saw_default = True
            if "unknown config key" not in abody or "return ControlResponse::error" not in abody:
                raise TranslateError("handle_config_set default arm no longer rejects unknown keys")
            continue
        handled += names
    if not saw_default:
        raise TranslateError("handle_config_set has no default arm")
    if len(set(handled)) != len(handled):
        raise TranslateError("handle_config_set lists a key twice")
    pre = re.findall(r'params\.get\("([^"\\]*)"\)', hbody)
    for k in pre:
        if k not in handled:
            raise TranslateError(f"handle_config_set reads {k!r} outside its key table")
    return table, default, cfg, debug, handled


def parse_dispatch():
    mod_src = _strip_comments(_read(os.path.join("control", "handlers", "mod.rs")))
    declared = re.findall(r"^\s*mod\s+(\w+)\s*;", mod_src, re.M)
    body = re.sub(r"\s+", "", fn_body(mod_src, "dispatch"))
    m = re.fullmatch(r"(\w+)::dispatch\(request,state\)((?:\.or_else\(\|\|\w+::dispatch\(request,state\)\))*)", body)
    if not m:
        raise TranslateError("handlers::dispatch is no longer an or_else chain")
    chain = [m.group(1)] + re.findall(r"\.or_else\(\|\|(\w+)::dispatch", m.group(2))
    if sorted(chain) != sorted(declared) or len(set(chain)) != len(chain):
        raise TranslateError(f"handler modules declared {declared} but chained {chain}")
    hdir = os.path.join(RT, "control", "handlers")
    files = sorted(f[:-3] for f in os.listdir(hdir) if f.endswith(".rs") and f != "mod.rs")
    if files != sorted(chain):
        raise TranslateError(f"handler files {files} differ from the dispatch chain {chain}")
    modules = []
    for mod in chain:
        src = _strip_comments(_read(os.path.join("control", "handlers", mod + ".rs")))
        fb = fn_body(src, "dispatch")
        handlers, saw_default = [], False
        for pat, abody in match_arms(fb, r"match\s+request\.r#type\.as_str\(\)\s*\{"):
            names = string_alternatives(pat)
            if names is None:
                saw_default = True
                if re.sub(r"\s+", " ", abody).strip() != "return None":
                    raise TranslateError(f"{mod}.rs: default arm is not `return None`")
                continue
            fn = re.search(r"\b(handle_\w+)\s*\(", abody)
            if not fn:
                raise TranslateError(f"{mod}.rs: arm {pat[:40]!r} does not call a handle_* function")
            for nm in names:
                handlers.append({"name": nm, "fn": fn.group(1), "takes_params": "request.params" in abody})
        if not saw_default:
            raise TranslateError(f"{mod}.rs: no default arm")
        modules.append({"module": mod, "handlers": handlers})
    return modules


def parse_param_structs(modules):
    """For every dispatched handler: the members its parameter struct declares (name, Rust type), so that the
    harness can aim boundary values at every one of them.  Informational for the generator only (not part
    of the proved tables): a handler whose parameters cannot be found simply gets generic members."""
    src = _strip_comments(_read("control.rs"))
    cut = src.find("#[cfg(test)]\nmod tests")
    if cut > 0:
        src = src[:cut]
    structs = {}
    for m in re.finditer(r"struct\s+(\w+Params)\s*\{([^}]*)\}", src):
        fields, aliases = [], []
        for part in re.split(r",\s*\n", m.group(2)):
            part = part.strip().rstrip(",")
            if not part:
                continue
            aliases += re.findall(r'alias\s*=\s*"([^"]+)"', part)
            decl = re.sub(r"#\[[^\]]*\]", "", part).strip()
            fm = re.fullmatch(r"(?:pub\s+)?(?:r#)?(\w+)\s*:\s*(.+)", decl, re.S)
            if fm:
                ty = re.sub(r"\s+", "", fm.group(2))
                fields.append([fm.group(1), ty])
                for a in aliases:
                    fields.append([a, ty])
                aliases = []
        structs[m.group(1)] = fields
    out = {}
    for mod in modules:
        for h in mod["handlers"]:
            try:
                body = fn_body(src, h["fn"])
            except TranslateError:
                continue
            fields = []
            # the handler's own body, and one level of the helpers it calls (members may be read in a helper)
            bodies = [body]
            for callee in sorted(set(re.findall(r"\b([a-z_]\w*)\s*\(", body))):
                if callee.startswith("handle_") or callee == h["fn"]:
                    continue
                if len(re.findall(r"\bfn\s+" + re.escape(callee) + r"\s*(?:<[^>]*>)?\s*\(", src)) == 1:
                    try:
                        bodies.append(fn_body(src, callee))
                    except TranslateError:
                        pass
            for b in bodies:
                sm = re.search(r"\b(\w+Params)\b", b)
                if sm and sm.group(1) in structs:
                    for f in structs[sm.group(1)]:
                        if not any(x[0] == f[0] for x in fields):
                            fields.append(f)
                for g in re.findall(r'\.get\("([^"\\]+)"\)', b):
                    if not any(f[0] == g for f in fields):
                        fields.append([g, "any"])
            out[h["name"]] = fields
    # every member name any handler or helper reads, for handlers whose own members moved into a helper
    pool = sorted({f[0] for fs in structs.values() for f in fs} | set(re.findall(r'\.get\("([^"\\]+)"\)', src)))
    out["*"] = [[nm, "any"] for nm in pool]
    return out


def lean_str(s):
    if not re.fullmatch(r"[ -!#-\[\]-~]*", s):
        raise TranslateError(f"string {s!r} needs escaping; refusing")
    return '"' + s + '"'


def translate_control():
    """Regenerate Generated/Control.lean and work/C18.tables.json from the current /repo sources."""
    roles, as_str, parse = parse_security()
    table, default, cfg, debug, handled = parse_control(roles)
    modules = parse_dispatch()
    ctor = {r: r[0].lower() + r[1:] for r in roles}
    L = []
    L.append("-- GENERATED by checks/c18.py (translate_control) from crates/trust-runtime/src/security.rs,")
    L.append("-- control.rs and control/handlers/*.rs.  Regenerated on every run of the C18 check; do not edit.")
    L.append("namespace TrustVerif.C18.Gen")
    L.append("")
    L.append("/-- `enum AccessRole` (security.rs); declaration order is the derived `Ord`. -/")
    L.append("inductive Role where")
    for r in roles:
        L.append(f"  | {ctor[r]}")
    L.append("  deriving DecidableEq, Repr")
    L.append("")
    L.append("/-- Position in the declaration = rank under the derived `Ord`. -/")
    L.append("def Role.rank : Role → Nat")
    for i, r in enumerate(roles):
        L.append(f"  | .{ctor[r]} => {i}")
    L.append("")
    L.append("/-- `AccessRole::as_str`. -/")
    L.append("def Role.name : Role → String")
    for r in roles:
        L.append(f"  | .{ctor[r]} => {lean_str(as_str[r])}")
    L.append("")
    L.append("def Role.all : List Role := [" + ", ".join("." + ctor[r] for r in roles) + "]")
    L.append("")
    L.append("/-- `AccessRole::parse` after `trim().to_ascii_lowercase()`. -/")
    L.append("def roleParseTable : List (String × Role) := [")
    L.append(",\n".join(f"  ({lean_str(k)}, .{ctor[v]})" for k, v in parse.items()))
    L.append("]")
    L.append("")
    L.append("/-- Right-hand side of an arm of `required_role_for_control_request`. -/")
    L.append("inductive Required where")
    L.append("  | fixed (r : Role)")
    L.append("  | configSet")
    L.append("  deriving DecidableEq, Repr")
    L.append("")
    L.append("/-- The explicit arms of `required_role_for_control_request` (control.rs), in source order. -/")
    L.append("def permissionArms : List (String × Required) := [")
    rows = []
    for nm, req in table:
        rows.append(f"  ({lean_str(nm)}, " + (".configSet" if req == "configSet" else f".fixed .{ctor[req]}") + ")")
    L.append(",\n".join(rows))
    L.append("]")
    L.append("")
    L.append("/-- The `_ =>` arm of `required_role_for_control_request`. -/")
    L.append(f"def permissionDefault : Role := .{ctor[default]}")
    L.append("")
    L.append("/-- `required_role_for_config_set`: params absent or not an object. -/")
    L.append(f"def configSetNoObject : Role := .{ctor[cfg['no_object']]}")
    L.append("/-- `required_role_for_config_set`: keys that raise the requirement. -/")
    L.append("def configSetListedKeys : List String := [" + ", ".join(lean_str(k) for k in cfg["admin_keys"]) + "]")
    L.append(f"def configSetIfListed : Role := .{ctor[cfg['if_listed']]}")
    L.append(f"def configSetOtherwise : Role := .{ctor[cfg['otherwise']]}")
    L.append("")
    L.append("/-- Keys accepted by `handle_config_set` (every other key is rejected before anything is applied). -/")
    L.append("def configSetHandledKeys : List String := [")
    L.append(",\n".join("  " + lean_str(k) for k in handled))
    L.append("]")
    L.append("")
    L.append("/-- `is_debug_request`. -/")
    L.append("def debugRequests : List String := [")
    L.append(",\n".join("  " + lean_str(k) for k in debug))
    L.append("]")
    L.append("")
    L.append("/-- `control/handlers/mod.rs::dispatch`: modules in `or_else` order, each with the request names of its")
    L.append("`match` (source order), the handler function called and whether `request.params` is passed on. -/")
    L.append("structure Handler where")
    L.append("  name : String")
    L.append("  fn : String")
    L.append("  takesParams : Bool")
    L.append("  deriving DecidableEq, Repr")
    L.append("")
    L.append("def dispatchModules : List (String × List Handler) := [")
    mods = []
    for m in modules:
        hs = ",\n".join(
            f"    ⟨{lean_str(h['name'])}, {lean_str(h['fn'])}, {'true' if h['takes_params'] else 'false'}⟩" for h in m["handlers"]
        )
        mods.append(f"  ({lean_str(m['module'])}, [\n{hs}])")
    L.append(",\n".join(mods))
    L.append("]")
    L.append("")
    L.append("end TrustVerif.C18.Gen")
    text = "\n".join(L) + "\n"
    os.makedirs(os.path.dirname(GENERATED), exist_ok=True)
    if not os.path.exists(GENERATED) or open(GENERATED, encoding="utf-8").read() != text:
        with open(GENERATED, "w", encoding="utf-8") as f:
            f.write(text)
    vlib.ensure_dirs()
    tables = {
        "roles": [as_str[r] for r in roles],
        "permission": [[nm, (req if req == "configSet" else as_str[req])] for nm, req in table],
        "permission_default": as_str[default],
        "config_set": {
            "no_object": as_str[cfg["no_object"]], "listed_keys": cfg["admin_keys"],
            "if_listed": as_str[cfg["if_listed"]], "otherwise": as_str[cfg["otherwise"]],
            "handled_keys": handled,
        },
        "debug_requests": debug,
        "modules": modules,
        "params": parse_param_structs(modules),
    }
    with open(TABLES, "w") as f:
        json.dump(tables, f, indent=1)
        f.write("\n")
    return tables



# ------------------------------------------------------------------------------------------------
# check description
# ------------------------------------------------------------------------------------------------

SPEC = {
    "id": "C18",
    "sub": "c18",
    "lean_modules": ["TrustVerif.Props.C18"],
    "translators": [translate_control],
    # `cases` = number of scenario cases AFTER the exhaustive product (every dispatched name and 11
    # unknown/garbled names x 17 credentials x {token set, unset} x {debug on, off} = one case each)
    "tiers": {
        "quick": {"cases": 880, "extra": {"tables": "C18.tables.json"}},
        "thorough": {"cases": 44000, "extra": {"tables": "C18.tables.json"}},
    },
    # A disagreement in which the implementation does MORE than the proved model allows (an effect, or a
    # handler's answer, where the model refuses) is a failing input of the property and is reported by the
    # oracle in extra(); any other disagreement only breaks the tie between model and code.
    "disagreement_is_violation": False,
    "rule": "case = fresh ControlState behind the real ControlServer on a unix socket (one case in ten: loopback TCP) "
            "(auth token set/unset/empty, "
            "control_requires_auth, debug switch, control mode, pairing store with viewer/operator/engineer/admin/"
            "expired/revoked/expiring-now tokens and a pending code) x one request line (exhaustive part: every "
            "dispatched name and 11 unknown names x 17 credentials (none, wrong, empty, strict prefix, token+suffix, token+space, "
            "space+token+tab, case variant, prefix of a pairing token, the token, pairing token of each role, expired, revoked, "
            "expiring now) x token set/unset x debug on/off, parameters "
            "drawn from a per-type palette of effective / rejected / garbage values) or a scenario (garbled byte "
            "streams, config.set key combinations, token rotation/removal, debug switch, revoke, full pairing flow "
            "with role sanitising, clock advance over token/code expiry, two principals on one connection, runtime restart "
            "that re-opens the pairing store from its file after revoke / claim / expiry / pair.start, several pairings claimed "
            "in the same clock second (shared id) then revoked by id, and a boundary-parameter stream: every member of every "
            "request type's parameter struct (read from the Rust source) with 0, 1, -1, u32/u64::MAX, i64::MIN, 1e12, floats, "
            "empty / 100 kB / NUL strings, 10k-element and nested arrays, wrong JSON types); all cases run in child "
            "processes with an address-space limit so that a dead connection thread or a process abort is observed; "
            "non-trivial = the line was refused by a gate (unauthorized / forbidden / debug disabled / unsupported / "
            "connection closed) or changed at least one probe; distinct = by hash of the case's operation lines",
    "trusted_base": [
        "Lean 4.33.0 kernel; axioms per theorem listed under 'theorems'",
        "translator checks/c18.py::translate_control (regex/brace scanner over AccessRole, "
        "required_role_for_control_request, required_role_for_config_set, is_debug_request, handle_config_set's "
        "key match, handlers/*.rs dispatch matches; fails closed on any shape it does not recognise); every table "
        "row is additionally exercised through the socket by the exhaustive part of the run",
        "hand-written model lean/TrustVerif/Model/C18.lean of handle_request_line / handle_request_value / "
        "resolve_request_role / handle_config_set (gate-relevant part) / pair.* / PairingStore, tied by this run's "
        "correspondence (reply class, reply id, set of changed probes)",
        "hand-written classification staticEffect/mutating (which request changes what): total over the generated "
        "dispatcher list by theorem c18_classification_total, validated by 12 state probes before/after every line",
        "Rust harness vharness c18: request palette (which parameter values are effective in its standard world), "
        "its mirror of struct ControlRequest (serde) used to tell the model whether a line parses, the probes "
        "(Debug renderings of DebugControl / ResourceControl / settings, command log of the stub resource, "
        "project-root file hashes, PairingStore::list, build_alarm_view)",
    ],
    "assumptions": [
        "handler bodies other than config.set and pair.* are not modelled: 'handled' stands for whatever the handler "
        "answers; that a handler terminates is NOT claimed (the debug.evaluate self-deadlock found by this check, "
        "fixed in 92b3089, stays in the replayed corpus)",
        "str::trim / to_ascii_lowercase are modelled on ASCII white space and letters (all the generator uses)",
        "session caches (DAP variable handles, HMI trend/alarm cache, the debugger's stop-event queue) are not "
        "counted as runtime state: viewer-level reads refresh or drain them",
        "JSON duplicate keys, key order and number formats are serde_json's business: the model starts from the "
        "parsed request (or the fact that parsing failed), which the harness determines with serde_json itself",
    ],
}

MANIFEST = {
    "technique": "Lean 4 proof over a gate model whose permission/dispatch/debug/config-key tables are regenerated from the "
                 "Rust sources each run (kernel-checked decide over the complete tables) + differential correspondence "
                 "through the real ControlServer on a unix socket with before/after state probes",
    "level_text": "Proved for every endpoint state, every line and every credential (no bound): a line that changes any probe, "
                  "changes the endpoint's gates or is answered with more than a constant refusal parsed as a request whose "
                  "credential maps to a role >= the role required for its type and parameters, with the debug gate open and a "
                  "handler present (c18_effect_needs_role, lifted to arbitrary histories with clock ticks); with a token "
                  "configured, requests without the token or a live pairing token get the bare 'unauthorized' reply and change "
                  "nothing, over any history of lines, clock ticks and runtime restarts (c18_unauth_silent, c18_history_unauth_silent, "
                  "c18_credential_none_iff; c18_reload_preserves_credentials: re-opening the pairing store changes no credential; "
                  "c18_revoke_disables_every_token_with_id / c18_revoked_id_maps_to_no_role: ids are pair-<second>, not unique, and "
                  "revoking an id kills every token that carries it); every "
                  "dispatched name is classified, listed in the permission table and unique, and every mutating one requires "
                  "more than viewer for all parameters (decide over the regenerated tables + c18_mutating_above_viewer); "
                  "config.set needs engineer, admin for credential/auth-mode keys; the debug list equals the names of the "
                  "debugger's handler modules and those requests are refused while debugging is off; unknown types and "
                  "malformed lines have no effect and every malformed line gets the invalid-request reply (c18_malformed_error_reply); allows is >= on a total order.  Each run executes model and real server on "
                  "the same ~3.7k cases / ~8k lines (exhaustive names x credentials x token x debug, plus scenarios) and compares "
                  "reply class, reply id and the exact set of changed probes.",
    "level_note": "Trusted: Lean kernel (+ propext/Quot.sound/Classical.choice where listed); the regex translator (fails closed; "
                  "rows cross-checked through the socket); the hand-written gate model and effect classification (validated only "
                  "by the differential run, whose palette bounds what it sees: a handler with an effect outside the 12 probes, or "
                  "only under parameters the palette lacks, would be labelled read-only unnoticed); the harness's serde mirror of "
                  "ControlRequest.  Not proved: anything inside handler bodies except config.set's and pair.*'s effect on the "
                  "gates; termination of handlers; the audit log; Unicode white space in trim; JSON parsing itself (the model starts "
                  "from 'the lossily decoded line parsed as a request / did not parse', decided by serde_json in the harness).  "
                  "Two defects found by this check are fixed in /repo (92b3089 debug.evaluate self-deadlock, 2c1da06 non-UTF-8 "
                  "line dropped the connection); their witnesses are replayed on every run and a regression is a violation.",
}


# ------------------------------------------------------------------------------------------------
# oracle on the implementation, coverage of the classification, known findings
# ------------------------------------------------------------------------------------------------

def _unhex(h):
    return "" if h == "-" else bytes.fromhex(h).decode("utf-8", "replace")


def _fields(op):
    out = {}
    for w in op.split()[1:]:
        if "=" in w:
            k, v = w.split("=", 1)
            out.setdefault(k, v)
    return out


REFUSALS = ("unauthorized", "forbidden", "debug-disabled", "unsupported", "invalid")


def _class_of(ans):
    """('handled' | refusal | other, fx-set) of an impl/model answer line."""
    parts = ans.split()
    fx = set()
    cls = "other"
    for w in parts:
        if w.startswith("fx="):
            fx = set() if w == "fx=-" else set(w[3:].split(","))
        elif not w.startswith("id="):
            cls = w.split(":")[0]
    return cls, fx


def extra(ctx):
    import subprocess
    res = {"coverage": {}, "oracle_failures": [], "known": [], "failures": []}
    r = ctx["result"]
    cases = ctx["cases"]
    # (1) oracle: the implementation did more than the proved model allows => failing input
    promoted = []
    for d in r["disagreements"]:
        if d.get("op_index", -1) < 0:
            continue
        ic, ifx = _class_of(d["impl"])
        mc, mfx = _class_of(d["model"])
        # every line gets exactly one reply (c18: `step` is total): a line without one -- the connection thread
        # died (closed), the whole process aborted (crash), nothing came (hang) -- is a failing input
        more = (ic == "handled" and mc in REFUSALS) or bool(ifx - mfx - {"*"}) or ic in ("hang", "garbage-reply", "crash", "closed")
        if more:
            f = _fields(d["op"])
            res["oracle_failures"].append({
                "what": ("the request got NO REPLY (connection thread died / process aborted / hang): " if ic in ("hang", "crash", "closed")
                         else "the implementation performed or revealed more than the role gate allows: ")
                        + f"impl '{d['impl']}' vs proved model '{d['model']}'",
                "case": d["case"], "seed": d.get("seed"), "tier": d.get("tier"), "op": d["op"],
                "request_line": _unhex(f.get("raw", "-")), "impl": d["impl"], "expected": d["model"],
                "case_lines": d.get("case_lines", []),
            })
            promoted.append(id(d))
    # a disagreement that is a failing input is reported once, as such (not again as a broken tie)
    r["disagreements"][:] = [d for d in r["disagreements"] if id(d) not in promoted]
    # (1b) the property's own statement evaluated on the implementation's answers, independently of the model
    #      and of the regenerated tables (so that a table edited in the code cannot talk the check round):
    #      in the exhaustive cases the generator knows what each credential is.
    try:
        tables = json.load(open(TABLES))
        debug_class = {h["name"] for m in tables["modules"] if m["module"] in ("debug", "variables") for h in m["handlers"]}
    except Exception:
        debug_class = set()
    def fail_input(c, op, impl, why):
        if len(res["oracle_failures"]) < 40:
            f = _fields(op)
            world = next((l for l in c.lines if l.startswith("world ")), "")
            res["oracle_failures"].append({
                "what": why, "case": c.n, "seed": ctx["seed"], "tier": ctx["tier"], "op": op,
                "request_line": _unhex(f.get("raw", "-")), "impl": impl, "world": world, "case_lines": c.lines,
            })
        # reported as a failing input; not again as a model disagreement
        r["disagreements"][:] = [d for d in r["disagreements"] if d.get("case") != c.n]

    for c in cases:
        world = next((l for l in c.lines if l.startswith("world ")), None)
        if not world or not c.ops:
            continue
        wf = _fields(world)
        for k, (op, impl) in enumerate(c.ops):
            if not op or not op.startswith("req "):
                continue
            f = _fields(op)
            cls, fx = _class_of(impl)
            t = _unhex(f.get("type", "-"))
            # (i) a credential that is not exactly the configured token and not a pairing token that may be
            #     live (judged by the harness, `valid=no`) must get the bare unauthorized reply with the
            #     caller's id and change nothing -- in every case, at every position of a history
            if f.get("valid") == "no" and impl.strip() != f"id={f.get('id')} unauthorized fx=-":
                fail_input(c, op, impl,
                           f"an auth token is configured and the credential {_unhex((f.get('auth') or 's-')[1:])!r} "
                           f"(generator's name: {f.get('cred')}) is neither that token nor a live pairing token, yet the "
                           f"reply to '{t}' is '{impl}' (must be the bare unauthorized error, no effect)")
                continue
            if k != 0 or f.get("cred", "-") == "-":
                continue
            # (ii) exhaustive cases: the generator knows what the credential is
            cred = f["cred"]
            if wf.get("pairing") == "1" and cred == "pv" and fx:
                fail_input(c, op, impl, f"a viewer-role pairing token changed {sorted(fx)} with request '{t}' "
                                        "(every mutating request must require more than viewer)")
            elif wf.get("debug") == "0" and t in debug_class and (cls == "handled" or fx):
                fail_input(c, op, impl, f"debug-class request '{t}' was executed while debugging is disabled: '{impl}'")

    # (2) the classification is validated only if every dispatched name was seen handled, every mutating name
    #     was seen changing a probe, and every gate was seen refusing
    p = subprocess.run([vlib.DRIVER, "c18", "classes"], stdin=subprocess.DEVNULL, stdout=subprocess.PIPE, text=True)
    classes = {}
    for line in p.stdout.splitlines():
        w = line.split()
        if w and w[0] == "class":
            classes[_unhex(w[1])] = {kv.split("=")[0]: kv.split("=")[1] for kv in w[2:]}
    # boundary-parameter lines: whatever the handler made of the values, what changed must stay within what the
    # classification allows for that request type
    boundary_lines = 0
    for c in cases:
        last_req = None
        for l in c.lines:
            if l.startswith("req "):
                last_req = l
            elif l.startswith("obs ") and last_req:
                boundary_lines += 1
                f = _fields(last_req)
                t = _unhex(f.get("type", "-"))
                obs = set() if l.strip() == "obs fx=-" else set(l.split("fx=", 1)[1].split(","))
                allowed = set((classes.get(t, {}).get("effects") or "-").split(",")) - {"-"}
                if obs - allowed and len(res["oracle_failures"]) < 40:
                    res["oracle_failures"].append({
                        "what": f"request '{t}' with boundary parameters changed {sorted(obs - allowed)}, which its classification "
                                f"({sorted(allowed)}) does not allow", "case": c.n, "seed": ctx["seed"], "tier": ctx["tier"],
                        "op": last_req, "request_line": _unhex(f.get("raw", "-"))[:2000], "case_lines": c.lines,
                    })
    res["coverage"]["boundary_parameter_lines"] = boundary_lines
    seen_handled, seen_effect, by_class, lossy = set(), set(), {}, 0
    per_type = {}
    for c in cases:
        for op, impl in c.ops:
            if not op:
                continue
            cls, fx = _class_of(impl)
            by_class[cls] = by_class.get(cls, 0) + 1
            if " lossy=1 " in op:
                lossy += 1
            if op.startswith("claimcheck") and impl.strip() == "fail":
                # the pending code the case started with is gone: pair.start / pair.claim / expiry took effect
                for op2, impl2 in c.ops:
                    if op2 and op2.startswith("req ") and _class_of(impl2)[0] == "handled":
                        t2 = _unhex(_fields(op2).get("type", "-"))
                        if t2 == "pair.start":
                            seen_effect.add(t2)
            if op.startswith("req "):
                t = _unhex(_fields(op).get("type", "-"))
                if t in classes:
                    pt = per_type.setdefault(t, {"handled": 0, "refused": 0, "effect": 0})
                    if cls == "handled":
                        seen_handled.add(t)
                        pt["handled"] += 1
                    else:
                        pt["refused"] += 1
                    if fx:
                        seen_effect.add(t)
                        pt["effect"] += 1
    if ctx["tier"] in ("quick", "thorough") and len(cases) > 3000:
        for t, k in classes.items():
            if t not in seen_handled:
                res["failures"].append(f"coverage: request '{t}' was never dispatched in this run")
            if k.get("mutating") == "1" and t not in seen_effect:
                res["failures"].append(f"coverage: the effect of mutating request '{t}' was never observed "
                                       "(its Mutating label is not validated)")
        for cls in ("unauthorized", "forbidden", "debug-disabled", "unsupported", "invalid", "handled"):
            if not by_class.get(cls):
                res["failures"].append(f"coverage: reply class {cls} never observed")
    stats = r.get("stats", {})
    res["coverage"].update({
        "dispatched_names": len(classes),
        "mutating_names": sorted(t for t, k in classes.items() if k.get("mutating") == "1"),
        "names_seen_dispatched": len(seen_handled),
        "mutating_names_seen_with_effect": len(seen_effect),
        "reply_classes": by_class,
        "lines_with_invalid_utf8": lossy,
        "per_type": per_type,
        "lines_per_second": round(r.get("ops", 0) / max(0.001, stats.get("wall-ms", 1) / 1000.0), 1),
    })
    # (3) corpus: the witnesses of the recorded findings are replayed by the harness against the real server on
    #     every run.  For an open finding the defective answer prints KNOWN-FINDING; for a fixed one (and for
    #     anything not listed) the answers of the fixed code are required, so a regression is a failing input.
    known = {f["id"]: f for f in vlib.known_findings("C18")}   # open ones only
    observed = {k[len("finding:"):]: v for k, v in stats.items() if k.startswith("finding:")}
    res["coverage"]["corpus_replays"] = observed
    CORPUS = {
        "C18-nonutf8-line-no-reply": {
            "what": "a request line that is not valid UTF-8 must be answered (lossily decoded) and the connection must go on",
            "expect": ["nonutf8-line:id=1_handled", "nonutf8-line-bare:id=0_invalid", "nonutf8-line-then-health:id=5_handled"],
        },
        "C18-debug-evaluate-self-deadlock": {
            "what": "debug.evaluate with a parsable expression must answer and release the metadata mutex",
            "expect": ["debug-evaluate:id=2_handled", "debug-evaluate-then-schema:id=3_handled",
                       "debug-evaluate-metadata-lock-free:true"],
        },
    }
    CORPUS["C18-debug-evaluate-stack-overflow"] = {
        "what": "debug.evaluate with a long / deeply nested expression must be answered (the process must not abort)",
        "expect": ["debug-evaluate-deep:id=6_handled"] + [f"debug-evaluate-deep-{n}:id=6_handled" for n in
                   ("parens", "nots", "chain-long", "fields", "depth-65")] + ["debug-evaluate-family:all-handled"],
    }
    CORPUS["C18-config-duration-overflow"] = {
        "what": "config.set of a millisecond value above i64::MAX / 1e6 must be answered (the connection thread must not panic)",
        "expect": ["config-duration-overflow:id=7_handled"],
    }
    if observed:
        for fid, spec in CORPUS.items():
            missing = [k for k in spec["expect"] if not observed.get(k)]
            if not missing:
                continue
            if fid in known:
                res["known"].append(f"{fid}: {known[fid]['what']}")
            else:
                res["oracle_failures"].append({
                    "what": f"corpus witness of {fid} regressed: {spec['what']}; expected {missing}, observed {observed}",
                    "finding": fid, "observed": observed,
                })
    return res


def replay(obj):
    """./check.py C18 --replay replays/C18-xxxx.json : re-run exactly that case against the current tree."""
    import sys
    import check
    if "case" not in obj or obj.get("case") in (None, "-"):
        print(json.dumps(obj, indent=1)[:4000])
        print("this replay names a broken obligation, not an input; re-run the check itself")
        return 1
    mod = sys.modules[__name__]
    r = check.standard_run(mod, obj.get("tier") or "quick", int(obj.get("seed") or 1), only=int(obj["case"]))
    for d in r["oracle_failures"]:
        print(f"case {d['case']}: {d['what']}\n  line : {d.get('request_line')}\n  impl : {d.get('impl')}")
    for d in r["disagreements"]:
        print(f"case {d['case']} op {d['op_index']}: {d['op'][:200]}\n  impl : {d['impl']}\n  model: {d['model']}")
    bad = bool(r["oracle_failures"] or r["disagreements"] or r["failures"])
    for f in r["failures"]:
        print("failure:", f[:400])
    print("replay:", "still fails" if bad else "passes")
    return 1 if bad else 0


if __name__ == "__main__":
    t = translate_control()
    print(json.dumps({k: (len(v) if isinstance(v, list) else v) for k, v in t.items() if k != "modules"}, indent=1))
    print("dispatched:", sum(len(m["handlers"]) for m in t["modules"]))
