"""C19 — web IDE file API stays inside the project and never loses a concurrent edit."""
import json
import re

import vlib

SPEC = {
    "id": "C19",
    "sub": "c19",
    "lean_modules": ["TrustVerif.Props.C19"],
    "tiers": {
        "quick": {"cases": 900, "extra": {}},
        "thorough": {"cases": 22000, "extra": {"stress": 40}},
    },
    "disagreement_is_violation": True,
    "rule": "case = sentinel tree (outside files, hidden entries, directory/file links pointing out, in, at hidden "
            "entries, dangling, looping; root sometimes nested or reached through a link) x sessions (editor, viewer, "
            "unknown token, expired through the clock hook) x ~25 API operations with generated path strings (existing "
            "entries incl. paths through links, new names, attack strings, decorations) and write_enabled on/off; every "
            "5th case is a protocol sequence (open/apply with honest, stale and wrong expected versions, disk rewritten "
            "by the harness to emulate stale unlocked reads, delete/create/rename in between); non-trivial = the tree "
            "changed or a path went through a link; distinct = by hash of the case's operation lines",
    "trusted_base": [],
    "assumptions": [],
}

MANIFEST = {
    "technique": "",
    "level_text": "",
    "level_note": "",
}


def extra(ctx):
    """Oracle-on-implementation results written by the harness as `# ORACLE-FAIL {json}` lines and
    reproduced known findings written as `# KNOWN <signature> ...` lines."""
    fails, known_seen = [], {}
    for c in ctx["cases"]:
        for l in c.lines:
            if l.startswith("# ORACLE-FAIL "):
                try:
                    obj = json.loads(l[len("# ORACLE-FAIL "):])
                except ValueError:
                    obj = {"raw": l}
                obj.update({"seed": ctx["seed"], "tier": ctx["tier"],
                            "what": "the property's own statement, evaluated on the implementation, failed",
                            "case_lines": c.lines[:400]})
                fails.append(obj)
            elif l.startswith("# KNOWN "):
                m = re.match(r"# KNOWN (\S+?):? (.*)", l)
                if m:
                    known_seen.setdefault(m.group(1).rstrip(":"), m.group(2))
    listed = {f["match"]: f for f in vlib.known_findings("C19")}
    known, failures = [], []
    for sig, detail in known_seen.items():
        if sig in listed:
            known.append(f"{listed[sig]['id']}: {listed[sig]['what']}")
        else:
            fails.append({"class": "unlisted-known-signature", "signature": sig, "detail": detail,
                          "seed": ctx["seed"], "tier": ctx["tier"]})
    stats = ctx["result"].get("stats", {})
    cov = {"coverage": {
        "oracle_only_ops": stats.get("oracle_only_ops", 0),
        "incidental_panics_in_analysis_ops": stats.get("incidental_panic_in_analysis_op", 0),
        "thread_stress_rounds": stats.get("stress_rounds", 0),
        "thread_stress_successful_writes": stats.get("stress_successes", 0),
    }}
    return {"oracle_failures": fails, "known": known, "failures": failures, **cov}
