"""C19 — web IDE file API stays inside the project and never loses a concurrent edit."""
import json
import re

import vlib

SPEC = {
    "id": "C19",
    "sub": "c19",
    "lean_modules": ["TrustVerif.Props.C19"],
    "tiers": {
        "quick": {"cases": 800, "extra": {"barrier": 300}},
        "thorough": {"cases": 15000, "extra": {"stress": 40, "barrier": 3000}},
    },
    "disagreement_is_violation": True,
    "rule": "case = sentinel tree (outside files, hidden entries, directory/file links pointing out, in, at hidden "
            "entries, dangling, looping; root sometimes nested or reached through a link) x sessions (editor, viewer, "
            "unknown token, expired through the clock hook) x ~25 API operations with generated path strings (existing "
            "entries incl. paths through links, new names, attack strings, decorations) and write_enabled on/off; every "
            "5th case is a protocol sequence (open/apply with honest, stale and wrong expected versions, disk rewritten "
            "by the harness to emulate stale unlocked reads, delete/create/rename in between, folder renames to derived "
            "names); after every rename/delete that changed the tree a follow-up open or stale save on every path ever "
            "opened (tracked-document bookkeeping; a save based on a snapshot from before a delete / rename / "
            "re-create must conflict); 14 scripted corpus cases (witnesses of repaired/open defects and of "
            "seeded mutants); a rename_symbol with a buffer that differs from the file at the end of every case that "
            "has r.st, and the scripted stale-buffer replay, must be refused without a write; non-trivial = the tree "
            "changed or a path went through a link; distinct = by hash of the case's operation lines",
    "trusted_base": [
        "Lean 4.33.0 kernel; axioms per theorem listed under 'theorems'",
        "hand-written model lean/TrustVerif/Model/C19.lean of normalize_workspace_path, resolve_workspace_path / "
        "closest_existing_parent, create_session, ensure_session / ensure_editor_session / prune_expired, open_source, "
        "apply_source, create_entry, rename_entry, delete_entry, list_sources, list_tree, workspace_search (no globs), "
        "format_source (result text not modelled), health; tied by this run's differential correspondence",
        "abstract file system of the model (physical paths -> file | dir | link with absolute target; realpath with a "
        "link-nesting bound of 40; closed-form semantics of exists, is_dir, canonicalize, symlink_metadata, "
        "read_to_string, write, create_dir_all, rename, remove_file, remove_dir_all incl. its ignore-NotFound final "
        "rmdir, read_dir): an assumption about std::fs on Linux, validated on every run by comparing the complete "
        "sentinel-tree diff after every operation",
        "transcription of std::path::Path::components (Unix) and of str::trim (Unicode White_Space table)",
        "Rust harness vharness c19 (tree generator, full-tree snapshots, oracles, token <-> index mapping)",
    ],
    "assumptions": [
        "well-formed file system (every node's parent is a directory): hypothesis WF of c19_confined; its preservation "
        "by the model's primitives is not proved",
        "the file system changes only through the API while an operation runs (no symlink swapped between check and use)",
        "Unix path syntax (backslash is an ordinary character); symbolic links with absolute targets in the generator",
        "versions stay below u64::MAX: hypothesis traceCost tr + 2 < u64::MAX of the protocol theorems (2 per step, "
        "k + 2 for a foreign document retired at version k)",
        "a 'read' is file content or a directory listing; the metadata look-ups of canonicalize/exists made while "
        "checking a path are not counted as reads",
        "the version protocol theorems cover open_source / apply_source, the tracked-text overrides of the analysis "
        "requests, delete_entry / create_entry / rename_entry away and onto the path, evictions of the tracked document, "
        "the version floor shared with other documents, and rename_symbol, on ONE document key per file; a second key "
        "for the same file (in-root directory link) is outside it (open finding C19-alias-keys with a proved "
        "counterexample)",
        "rename_symbol in the protocol model is its version bookkeeping (refuse a differing buffer, else read-modify-"
        "write under one lock hold with an arbitrary result text); the analysis that computes the text is not modelled, "
        "and its tie to the code is the scripted replay and the per-case stale-buffer probe (oracles), not the "
        "differential comparison",
    ],
}

MANIFEST = {
    "technique": "Lean 4 proofs over an executable model (pure path normaliser; abstract file system with symbolic "
                 "links; every API operation as its gates and std::fs calls in program order; the version protocol as a "
                 "transition system over interleavings of unlocked reads and locked sections) + differential "
                 "correspondence and property oracles against the real WebIdeState on sentinel directory trees",
    "level_text": "Proved for all inputs, no bound: c19_normal_form (every accepted path string yields non-empty, "
                  "slash-free, non-hidden, non-dot components that the OS re-parses identically); c19_confined (every "
                  "effect of every modelled operation - content read, directory listed, file written, directory "
                  "created, entry removed or moved - is physically below the canonical root through visible names only, "
                  "for every well-formed file system with links anywhere, every session table and every argument); "
                  "c19_gates_first / c19_refused_keeps_documents (unless write_enabled and a live editor token, the file "
                  "system, tracked documents and audit log are unchanged and no mutation was attempted before the "
                  "refusal); c19_no_lost_update_partial, c19_version_chain_partial, c19_one_success_per_version_partial, "
                  "c19_disk_is_last_success_partial (all interleavings "
                  "of any number of clients' unlocked reads and locked sections, arbitrary expected versions, "
                  "tracked-text overrides, deletions / re-creations / evictions of the document, retirements of other "
                  "documents and rename_symbol calls: versions are never handed out twice, every successful write "
                  "found the previous success's content - or no file after a delete_entry - on disk). Each run executes the model and the real WebIdeState on the same generated "
                  "trees and operation sequences and compares every answer and the whole-tree diff after every "
                  "operation, independently evaluates confinement, authorisation, no-leak and no-lost-update "
                  "oracles on the implementation, and runs real-thread contention (4 editor sessions released by a "
                  "barrier on the same expected version, hundreds of rounds): at most one success per version, v -> v+1, "
                  "file = content of that success.",
    "level_note": "Partial where the code violates the property: the no-lost-update / chain / last-success theorems hold "
                  "for every step on one document key; a write through a second document key of the same file (alias "
                  "through an in-root directory link, needs a stale read) breaks it - proved counterexample "
                  "c19_counterexample_alias_keys, replayed on the real code on every run and listed as an open known "
                  "finding. The former findings C19-version-reuse (delete_entry + create_entry restarted versions at 1) "
                  "and C19-rename-symbol-bypass (rename_symbol wrote a stale buffer without a version check) are "
                  "repaired in /repo; their witnesses (corpus cases 4, 11-13; the rename_symbol replay) are replayed on "
                  "every run and the old behaviour is a violation. Stale unlocked reads are emulated sequentially (the "
                  "harness shows the locked section a content the file really had after the client's snapshot). "
                  "Trusted, not proved: the hand-written model and the abstract std::fs semantics (validated only by the "
                  "differential run, whose generator bounds what it sees); well-formedness of the file system is a "
                  "hypothesis (preservation not proved); that the model's file system changes nowhere but at the logged "
                  "effect locations is not separately proved (the run compares full tree diffs); no TOCTOU races with "
                  "concurrent external changes; rename_symbol and the analysis requests (diagnostics, hover, completion, "
                  "definition, references, symbols), glob filters of search, very long and NUL-containing paths are "
                  "checked by the oracles on the implementation only, not modelled; the atomicity of apply_source's locked "
                  "section (check, disk write, commit under one lock hold) is a modelling decision (Proto.applyLocked; "
                  "c19_counterexample_split_apply shows the theorems fail without it) that sequential runs cannot see - "
                  "it is tied to the code by the barrier contention run only, i.e. by testing (schedule-dependent); browse_directory and set_active_project leave the project by design and "
                  "are out of scope.",
}


def extra(ctx):
    """Oracle-on-implementation results written by the harness as `# ORACLE-FAIL {json}` lines and
    reproduced known findings written as `# KNOWN <signature> ...` lines."""
    fails, known_seen = [], {}
    for c in ctx["cases"]:
        for l in c.lines:
            if l.startswith("# ORACLE-FAIL "):
                try:
                    obj = json.loads(l[len("# ORACLE-FAIL "):])
                except ValueError:
                    obj = {"raw": l}
                if obj.get("schedule_dependent"):
                    obj["replay_note"] = ("schedule-dependent: found by real threads released together by a barrier; "
                                          "re-running the check repeats the contention (hundreds of rounds), not this "
                                          "exact schedule; 'trace' is what the round's threads observed")
                obj.update({"seed": ctx["seed"], "tier": ctx["tier"],
                            "what": "the property's own statement, evaluated on the implementation, failed",
                            "case_lines": c.lines[:400]})
                fails.append(obj)
            elif l.startswith("# KNOWN "):
                m = re.match(r"# KNOWN (\S+?):? (.*)", l)
                if m:
                    known_seen.setdefault(m.group(1).rstrip(":"), m.group(2))
    listed = {f["match"]: f for f in vlib.known_findings("C19")}
    known, failures = [], []
    for sig, detail in known_seen.items():
        if sig in listed:
            known.append(f"{listed[sig]['id']}: {listed[sig]['what']}")
        else:
            fails.append({"class": "unlisted-known-signature", "signature": sig, "detail": detail,
                          "seed": ctx["seed"], "tier": ctx["tier"]})
    stats = ctx["result"].get("stats", {})
    cov = {"coverage": {
        "oracle_only_ops": stats.get("oracle_only_ops", 0),
        "incidental_panics_in_analysis_ops": stats.get("incidental_panic_in_analysis_op", 0),
        "barrier_contention_rounds": stats.get("barrier_rounds", 0),
        "barrier_contention_successful_writes": stats.get("barrier_successes", 0),
        "thread_stress_rounds": stats.get("stress_rounds", 0),
        "thread_stress_successful_writes": stats.get("stress_successes", 0),
    }}
    return {"oracle_failures": fails, "known": known, "failures": failures, **cov}
