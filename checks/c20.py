"""C20 — resource threads: consistent shared globals; pause/resume/stop always work."""
import collections

import vlib

SPEC = {
    "id": "C20",
    "sub": "c20",
    "lean_modules": ["TrustVerif.Props.C20"],
    "tiers": {
        # ops = upper bound of the random part of a script; stress_attempts = cycles per stress case
        "quick": {"cases": 150, "extra": {"ops": 36, "stress_attempts": 300, "stress_ops": 80}},
        "thorough": {"cases": 5000, "extra": {"ops": 60, "stress_attempts": 2000, "stress_ops": 400}},
    },
    "timeout": 7200,
    # Scripted and API cases: the compared status (position of every thread, published state, cycles
    # entered/completed, what each cycle saw and wrote, shared values, retain saves, last error,
    # mesh snapshots) is what the property speaks about and the model is proved to have the
    # property, so a disagreement is a failing input.  Stress cases compare the recorded lock-order
    # history with its serial replay (the statement of c20_serialisable) and flag a cycle between
    # an observed Paused and the Resume (c20_paused_no_cycle).
    "disagreement_is_violation": True,
    "rule": "case kinds (by case number mod 10): 0 = API case (SharedGlobals::from_runtime with unknown names, a random "
            "tick_with_shared sequence over 1-4 runners with fault injection; case 10 is the panic scenario = regression witness of b10bc40); 3,7 = stress "
            "case (2-4 free-running resource threads, random controller: clock advances, pause rounds confirmed by reading "
            "Paused, resume, fault inputs, stop midway, stop-while-paused; lock order and per-cycle values recorded by the "
            "I/O driver inside the locked closure); otherwise scripted case = generated configuration (1-4 resources, own or "
            "shared ManualClocks, intervals incl. 0 and 1 ns, time scale, start gate, fault policy Halt/Restart, debugger "
            "state per resource (none / DebugControl attached idle / breakpoint armed never hit / breakpoint hit in every "
            "cycle and continued by a client thread; also in API and stress cases; ignored by the model), increments, "
            "initial values, set/order/duplicates of shared names) x adaptive script of 8-44 (thorough 8-68) controller "
            "operations (grant one loop iteration, advance a clock, pause/resume with and without wake, stop, open the gate, "
            "hold/release a resource inside its locked cycle, fault-injection input, MeshApply/MeshSnapshot), status compared "
            "after EVERY operation. non-trivial = scripted case in which >= 2 resources completed cycles and which contains "
            "lock contention (a thread observed blocked on the mutex while another is inside its cycle), a loop iteration "
            "of a paused resource, or a fault; every stress case; an API case with a fault and >= 2 runners. distinct = by "
            "hash of the case's operation lines",
    "trusted_base": [
        "Lean 4.33.0 kernel; axioms per theorem listed under 'theorems'",
        "hand-written model lean/TrustVerif/Model/C20.lean of run_resource_loop_with_shared, tick_with_shared, "
        "SharedGlobals::{from_runtime,with_lock,sync_into_locked,sync_from_locked}, ManualClock, StartGate, "
        "ResourceControl::{pause,resume,stop,send_command}, Runtime::{snapshot_globals,apply_mesh_updates}; tied to the "
        "code only by this run's correspondence",
        "Rust harness vharness c20: Clock wrapper StepClock (rendezvous in now(), everything else delegated to the real "
        "ManualClock), I/O driver Probe (rendezvous, lock-order stamps, per-cycle outputs), counting RetainStore, "
        "the quiescence detection and its controller-side clock bookkeeping",
        "std::sync::Mutex / Condvar / mpsc / AtomicBool behave as documented (mutual exclusion, FIFO channel, no lost "
        "notification while the mutex is held, SeqCst)",
    ],
    "assumptions": [
        "OS scheduler fairness: every thread that can act eventually does (the theorems bound the NUMBER of own actions "
        "to termination, not wall time)",
        "execute_cycle returns (no endless loop in user code, no blocking I/O driver); panics are outside the model "
        "(the thread of a panicking resource dies with state Running; that the OTHER resources survive is checked by "
        "the panic scenario, case 10, only)",
        "values are integers without wrap-around (the generated counters stay far below 2^31)",
        "no restart signal, no simulation controller, wall-clock watchdog disabled (the defaults), one start gate "
        "shared by the gated resources",
    ],
}

MANIFEST = {
    "technique": "Lean 4 proofs over a labelled transition system of the resource loop (invariants, forward simulation "
                 "to an atomic reference system, termination measure) + differential correspondence against the real "
                 "threads under scripted schedules + serial replay of recorded lock orders from free-running threads",
    "level_text": "Model: every thread action of run_resource_loop_with_shared that touches shared memory is one transition "
                  "(the locked closure sync_into; execute_cycle; sync_from is five), the controller and the clocks are "
                  "environment transitions, so every interleaving is an execution. Proved for every system (any number "
                  "of resources, any cycle function, inputs, configuration), every execution, unbounded: mutual exclusion "
                  "(c20_mutual_exclusion); serialisability = every execution is matched action by action by the system in "
                  "which each locked closure is atomic, in lock order (c20_serialisable, forward simulation); the cycle "
                  "runs on exactly the current shared map and nobody else changes it until its write-back "
                  "(c20_cycle_sees_snapshot, c20_lock_protects); invariants of whole cycles hold in every reachable state "
                  "(c20_shared_invariant); for the counter programs, with faults injected at any point, sum of increments "
                  "of the cycles that returned Ok = shared counter and pa = pb unconditionally (c20_counter_sum, "
                  "c20_pair_equal); once Paused is readable no execute_cycle happens along any "
                  "continuation without Resume (c20_paused_no_cycle); with stop set and the clock interrupted the thread "
                  "ends after at most stopFuel + (commands sent meanwhile) own actions and is blocked only by a live "
                  "mutex owner, which releases within 4 actions (c20_stop_terminates, c20_stop_never_stuck, "
                  "c20_lock_owner_progress); final state and number of retain saves per exit path (c20_final_state, "
                  "c20_saves_once); an ended thread never owns the mutex and blocking depends on no other thread's state "
                  "(c20_fault_isolated, c20_blocked_iff). Each run executes the model and the real threads "
                  "(spawn_with_shared, real ManualClock/StartGate/SharedGlobals/command channel, programs built by the "
                  "real compiler) on the same generated schedules and compares the full status after every operation.",
    "level_note": "Partial. Proved about the MODEL; the model is tied to the code only by the differential run (scripted "
                  "schedules park threads at the clock read of each iteration and inside read_inputs, so interleavings finer "
                  "than that are exercised only by the stress cases, whose schedules are whatever the OS produced). Trusted: "
                  "Lean kernel + propext/Quot.sound/Classical.choice; std Mutex/Condvar/mpsc semantics; OS fairness "
                  "(termination is a bound on own steps, not on time; the harness reports a thread that does not end within "
                  "20 s as hang). The statement's 'stop ... leaves the state Stopped and saves once' is proved per exit path: "
                  "after a fault the state stays Faulted and NOTHING is saved, a thread stopped at the closed gate saves "
                  "nothing (both are what the code does). Two defects found by this check are fixed in /repo and the model "
                  "follows the fixed code: a faulted cycle is no longer written back (0e93b8c; pair theorem now "
                  "unconditional), a panic inside a cycle no longer poisons the SharedGlobals mutex (b10bc40; outside the "
                  "model, regression witness = case 10 of every run, a reproduction is a violation). Not modelled: restart signal, simulation hooks, wall-clock watchdog, ReloadBytecode and the "
                  "Update* commands, StdClock/ScaledClock, integer wrap-around.",
}

# tags written by the harness that mean a fixed finding is back (regression witnesses)
REGRESSIONS = {
    "partial-publish": "SharedGlobals holds pa != pb at the end of a case: a cycle that faulted between the two writes "
                       "was written back (finding C20-faulted-cycle-publishes-partial-writes, fixed by 0e93b8c, is back)",
    "poison-others-killed": "a panic inside one resource's cycle ended the other resource thread (poisoned SharedGlobals "
                            "mutex; finding C20-panic-poisons-shared-globals, fixed by b10bc40, is back)",
    "poison-get-panics": "after a panic inside one resource's cycle SharedGlobals::get panics in the caller",
    "poison-other-stuck": "after a panic inside one resource's cycle the other resource neither completed a cycle nor ended",
    "poison-other-wrong-state": "after a panic inside one resource's cycle the other resource published a wrong state, "
                                "a wrong shared counter, or did not end Stopped on stop",
}


def extra(ctx):
    cases = ctx["cases"]
    tags = collections.Counter(t for c in cases for t in c.tags)
    listed = {f.get("match"): f for f in vlib.known_findings("C20") if f.get("match")}
    known, oracle_failures, failures = [], [], []
    for sig, what in REGRESSIONS.items():
        if not tags[sig]:
            continue
        if sig in listed:  # re-opened by the coordinator
            f = listed[sig]
            known.append(f"{f['id']}: {f['what']} (reproduced in {tags[sig]} case(s) of this run)")
            continue
        n = next(c.n for c in cases if sig in c.tags)
        oracle_failures.append({"what": what, "case": n, "seed": ctx["seed"], "tier": ctx["tier"],
                                "cases_with_this_signature": tags[sig]})
    ran_poison = any(c.n == "10" for c in cases)
    if ran_poison and not any(t.startswith("poison-") for t in tags):
        failures.append("the panic scenario (case 10) produced no verdict")
    if len(cases) >= 50:
        for need in ("contention", "paused-go", "fault", "stress", "api", "debugger-armed", "stress-debugger-armed",
                     "poison-others-survive"):
            if not tags[need] and not (need == "poison-others-survive" and any(t.startswith("poison-") for t in tags)):
                failures.append(f"the generator produced no '{need}' case in {len(cases)} cases")
    coverage = {"case_tags": dict(sorted(tags.items()))}
    return {"coverage": coverage, "known": known, "oracle_failures": oracle_failures, "failures": failures}


def replay(obj):
    """Re-run the recorded case (same seed, tier and case number) and report whether it still fails.
    Scripted and API cases replay exactly; a stress case is a fresh OS schedule of the same
    configuration and controller script, so a failure seen once may need several replays."""
    import json
    import sys

    import check

    mod = sys.modules[__name__]
    if "case" not in obj:
        print(json.dumps(obj, indent=1))
        print("this replay names a broken obligation, not an input; re-run the check itself")
        return 1
    r = check.standard_run(mod, obj.get("tier", "quick"), obj["seed"], only=obj["case"])
    for d in r["disagreements"]:
        print(f"case {d['case']} op {d['op_index']}: {d['op']}\n  impl : {d['impl']}\n  model: {d['model']}")
    for o in r["oracle_failures"]:
        print(f"oracle on the implementation: {o['what']}")
    for k in r["known"]:
        print(f"KNOWN-FINDING: property=C20 {k}")
    bad = bool(r["disagreements"] or r["failures"] or r["oracle_failures"])
    print("replay:", "still fails" if bad else "passes")
    return 1 if bad else 0
