"""C20 — resource threads: consistent shared globals; pause/resume/stop always work."""

SPEC = {
    "id": "C20",
    "sub": "c20",
    "lean_modules": ["TrustVerif.Props.C20"],
    "tiers": {
        "quick": {"cases": 150, "extra": {}},
        "thorough": {"cases": 5000, "extra": {}},
    },
    "disagreement_is_violation": True,
    "rule": "TODO",
    "trusted_base": [],
    "assumptions": [],
}

MANIFEST = {
    "technique": "TODO",
    "level_text": "TODO",
    "level_note": "TODO",
}
