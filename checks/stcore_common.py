"""Shared part of the C01 / C02 / C03 checks (one ST-core model, one harness generator, one driver).

`make_extra(pid)` builds the `extra(ctx)` step of a check: it runs pass 2 of the driver
(`driver c0x oracle`), which evaluates the property's own statement on the IMPLEMENTATION's
answers, and sorts every failure signature into

* a recorded finding of known_findings.json (regex `match` on the signature)  -> KNOWN-FINDING
* anything else                                                                -> oracle failure = VIOLATION

Signatures never start with `strict:`-known matches: inside the guard `Strict` (the region the
`_partial` theorems cover) every failure is a violation.  The same holds for `unmodelled:`: the
driver puts that prefix on every failure of a case on which the implementation did not behave
exactly as the model of the code as it is (or for which there is no model: the oracle-only
streams) — a recorded finding explains only behaviour the model reproduces.
"""
import binascii
import os
import re
import subprocess

import vlib
from checks.stcore_translate import translate_faults  # noqa: F401  (re-exported for SPEC["translators"])

FIELD = {"C01": "c01", "C02": "c02", "C03": "c03"}


def case_source(case):
    for l in case.lines:
        if l.startswith("src "):
            try:
                return binascii.unhexlify(l[4:].strip()).decode(errors="replace")
            except Exception:
                return None
    return None


def run_oracle(sub, cases_path):
    out_path = cases_path.replace(".cases.txt", ".oracle.txt")
    with open(cases_path, "rb") as fin, open(out_path, "wb") as fout:
        p = subprocess.run([vlib.DRIVER, sub, "oracle"], stdin=fin, stdout=fout, stderr=subprocess.PIPE, timeout=3600)
    if p.returncode != 0:
        raise RuntimeError("driver oracle pass failed: " + p.stderr.decode(errors="replace")[-400:])
    rows = {}
    for line in open(out_path, encoding="utf-8", errors="replace"):
        w = line.split()
        if len(w) < 3 or w[0] != "o":
            continue
        if w[2] in ("bad-op", "raw"):
            rows[w[1]] = {"kind": w[2]}
            continue
        d = dict(x.split("=", 1) for x in w[2:] if "=" in x)
        d["kind"] = "case"
        rows[w[1]] = d
    return rows


RAW_EXPECT = {
    # id -> (property, regex the observation must match for the finding to "still reproduce")
    "power-right-associative": ("C02", r"x=DInt:512"),
    "mixed-positional-formal-call": ("C02", r"r=Int:2 "),
    "return-variable-case": ("C02", r"r=Int:0 "),
    "recursion-stack-overflow": ("C01", r"^child-killed signal="),
    "fb-omitted-input-reset": ("C02", r"r1=Int:200 r2=\w+:5 "),
    "fb-input-default-not-applied": ("C02", r"r0=Int:0 "),
    "struct-field-initialiser-ignored": ("C02", r" d=DInt:0 "),
    "variable-name-case": ("C01", r"^UndefinedVariable "),
    "temp-initialiser-undefined": ("C01", r"^UndefinedVariable "),
    "temp-initialiser-family": ("C03", r" x=Bool:1 y=DInt:3"),
}


RAW_FIXED = {
    # witnesses of FIXED findings: the observation the repaired code must give; anything else is a
    # regression and therefore a violation
    "fb-call-without-arguments": ("C01", r"^ok frames=0 r=\w+:5 "),
    # `b := +1` (b : BOOL) and `x := 1 & 2` (x : DINT) are type errors
    "unary-plus-untyped": ("C01", r"^reject "),
    "ampersand-untyped": ("C01", r"^reject "),
    # `K(N := INT#4)` binds the input `n`; `p.X` is the field `x`
    "named-argument-case": ("C02", r"^ok frames=0 r1=Int:4 r2=Int:4 "),
    "struct-field-case": ("C01", r"^ok frames=0 v=Int:0 "),
}


def make_extra(pid):
    field = FIELD[pid]

    def extra(ctx):
        cases = ctx["cases"]
        tier = ctx["tier"]
        cases_path = os.path.join(vlib.WORK, f"{pid}.{tier}.cases.txt")
        rows = run_oracle(pid.lower(), cases_path)
        findings = vlib.known_findings(pid)
        res = {"coverage": {}, "oracle_failures": [], "known": [], "failures": []}
        hist, reproduced, examples = {}, {}, {}
        n_strict = n_spec = n_acc = bad = 0
        by_case = {c.n: c for c in cases}
        for n, row in rows.items():
            if row["kind"] == "bad-op":
                bad += 1
                continue
            if row["kind"] == "raw":
                continue
            n_acc += row.get("acc") == "1"
            n_strict += row.get("strict") == "1" and row.get("acc") == "1"
            n_spec += row.get("spec") == "1" and row.get("acc") == "1"
            sig = row.get(field, "missing-field")
            hist[sig] = hist.get(sig, 0) + 1
            if sig in ("ok", "na"):
                continue
            hit = None
            if not sig.startswith(("strict", "unmodelled")):
                for f in findings:
                    if re.search(f["match"], sig):
                        hit = f
                        break
            if hit is not None:
                reproduced[hit["id"]] = reproduced.get(hit["id"], 0) + 1
                examples.setdefault(hit["id"], n)
                continue
            c = by_case.get(n)
            res["oracle_failures"].append({
                "what": f"{pid} oracle failed on the implementation: {sig}",
                "signature": sig,
                "case": n,
                "seed": ctx["seed"],
                "tier": tier,
                "source": case_source(c) if c else None,
                "case_lines": [l for l in (c.lines if c else []) if not l.startswith("src ")][:60],
            })
        # raw witnesses (outside the model's grammar): the observation is in a comment line
        for c in cases:
            for l in c.lines:
                if l.startswith("# rawobs "):
                    _, _, wid, obs = l.split(" ", 3)
                    fixed = RAW_FIXED.get(wid)
                    if fixed and fixed[0] == pid and not re.search(fixed[1], obs):
                        res["oracle_failures"].append({
                            "what": f"{pid} regression: witness {wid} of a fixed finding misbehaves again",
                            "signature": f"raw-regression:{wid}", "case": c.n, "seed": ctx["seed"], "tier": tier,
                            "source": case_source(c), "observed": obs[:300],
                        })
                    exp = RAW_EXPECT.get(wid)
                    if exp and exp[0] == pid and re.search(exp[1], obs):
                        fid = f"{pid}-{wid}"
                        if any(f["id"] == fid for f in findings):
                            reproduced[fid] = reproduced.get(fid, 0) + 1
                            examples.setdefault(fid, c.n)
        for f in findings:
            k = reproduced.get(f["id"], 0)
            if k:
                res["known"].append(f"{f['id']}: {f['what']} [reproduced on {k} case(s), e.g. case {examples[f['id']]}]")
        if bad:
            res["failures"].append(f"oracle pass answered bad-op for {bad} case(s)")
        res["coverage"] = {
            "oracle_signature_histogram": dict(sorted(hist.items(), key=lambda kv: -kv[1])),
            "accepted_programs": n_acc,
            "accepted_programs_inside_guard_Strict": n_strict,
            "accepted_programs_typed_by_reference": n_spec,
            "findings_not_reproduced_this_run": [f["id"] for f in findings if not reproduced.get(f["id"])],
        }
        return res

    return extra


def make_replay(pid):
    """`./check.py Cxx --replay file`: re-run exactly the case of the replay file (same seed, tier and
    case number) and report both kinds of failure: model/implementation disagreement and oracle
    failure on the implementation."""

    def replay(obj):
        import json
        import sys

        import check  # the orchestrator module (check.py)

        if "case" not in obj:
            print(json.dumps(obj, indent=1)[:4000])
            print("this replay names a broken obligation, not an input; re-run the check itself")
            return 1
        mod = sys.modules[f"checks.{pid.lower()}"]
        try:
            only = int(obj["case"])
        except ValueError:
            print("replay file has no numeric case")
            return 1
        r = check.standard_run(mod, obj.get("tier", "quick"), obj["seed"], only=only)
        bad = False
        for d in r["disagreements"]:
            bad = True
            print(f"case {d['case']} op {d['op_index']}: {d['op']}\n  impl : {d['impl']}\n  model: {d['model']}")
        for d in r["oracle_failures"]:
            bad = True
            print(f"case {d['case']}: {d['what']}")
            if d.get("source"):
                print(d["source"])
        for f in r["failures"]:
            bad = True
            print("failure:", f)
        print("replay:", "still fails" if bad else "passes")
        return 1 if bad else 0

    return replay


COMMON_TRUSTED = [
    "Lean 4.33.0 kernel; axioms per theorem listed under 'theorems'",
    "hand-written model lean/TrustVerif/Model/StCore.lean (interpreter: eval/ops.rs, numeric.rs, eval/expr/eval.rs, "
    "eval/expr/access.rs, eval/stmt.rs, runtime/cycle.rs execute_program; literal lowering harness/lower/expr.rs) and "
    "Model/StCheck.lean (what the compiler accepts on the fragment), both tied by this run's correspondence: same "
    "accept/reject verdict and, per scan cycle, same outcome, frame count and tagged value of every variable",
    "translator checks/stcore_translate.py (variant names of enum RuntimeError; the classification in Lean has no wildcard)",
    "Rust harness vharness c01/c02/c03 (generator, printer with minimal parentheses, dump through Runtime::storage())",
    "Rust integer semantics as modelled (i128/u128 intermediate arithmetic, try_from range checks, checked_neg/checked_add/checked_pow)",
]
