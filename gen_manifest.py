#!/usr/bin/env python3
"""Regenerates MANIFEST.json from checks/*.py (SPEC / MANIFEST entries) so it is always valid."""
import importlib
import json
import os
import sys

HERE = os.path.dirname(os.path.abspath(__file__))
sys.path.insert(0, HERE)

ALL = [f"C{i:02d}" for i in range(1, 21)]

def main():
    checks, na = [], []
    for pid in ALL:
        path = os.path.join(HERE, "checks", pid.lower() + ".py")
        if not os.path.exists(path):
            na.append({"property_id": pid, "reason": "not claimed yet: check under construction (see DESIGN.md section 6 for the planned model and theorems)"})
            continue
        mod = importlib.import_module(f"checks.{pid.lower()}")
        m = getattr(mod, "MANIFEST", None)
        if m is None or m.get("claimed", True) is False:
            na.append({"property_id": pid, "reason": (m or {}).get("reason", "not claimed yet")})
            continue
        checks.append({
            "property_id": pid,
            "quick_cmd": f"./check.py {pid} --tier quick",
            "thorough_cmd": f"./check.py {pid} --tier thorough",
            "evidence_file": f"/verif/evidence/{pid}.json",
            "replay_cmd_template": f"./check.py {pid} --replay {{path}}",
            "engine": "lean4-proof+correspondence",
            "level_claimed": {"category": "proof", "text": m["level_text"], "design_ref": m.get("design_ref", f"DESIGN.md section 6, {pid}")},
            "level_note": m["level_note"],
            "technique": m["technique"],
        })
    manifest = {
        "version": 1,
        "setup_cmd": "./setup.sh",
        "hooks": {
            "guard": "cargo feature verif-hooks (declared in the crates that carry a hook; off by default)",
            "enable": "the harness crate /verif/harness is built with --features verif-hooks, which forwards to the trust-* crates' verif-hooks features",
            "baseline_off_cmd": "cd /repo && cargo nextest run --workspace --no-fail-fast --tool-config-file pb:/w/lib/nextest.toml --profile pb --test-threads 8 --offline || cargo test --workspace --no-fail-fast --offline",
            "source_commits": json.load(open(os.path.join(HERE, "hooks.json")))["source_commits"] if os.path.exists(os.path.join(HERE, "hooks.json")) else [],
            "add_only": True,
        },
        "engines": [
            {"name": "lean4-proof+correspondence", "path": "/verif/check.py",
             "serves_properties": [c["property_id"] for c in checks],
             "kind_free_text": "Lean 4 theorems about hand-written executable models (lean/TrustVerif), tied to /repo on every run by a differential correspondence run: the Rust harness (harness/) executes the real code on generated cases, the compiled Lean driver executes the model on the same cases, check.py diffs the canonical outputs"},
        ],
        "checks": checks,
        "not_applicable": na,
        "notes": "All checks rebuild the Rust harness against /repo's working tree (path dependencies) and re-check the Lean proofs; see DESIGN.md.",
    }
    with open(os.path.join(HERE, "MANIFEST.json"), "w") as f:
        json.dump(manifest, f, indent=1)
        f.write("\n")
    print(f"{len(checks)} checks claimed, {len(na)} not claimed")

if __name__ == "__main__":
    main()
