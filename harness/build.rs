//! Generates `registry.rs`: one `mod cXX;` per `src/cXX*.rs` plus the dispatcher, so that adding a
//! property never edits a shared file.
use std::fmt::Write as _;
use std::path::Path;

fn main() {
    let src = Path::new(&std::env::var("CARGO_MANIFEST_DIR").unwrap()).join("src");
    let mut mods: Vec<String> = std::fs::read_dir(&src)
        .unwrap()
        .filter_map(|e| e.ok())
        .filter_map(|e| {
            let name = e.file_name().to_string_lossy().to_string();
            let stem = name.strip_suffix(".rs")?.to_string();
            let b = stem.as_bytes();
            (b.len() >= 3 && b[0] == b'c' && b[1].is_ascii_digit() && b[2].is_ascii_digit())
                .then_some(stem)
        })
        .collect();
    mods.sort();
    let mut out = String::new();
    for m in &mods {
        let p = src.join(format!("{m}.rs"));
        writeln!(out, "#[path = {:?}]\npub mod {m};", p.display().to_string()).unwrap();
    }
    out.push_str("pub fn dispatch(name: &str, args: &crate::Args) -> Option<i32> {\n    match name {\n");
    for m in &mods {
        writeln!(out, "        {m:?} => Some({m}::run(args)),").unwrap();
    }
    out.push_str("        _ => None,\n    }\n}\n");
    let dest = Path::new(&std::env::var("OUT_DIR").unwrap()).join("registry.rs");
    std::fs::write(dest, out).unwrap();
    println!("cargo:rerun-if-changed=src");
    println!("cargo:rerun-if-changed=build.rs");
}
