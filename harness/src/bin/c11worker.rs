//! c11worker: child process of `vharness c11`.  Runs the REAL bytecode code (decode, encode,
//! validate, metadata, apply_bytecode_bytes) on one container per job under an address-space limit
//! and a counting global allocator, so that aborts (allocation failure, stack overflow), panics and
//! memory blow-ups become observables of the parent instead of killing the check.
//!
//! stdin : `job <runtime-source-hex> <resource-name-hex|none> <container-hex>` per line
//! stdout: `S <stage>` before each stage, `D|V|M|A|X <result>` after it, `K <k> <composite value>` and
//!         `R <runtime view>` before the apply, `E` when the job is complete.  A stage that never answers killed the process.

use std::alloc::{GlobalAlloc, Layout, System};
use std::collections::HashMap;
use std::io::{BufRead, Write};
use std::sync::atomic::{AtomicUsize, Ordering};

use trust_runtime::bytecode::{BytecodeError, BytecodeMetadata, BytecodeModule};
use trust_runtime::error::RuntimeError;
use trust_runtime::harness::{bytecode_bytes_from_source, TestHarness};
use trust_runtime::memory::{IoArea, MemoryLocation};
use trust_runtime::value::{RefSegment, Value, ValueRef};
use trust_runtime::Runtime;

// ---------------------------------------------------------------------------------------------
// counting allocator
// ---------------------------------------------------------------------------------------------

struct Counting;
static LIVE: AtomicUsize = AtomicUsize::new(0);
static PEAK: AtomicUsize = AtomicUsize::new(0);
static MAXREQ: AtomicUsize = AtomicUsize::new(0);

fn note_alloc(size: usize) {
    let live = LIVE.fetch_add(size, Ordering::Relaxed) + size;
    PEAK.fetch_max(live, Ordering::Relaxed);
    MAXREQ.fetch_max(size, Ordering::Relaxed);
}

unsafe impl GlobalAlloc for Counting {
    unsafe fn alloc(&self, layout: Layout) -> *mut u8 {
        note_alloc(layout.size());
        System.alloc(layout)
    }
    unsafe fn alloc_zeroed(&self, layout: Layout) -> *mut u8 {
        note_alloc(layout.size());
        System.alloc_zeroed(layout)
    }
    unsafe fn dealloc(&self, ptr: *mut u8, layout: Layout) {
        LIVE.fetch_sub(layout.size(), Ordering::Relaxed);
        System.dealloc(ptr, layout)
    }
    unsafe fn realloc(&self, ptr: *mut u8, layout: Layout, new_size: usize) -> *mut u8 {
        // a grow is a request for the new size
        MAXREQ.fetch_max(new_size, Ordering::Relaxed);
        if new_size >= layout.size() {
            let live = LIVE.fetch_add(new_size - layout.size(), Ordering::Relaxed) + new_size - layout.size();
            PEAK.fetch_max(live, Ordering::Relaxed);
        } else {
            LIVE.fetch_sub(layout.size() - new_size, Ordering::Relaxed);
        }
        System.realloc(ptr, layout, new_size)
    }
}

#[global_allocator]
static ALLOC: Counting = Counting;

struct Meter {
    base: usize,
}
impl Meter {
    fn start() -> Self {
        let base = LIVE.load(Ordering::Relaxed);
        PEAK.store(base, Ordering::Relaxed);
        MAXREQ.store(0, Ordering::Relaxed);
        Meter { base }
    }
    /// (peak live bytes above the start, largest single request)
    fn stop(&self) -> (usize, usize) {
        (
            PEAK.load(Ordering::Relaxed).saturating_sub(self.base),
            MAXREQ.load(Ordering::Relaxed),
        )
    }
}

// ---------------------------------------------------------------------------------------------
// canonical rendering (must match lean/TrustVerif/Drv/C11.lean)
// ---------------------------------------------------------------------------------------------

fn hex(bytes: &[u8]) -> String {
    if bytes.is_empty() {
        return "-".into();
    }
    let mut s = String::with_capacity(bytes.len() * 2);
    for b in bytes {
        s.push_str(&format!("{b:02x}"));
    }
    s
}

fn unhex(s: &str) -> Vec<u8> {
    if s == "-" {
        return Vec::new();
    }
    (0..s.len() / 2)
        .map(|i| u8::from_str_radix(&s[2 * i..2 * i + 2], 16).expect("hex"))
        .collect()
}

fn fnv64(bytes: &[u8]) -> u64 {
    let mut h: u64 = 0xcbf29ce484222325;
    for b in bytes {
        h ^= *b as u64;
        h = h.wrapping_mul(0x100000001b3);
    }
    h
}

fn msg_code(msg: &str) -> String {
    let msg = if msg.starts_with("task references unknown program") {
        "task references unknown program"
    } else {
        msg
    };
    msg.replace(' ', "-")
}

fn show_err(e: &BytecodeError) -> String {
    match e {
        BytecodeError::InvalidMagic => "InvalidMagic".into(),
        BytecodeError::UnsupportedVersion { major, minor } => format!("UnsupportedVersion:{major}.{minor}"),
        BytecodeError::InvalidHeader(m) => format!("InvalidHeader:{}", msg_code(m)),
        BytecodeError::InvalidChecksum { expected, actual } => format!("InvalidChecksum:{expected}:{actual}"),
        BytecodeError::InvalidSectionTable(m) => format!("InvalidSectionTable:{}", msg_code(m)),
        BytecodeError::SectionOutOfBounds => "SectionOutOfBounds".into(),
        BytecodeError::SectionOverlap => "SectionOverlap".into(),
        BytecodeError::SectionAlignment => "SectionAlignment".into(),
        BytecodeError::UnexpectedEof => "UnexpectedEof".into(),
        BytecodeError::InvalidSection(m) => format!("InvalidSection:{}", msg_code(m)),
        BytecodeError::MissingSection(m) => format!("MissingSection:{m}"),
        BytecodeError::InvalidOpcode(op) => format!("InvalidOpcode:{op}"),
        BytecodeError::InvalidJumpTarget(t) => format!("InvalidJumpTarget:{t}"),
        BytecodeError::InvalidPouId(id) => format!("InvalidPouId:{id}"),
        BytecodeError::InvalidIndex { kind, index } => format!("InvalidIndex:{kind}:{index}"),
    }
}

fn show_ref(r: &ValueRef) -> String {
    let loc = match r.location {
        MemoryLocation::Global => "G".to_string(),
        MemoryLocation::Local(f) => format!("L{}", f.0),
        MemoryLocation::Instance(i) => format!("N{}", i.0),
        MemoryLocation::Retain => "R".to_string(),
        MemoryLocation::Io(IoArea::Input) => "II".to_string(),
        MemoryLocation::Io(IoArea::Output) => "IQ".to_string(),
        MemoryLocation::Io(IoArea::Memory) => "IM".to_string(),
    };
    let mut s = format!("{loc}@{}", r.offset);
    for seg in &r.path {
        match seg {
            RefSegment::Index(is) => {
                s.push('[');
                s.push_str(&is.iter().map(|i| i.to_string()).collect::<Vec<_>>().join("."));
                s.push(']');
            }
            RefSegment::Field(n) => {
                s.push('.');
                s.push_str(&hex(n.as_bytes()));
            }
        }
    }
    s
}

fn show_metadata(md: &BytecodeMetadata) -> String {
    let resources: Vec<String> = md
        .resources
        .iter()
        .map(|r| {
            let tasks: Vec<String> = r
                .tasks
                .iter()
                .map(|t| {
                    format!(
                        "{},{},{},{},{},{}",
                        hex(t.name.as_bytes()),
                        t.interval.as_nanos(),
                        t.single.as_ref().map(|s| hex(s.as_bytes())).unwrap_or_else(|| "none".into()),
                        t.priority,
                        t.programs.iter().map(|p| hex(p.as_bytes())).collect::<Vec<_>>().join("+"),
                        t.fb_instances.iter().map(show_ref).collect::<Vec<_>>().join("+"),
                    )
                })
                .collect();
            format!(
                "{}:{}:{}:{}:[{}]",
                hex(r.name.as_bytes()),
                r.process_image.inputs,
                r.process_image.outputs,
                r.process_image.memory,
                tasks.join(";")
            )
        })
        .collect();
    format!("v{}.{} {}", md.version.major, md.version.minor, resources.join("|"))
}

fn show_apply_err(e: &RuntimeError) -> String {
    match e {
        RuntimeError::InvalidBytecode(_) => "InvalidBytecode".into(),
        RuntimeError::UnsupportedBytecodeVersion { .. } => "UnsupportedBytecodeVersion".into(),
        RuntimeError::InvalidBytecodeMetadata(_) => "InvalidBytecodeMetadata".into(),
        RuntimeError::UndefinedProgram(n) => format!("UndefinedProgram:{}", hex(n.as_bytes())),
        RuntimeError::TypeMismatch => "TypeMismatch".into(),
        RuntimeError::NullReference => "NullReference".into(),
        RuntimeError::UndefinedFunctionBlock(_) => "UndefinedFunctionBlock".into(),
        other => format!("Other:{}", format!("{other:?}").replace(' ', "_")),
    }
}

// ---------------------------------------------------------------------------------------------
// runtime cache and view
// ---------------------------------------------------------------------------------------------

struct CachedRuntime {
    runtime: Runtime,
    baseline: Vec<u8>,
    view: String,
    /// definitions of the composite (array / struct) values the view refers to as `C<k>`
    composites: Vec<String>,
}

/// Composite values are hash-consed: `C<k>` names definition `k`, children are defined first.
///   `A <lo>:<hi>/<lo>:<hi>|- <tag>[*<run>]/...|-`     array: dimensions, elements (run-length coded)
///   `S <hexname>=<tag>/...|-`                          struct: fields in declaration order
#[derive(Default)]
struct Composites {
    defs: Vec<String>,
    index: HashMap<String, usize>,
}

impl Composites {
    fn intern(&mut self, def: String) -> String {
        if let Some(k) = self.index.get(&def) {
            return format!("C{k}");
        }
        let k = self.defs.len();
        self.index.insert(def.clone(), k);
        self.defs.push(def);
        format!("C{k}")
    }
}

fn tag(v: &Value, cs: &mut Composites) -> String {
    match v {
        Value::Instance(id) => format!("I{}", id.0),
        Value::Array(a) => {
            let dims = join_or_dash(a.dimensions.iter().map(|(l, u)| format!("{l}:{u}")).collect(), "/");
            let mut runs: Vec<(String, usize)> = Vec::new();
            for e in &a.elements {
                let t = tag(e, cs);
                match runs.last_mut() {
                    Some((last, n)) if *last == t => *n += 1,
                    _ => runs.push((t, 1)),
                }
            }
            let elems = join_or_dash(
                runs.into_iter().map(|(t, n)| if n == 1 { t } else { format!("{t}*{n}") }).collect(),
                "/",
            );
            cs.intern(format!("A {dims} {elems}"))
        }
        Value::Struct(s) => {
            let fields = join_or_dash(
                s.fields.iter().map(|(name, f)| format!("{}={}", hex(name.as_bytes()), tag(f, cs))).collect(),
                "/",
            );
            cs.intern(format!("S {fields}"))
        }
        _ => "O".into(),
    }
}

fn join_or_dash(xs: Vec<String>, sep: &str) -> String {
    if xs.is_empty() {
        "-".into()
    } else {
        xs.join(sep)
    }
}

fn runtime_view(rt: &Runtime, cs: &mut Composites) -> String {
    let programs = join_or_dash(rt.programs().keys().map(|k| hex(k.as_bytes())).collect(), ",");
    let globals = join_or_dash(rt.storage().globals().values().map(|v| tag(v, cs)).collect(), ",");
    let mut ids: Vec<_> = rt.storage().instances().keys().copied().collect();
    ids.sort_by_key(|id| id.0);
    let instances = join_or_dash(
        ids.iter()
            .map(|id| {
                let inst = rt.storage().get_instance(*id).expect("instance");
                let key = smol_str::SmolStr::new(inst.type_name.to_ascii_uppercase());
                let known = rt.function_blocks().get(&key).is_some();
                format!(
                    "{}:{}:{}",
                    id.0,
                    known as u8,
                    join_or_dash(inst.variables.values().map(|v| tag(v, cs)).collect(), ",")
                )
            })
            .collect(),
        ";",
    );
    format!("{programs} {globals} {instances}")
}

fn state_view(rt: &Runtime) -> String {
    format!(
        "{},{},{} {}",
        rt.io().inputs().len(),
        rt.io().outputs().len(),
        rt.io().memory().len(),
        join_or_dash(rt.tasks().iter().map(|t| hex(t.name.as_bytes())).collect(), ",")
    )
}

fn build_runtime(source: &str) -> Result<CachedRuntime, String> {
    let harness = TestHarness::from_source(source).map_err(|e| format!("compile: {e}"))?;
    let runtime = harness.into_runtime();
    let baseline = bytecode_bytes_from_source(source).map_err(|e| format!("bytecode: {e}"))?;
    let mut cs = Composites::default();
    let view = runtime_view(&runtime, &mut cs);
    Ok(CachedRuntime { runtime, baseline, view, composites: cs.defs })
}

// ---------------------------------------------------------------------------------------------
// one job
// ---------------------------------------------------------------------------------------------

const MEM_FACTOR: usize = 256;
const MEM_SLACK: usize = 256 * 1024;
/// validate bounds each process image area by 1 << 24 (ffd16eb)
const MEM_APPLY_EXTRA: usize = 3 * (1 << 24);

fn say(line: &str) {
    let out = std::io::stdout();
    let mut out = out.lock();
    let _ = writeln!(out, "{line}");
    let _ = out.flush();
}

fn guarded<T>(f: impl FnOnce() -> T) -> Option<T> {
    std::panic::catch_unwind(std::panic::AssertUnwindSafe(f)).ok()
}

fn run_job(cache: &mut HashMap<String, Result<CachedRuntime, String>>, source_hex: &str, resource: &str, bytes_hex: &str) {
    let bytes = unhex(bytes_hex);
    let limit = MEM_FACTOR * bytes.len() + MEM_SLACK;
    let mut excess: Vec<String> = Vec::new();
    let mut check_mem = |stage: &str, used: (usize, usize), limit: usize| {
        if used.0 > limit || used.1 > limit {
            excess.push(format!("{stage}:peak={}:maxreq={}:limit={limit}", used.0, used.1));
        }
    };

    // decode (+ re-encode + decode again)
    say("S decode");
    let meter = Meter::start();
    let decoded = guarded(|| BytecodeModule::decode(&bytes));
    check_mem("decode", meter.stop(), limit);
    let module = match decoded {
        None => {
            say("D panic");
            None
        }
        Some(Err(e)) => {
            say(&format!("D err {}", show_err(&e)));
            None
        }
        Some(Ok(m)) => {
            let ids: Vec<String> = m.sections.iter().map(|s| s.id.to_string()).collect();
            let meter = Meter::start();
            let rt = guarded(|| match m.encode() {
                Err(e) => format!("reenc=err:{}", show_err(&e)),
                Ok(out) => {
                    let back = matches!(BytecodeModule::decode(&out), Ok(ref m2) if *m2 == m);
                    format!(
                        "reenc={:016x}:{} same={} rt={}",
                        fnv64(&out),
                        out.len(),
                        (out == bytes) as u8,
                        back as u8
                    )
                }
            });
            check_mem("reencode", meter.stop(), 3 * limit);
            match rt {
                None => say("D panic-in-encode"),
                Some(rt) => say(&format!(
                    "D ok v{}.{} flags={} ids={} {rt}",
                    m.version.major,
                    m.version.minor,
                    m.flags,
                    ids.join(",")
                )),
            }
            Some(m)
        }
    };

    // validate
    say("S validate");
    match &module {
        None => say("V skipped"),
        Some(m) => {
            let meter = Meter::start();
            let r = guarded(|| m.validate());
            check_mem("validate", meter.stop(), limit);
            match r {
                None => say("V panic"),
                Some(Ok(())) => say("V ok"),
                Some(Err(e)) => say(&format!("V err {}", show_err(&e))),
            }
        }
    }

    // metadata
    say("S metadata");
    match &module {
        None => say("M skipped"),
        Some(m) => {
            let meter = Meter::start();
            let r = guarded(|| m.metadata());
            check_mem("metadata", meter.stop(), limit);
            match r {
                None => say("M panic"),
                Some(Ok(md)) => say(&format!("M ok {}", show_metadata(&md))),
                Some(Err(e)) => say(&format!("M err {}", show_err(&e))),
            }
        }
    }

    // apply
    say("S apply");
    let source = String::from_utf8(unhex(source_hex)).expect("utf-8 source");
    if !cache.contains_key(&source) {
        // bounded cache (the address space is limited): drop everything when it grows
        if cache.len() >= 6 {
            cache.clear();
        }
        // failures are cached too: the same source would fail again
        cache.insert(source.clone(), build_runtime(&source));
    }
    let cached = match cache.get_mut(&source).expect("cached") {
        Ok(c) => c,
        Err(e) => {
            say(&format!("A runtime-error {}", e.replace(' ', "_")));
            say("S mem");
            say("X skipped");
            say("E");
            return;
        }
    };
    // history independence: put the runtime back into its own configuration first
    let baseline = cached.baseline.clone();
    let reset = guarded(|| cached.runtime.apply_bytecode_bytes(&baseline, None));
    if !matches!(reset, Some(Ok(()))) {
        say(&format!("A reset-failed {reset:?}").replace(' ', "_").replacen("A_", "A ", 1));
        say("X skipped");
        say("E");
        return;
    }
    for (k, def) in cached.composites.iter().enumerate() {
        say(&format!("K {k} {def}"));
    }
    say(&format!("R {} {}", cached.view, state_view(&cached.runtime)));
    let res_name = if resource == "none" {
        None
    } else {
        Some(String::from_utf8_lossy(&unhex(resource)).to_string())
    };
    let meter = Meter::start();
    let r = guarded(|| cached.runtime.apply_bytecode_bytes(&bytes, res_name.as_deref()));
    check_mem("apply", meter.stop(), limit + MEM_APPLY_EXTRA);
    let after = state_view(&cached.runtime);
    let mut parts = after.split(' ');
    let io = parts.next().unwrap_or("");
    let tasks = parts.next().unwrap_or("");
    match r {
        None => say("A panic"),
        Some(Ok(())) => say(&format!("A ok io={io} tasks={tasks}")),
        Some(Err(e)) => say(&format!("A err {} io={io} tasks={tasks}", show_apply_err(&e))),
    }

    say("S mem");
    if excess.is_empty() {
        say("X ok");
    } else {
        say(&format!("X excess len={} {}", bytes.len(), excess.join(",")));
    }
    say("E");
}

fn main() {
    let limit_mb: u64 = std::env::args().nth(1).and_then(|s| s.parse().ok()).unwrap_or(1024);
    unsafe {
        let lim = libc::rlimit {
            rlim_cur: limit_mb << 20,
            rlim_max: limit_mb << 20,
        };
        libc::setrlimit(libc::RLIMIT_AS, &lim);
    }
    std::panic::set_hook(Box::new(|_| {}));
    let mut cache: HashMap<String, Result<CachedRuntime, String>> = HashMap::new();
    let stdin = std::io::stdin();
    for line in stdin.lock().lines() {
        let Ok(line) = line else { break };
        let words: Vec<&str> = line.split(' ').collect();
        match words.as_slice() {
            ["job", source, resource, bytes] => run_job(&mut cache, source, resource, bytes),
            ["quit"] => break,
            _ => say("E bad-job"),
        }
    }
}
