//! `vharness c00probe --src <file.st> [--cycles n]`: compile an ST source with the real compiler, run
//! cycles, print errors and all variables.  A developer tool (witness replays), not a check.

use crate::Args;
use trust_runtime::harness::TestHarness;

pub fn run(args: &Args) -> i32 {
    let Some(path) = args.extra.get("src") else {
        eprintln!("--src <file.st> required");
        return 2;
    };
    let source = std::fs::read_to_string(path).expect("read source");
    let cycles = args.extra_usize("cycles", 1);
    let result = std::panic::catch_unwind(|| {
        let mut h = match TestHarness::from_source(&source) {
            Ok(h) => h,
            Err(e) => {
                println!("compile-error {e}");
                return;
            }
        };
        for c in 0..cycles {
            let r = h.cycle();
            println!("cycle {c} errors={:?} frames={}", r.errors, h.runtime().storage().frames().len());
        }
        for (name, value) in h.runtime().storage().globals() {
            println!("global {name} = {value:?}");
        }
        for (id, inst) in h.runtime().storage().instances() {
            for (name, value) in inst.variables.iter() {
                println!("instance {id:?} {} {name} = {value:?}", inst.type_name);
            }
        }
    });
    if result.is_err() {
        println!("PANIC");
        return 1;
    }
    0
}
