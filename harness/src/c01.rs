//! C01 / C02 / C03 — ST-core programs through the REAL compiler and interpreter.
//!
//! A case is a generated PROGRAM (BOOL + the eight integer kinds; `:= IF CASE FOR WHILE REPEAT EXIT
//! CONTINUE RETURN`).  The generator's AST is printed twice: as ST source with *minimal*
//! parentheses (so the real parser's precedence is part of what is compared) and as an
//! S-expression for the Lean driver.  The source goes through `TestHarness::from_source` (verdict
//! `accept`/`reject`), then a few scan cycles run, each followed by a dump of the outcome
//! (`CycleResult.errors`), `storage().frames().len()` and every program variable with its
//! runtime tag.  Everything runs under `catch_unwind` (a panic is an observable).
//!
//! Profiles: `strict` (typed literals, exact kinds — the region the full-strength theorems
//! cover), `natural` (untyped literals, widening — exposes the DINT-literal tag drift), `wild`
//! (mixed signed/unsigned, `-` on unsigned, `**`, RETURN — accepted by the checker, static-class
//! faults at run time), and on top of any of them `sabotage`: exactly one ill-typed place.

use crate::rng::Rng;
use crate::util::{hex, Out};
use crate::Args;
use std::fmt::Write as _;
use trust_runtime::harness::TestHarness;
use trust_runtime::value::Value;

#[path = "c01/obs.rs"]
pub mod obs;
#[path = "c01/obs2.rs"]
pub mod obs2;

// ------------------------------------------------------------------------------------------
// AST (mirrors lean/TrustVerif/Model/StCore.lean)
// ------------------------------------------------------------------------------------------

#[derive(Clone, Copy, Debug, PartialEq, Eq, PartialOrd, Ord, Hash)]
pub enum IKind {
    SInt,
    Int,
    DInt,
    LInt,
    USInt,
    UInt,
    UDInt,
    ULInt,
}

pub const KINDS: [IKind; 8] = [
    IKind::SInt,
    IKind::Int,
    IKind::DInt,
    IKind::LInt,
    IKind::USInt,
    IKind::UInt,
    IKind::UDInt,
    IKind::ULInt,
];

impl IKind {
    pub fn signed(self) -> bool {
        matches!(self, IKind::SInt | IKind::Int | IKind::DInt | IKind::LInt)
    }
    pub fn lo(self) -> i128 {
        match self {
            IKind::SInt => i8::MIN as i128,
            IKind::Int => i16::MIN as i128,
            IKind::DInt => i32::MIN as i128,
            IKind::LInt => i64::MIN as i128,
            _ => 0,
        }
    }
    pub fn hi(self) -> i128 {
        match self {
            IKind::SInt => i8::MAX as i128,
            IKind::Int => i16::MAX as i128,
            IKind::DInt => i32::MAX as i128,
            IKind::LInt => i64::MAX as i128,
            IKind::USInt => u8::MAX as i128,
            IKind::UInt => u16::MAX as i128,
            IKind::UDInt => u32::MAX as i128,
            IKind::ULInt => u64::MAX as i128,
        }
    }
    pub fn rank(self) -> u8 {
        self as u8
    }
    pub fn name(self) -> &'static str {
        match self {
            IKind::SInt => "SINT",
            IKind::Int => "INT",
            IKind::DInt => "DINT",
            IKind::LInt => "LINT",
            IKind::USInt => "USINT",
            IKind::UInt => "UINT",
            IKind::UDInt => "UDINT",
            IKind::ULInt => "ULINT",
        }
    }
    pub fn prefix(self) -> &'static str {
        match self {
            IKind::SInt => "s",
            IKind::Int => "i",
            IKind::DInt => "d",
            IKind::LInt => "l",
            IKind::USInt => "us",
            IKind::UInt => "u",
            IKind::UDInt => "ud",
            IKind::ULInt => "ul",
        }
    }
    /// Kinds of the same chain (signedness) with rank <= self.
    pub fn below(self) -> Vec<IKind> {
        KINDS
            .iter()
            .copied()
            .filter(|k| k.signed() == self.signed() && k.rank() <= self.rank())
            .collect()
    }
    /// Largest literal that can be *written* for this kind (the literal parser goes through i64).
    pub fn hi_writable(self) -> i128 {
        self.hi().min(i64::MAX as i128)
    }
    pub fn lo_writable(self) -> i128 {
        self.lo().max(-(i64::MAX as i128))
    }
}

#[derive(Clone, Copy, Debug, PartialEq, Eq)]
pub enum Ty {
    Bool,
    Int(IKind),
}

impl Ty {
    pub fn name(self) -> &'static str {
        match self {
            Ty::Bool => "BOOL",
            Ty::Int(k) => k.name(),
        }
    }
}

#[derive(Clone, Copy, Debug, PartialEq, Eq)]
pub enum UnOp {
    Neg,
    Not,
}

#[derive(Clone, Copy, Debug, PartialEq, Eq)]
pub enum BinOp {
    Add,
    Sub,
    Mul,
    Div,
    Mod,
    Pow,
    And,
    Or,
    Xor,
    Eq,
    Ne,
    Lt,
    Le,
    Gt,
    Ge,
}

impl BinOp {
    fn sym(self) -> &'static str {
        match self {
            BinOp::Add => "+",
            BinOp::Sub => "-",
            BinOp::Mul => "*",
            BinOp::Div => "/",
            BinOp::Mod => "MOD",
            BinOp::Pow => "**",
            BinOp::And => "AND",
            BinOp::Or => "OR",
            BinOp::Xor => "XOR",
            BinOp::Eq => "=",
            BinOp::Ne => "<>",
            BinOp::Lt => "<",
            BinOp::Le => "<=",
            BinOp::Gt => ">",
            BinOp::Ge => ">=",
        }
    }
    fn word(self) -> &'static str {
        match self {
            BinOp::Add => "add",
            BinOp::Sub => "sub",
            BinOp::Mul => "mul",
            BinOp::Div => "div",
            BinOp::Mod => "mod",
            BinOp::Pow => "pow",
            BinOp::And => "and",
            BinOp::Or => "or",
            BinOp::Xor => "xor",
            BinOp::Eq => "eq",
            BinOp::Ne => "ne",
            BinOp::Lt => "lt",
            BinOp::Le => "le",
            BinOp::Gt => "gt",
            BinOp::Ge => "ge",
        }
    }
    /// Precedence of docs/specs/05-expressions.md table 71 (higher binds tighter).
    fn prec(self) -> u8 {
        match self {
            BinOp::Or => 1,
            BinOp::Xor => 2,
            BinOp::And => 3,
            BinOp::Eq | BinOp::Ne | BinOp::Lt | BinOp::Le | BinOp::Gt | BinOp::Ge => 4,
            BinOp::Add | BinOp::Sub => 5,
            BinOp::Mul | BinOp::Div | BinOp::Mod => 6,
            BinOp::Pow => 7,
        }
    }
}

#[derive(Clone, Debug)]
pub enum Expr {
    Lit(Option<IKind>, i128),
    BLit(bool),
    Var(String),
    Un(UnOp, Box<Expr>),
    Bin(BinOp, Box<Expr>, Box<Expr>),
    /// stage S4: call of a user FUNCTION
    Call(String, Vec<Arg>),
    /// stages S5/S3: `instance.member`, `struct.field`
    Fld(String, String),
    /// stage S3: `array[index]`
    Idx(String, Box<Expr>),
}

/// One call argument: optional formal name, `=>` (true) or `:=`/positional (false), expression.
#[derive(Clone, Debug)]
pub struct Arg {
    pub name: Option<String>,
    pub arrow: bool,
    pub e: Expr,
}

#[derive(Clone, Copy, Debug, PartialEq, Eq)]
pub enum Dir {
    In,
    Out,
    InOut,
}

#[derive(Clone, Debug)]
pub struct Param {
    pub name: String,
    pub ty: Ty,
    pub dir: Dir,
    pub default: Option<Expr>,
}

#[derive(Clone, Debug)]
pub struct Local {
    pub name: String,
    pub ty: Ty,
    pub init: Option<Expr>,
}

#[derive(Clone, Debug)]
pub struct FuncDef {
    pub name: String,
    pub ret: Ty,
    pub params: Vec<Param>,
    pub locals: Vec<Local>,
    pub body: Vec<Stmt>,
}

#[derive(Clone, Debug)]
pub struct LabLit {
    pub ty: Option<IKind>,
    pub v: i128,
}

#[derive(Clone, Debug)]
pub enum Label {
    Single(LabLit),
    Range(LabLit, LabLit),
}

#[derive(Clone, Debug)]
pub enum Stmt {
    Assign(String, Expr),
    If(Expr, Vec<Stmt>, Vec<(Expr, Vec<Stmt>)>, Vec<Stmt>),
    Case(Expr, Vec<(Vec<Label>, Vec<Stmt>)>, Vec<Stmt>),
    For(String, Expr, Expr, Option<Expr>, Vec<Stmt>),
    While(Expr, Vec<Stmt>),
    Repeat(Vec<Stmt>, Expr),
    Exit,
    Continue,
    Return,
    /// stage S4: `RETURN expr;` (in a FUNCTION) and a call as a statement
    ReturnVal(Expr),
    ExprStmt(Expr),
    /// stage S5: `instance(args);`
    FbCall(String, Vec<Arg>),
    /// stage S3: `a[i] := e;` and `s.f := e;`
    AssignIdx(String, Expr, Expr),
    AssignFld(String, String, Expr),
}

/// stage S3: an array or struct variable of the PROGRAM.
#[derive(Clone, Debug)]
pub enum AggDecl {
    Arr(i64, i64, Ty),
    Str(String, Vec<(String, Ty)>),
}

#[derive(Clone, Debug)]
pub struct VarDecl {
    pub name: String,
    pub ty: Ty,
    pub init: i128,
    pub typed_init: bool,
    pub has_init: bool,
}

#[derive(Clone, Debug)]
pub struct FbDef {
    pub name: String,
    pub params: Vec<Param>,
    pub vars: Vec<Local>,
    pub body: Vec<Stmt>,
}

#[derive(Clone, Debug)]
pub struct Program {
    pub funcs: Vec<FuncDef>,
    pub fbs: Vec<FbDef>,
    /// FB instance variables of the PROGRAM: (variable, FB type)
    pub insts: Vec<(String, String)>,
    /// stage S3: array / struct variables of the PROGRAM
    pub aggs: Vec<(String, AggDecl)>,
    pub decls: Vec<VarDecl>,
    pub body: Vec<Stmt>,
}

// ------------------------------------------------------------------------------------------
// Printers
// ------------------------------------------------------------------------------------------

fn lit_src(ty: Option<IKind>, v: i128) -> String {
    match ty {
        None => format!("{v}"),
        Some(k) => format!("{}#{v}", k.name()),
    }
}

/// ST source with minimal parentheses.  `min` is the lowest precedence that may appear unparenthesised.
pub fn expr_src(e: &Expr, min: u8) -> String {
    match e {
        Expr::Lit(ty, v) => lit_src(*ty, *v),
        Expr::BLit(b) => if *b { "TRUE".into() } else { "FALSE".into() },
        Expr::Var(x) => x.clone(),
        Expr::Un(op, inner) => {
            let s = expr_src(inner, 8);
            let text = match op {
                UnOp::Neg => {
                    if s.starts_with('-') {
                        format!("- {s}")
                    } else {
                        format!("-{s}")
                    }
                }
                UnOp::Not => format!("NOT {s}"),
            };
            if min > 8 {
                format!("({text})")
            } else {
                text
            }
        }
        Expr::Fld(c, f) => format!("{c}.{f}"),
        Expr::Idx(a, i) => format!("{a}[{}]", expr_src(i, 0)),
        Expr::Call(f, args) => {
            let parts: Vec<String> = args
                .iter()
                .map(|a| match &a.name {
                    Some(n) => format!("{n} {} {}", if a.arrow { "=>" } else { ":=" }, expr_src(&a.e, 0)),
                    None => expr_src(&a.e, 0),
                })
                .collect();
            format!("{f}({})", parts.join(", "))
        }
        Expr::Bin(op, l, r) => {
            let p = op.prec();
            // left-associative; `**` is parsed right-associatively by the real parser while the
            // spec table says left-to-right, so nested `**` is always parenthesised (recorded as
            // an observation in the report, not compared here)
            let (lmin, rmin) = if *op == BinOp::Pow { (8, 8) } else { (p, p + 1) };
            let left = expr_src(l, lmin);
            // `&` is the other spelling of AND (same precedence): used for a third of the ANDs
            let sym = if *op == BinOp::And && left.len() % 3 == 0 { "&" } else { op.sym() };
            let text = format!("{left} {sym} {}", expr_src(r, rmin));
            if p < min {
                format!("({text})")
            } else {
                text
            }
        }
    }
}

fn lab_src(l: &LabLit) -> String {
    lit_src(l.ty, l.v)
}

fn block_src(out: &mut String, stmts: &[Stmt], ind: usize) {
    for s in stmts {
        stmt_src(out, s, ind);
    }
}

fn stmt_src(out: &mut String, s: &Stmt, ind: usize) {
    let pad = "  ".repeat(ind);
    match s {
        Stmt::Assign(x, e) => {
            let _ = writeln!(out, "{pad}{x} := {};", expr_src(e, 0));
        }
        Stmt::If(c, t, elifs, el) => {
            let _ = writeln!(out, "{pad}IF {} THEN", expr_src(c, 0));
            block_src(out, t, ind + 1);
            for (c2, b2) in elifs {
                let _ = writeln!(out, "{pad}ELSIF {} THEN", expr_src(c2, 0));
                block_src(out, b2, ind + 1);
            }
            if !el.is_empty() {
                let _ = writeln!(out, "{pad}ELSE");
                block_src(out, el, ind + 1);
            }
            let _ = writeln!(out, "{pad}END_IF;");
        }
        Stmt::Case(sel, brs, el) => {
            let _ = writeln!(out, "{pad}CASE {} OF", expr_src(sel, 0));
            for (labels, b) in brs {
                let ls: Vec<String> = labels
                    .iter()
                    .map(|l| match l {
                        Label::Single(a) => lab_src(a),
                        Label::Range(a, b) => format!("{}..{}", lab_src(a), lab_src(b)),
                    })
                    .collect();
                let _ = writeln!(out, "{pad}  {}:", ls.join(", "));
                block_src(out, b, ind + 2);
            }
            if !el.is_empty() {
                let _ = writeln!(out, "{pad}ELSE");
                block_src(out, el, ind + 2);
            }
            let _ = writeln!(out, "{pad}END_CASE;");
        }
        Stmt::For(x, a, b, step, body) => {
            let by = match step {
                Some(st) => format!(" BY {}", expr_src(st, 0)),
                None => String::new(),
            };
            let _ = writeln!(out, "{pad}FOR {x} := {} TO {}{by} DO", expr_src(a, 0), expr_src(b, 0));
            block_src(out, body, ind + 1);
            let _ = writeln!(out, "{pad}END_FOR;");
        }
        Stmt::While(c, body) => {
            let _ = writeln!(out, "{pad}WHILE {} DO", expr_src(c, 0));
            block_src(out, body, ind + 1);
            let _ = writeln!(out, "{pad}END_WHILE;");
        }
        Stmt::Repeat(body, c) => {
            let _ = writeln!(out, "{pad}REPEAT");
            block_src(out, body, ind + 1);
            let _ = writeln!(out, "{pad}UNTIL {}", expr_src(c, 0));
            let _ = writeln!(out, "{pad}END_REPEAT;");
        }
        Stmt::Exit => {
            let _ = writeln!(out, "{pad}EXIT;");
        }
        Stmt::Continue => {
            let _ = writeln!(out, "{pad}CONTINUE;");
        }
        Stmt::Return => {
            let _ = writeln!(out, "{pad}RETURN;");
        }
        Stmt::ReturnVal(e) => {
            let _ = writeln!(out, "{pad}RETURN {};", expr_src(e, 0));
        }
        Stmt::ExprStmt(e) => {
            let _ = writeln!(out, "{pad}{};", expr_src(e, 0));
        }
        Stmt::FbCall(c, args) => {
            let _ = writeln!(out, "{pad}{};", expr_src(&Expr::Call(c.clone(), args.clone()), 0));
        }
        Stmt::AssignIdx(a, i, e) => {
            let _ = writeln!(out, "{pad}{a}[{}] := {};", expr_src(i, 0), expr_src(e, 0));
        }
        Stmt::AssignFld(sv, f, e) => {
            let _ = writeln!(out, "{pad}{sv}.{f} := {};", expr_src(e, 0));
        }
    }
}

fn fb_src(f: &FbDef) -> String {
    let mut s = format!("FUNCTION_BLOCK {}\n", f.name);
    for (dir, kw) in [(Dir::In, "VAR_INPUT"), (Dir::Out, "VAR_OUTPUT"), (Dir::InOut, "VAR_IN_OUT")] {
        let ps: Vec<&Param> = f.params.iter().filter(|p| p.dir == dir).collect();
        if ps.is_empty() {
            continue;
        }
        let _ = writeln!(s, "{kw}");
        for p in ps {
            let _ = writeln!(s, "  {} : {}{};", p.name, p.ty.name(), init_src(&p.default));
        }
        s.push_str("END_VAR\n");
    }
    if !f.vars.is_empty() {
        s.push_str("VAR\n");
        for l in &f.vars {
            let _ = writeln!(s, "  {} : {}{};", l.name, l.ty.name(), init_src(&l.init));
        }
        s.push_str("END_VAR\n");
    }
    block_src(&mut s, &f.body, 0);
    s.push_str("END_FUNCTION_BLOCK\n\n");
    s
}

fn init_src(e: &Option<Expr>) -> String {
    match e {
        Some(e) => format!(" := {}", expr_src(e, 0)),
        None => String::new(),
    }
}

fn func_src(f: &FuncDef) -> String {
    let mut s = format!("FUNCTION {} : {}\n", f.name, f.ret.name());
    for (dir, kw) in [(Dir::In, "VAR_INPUT"), (Dir::Out, "VAR_OUTPUT"), (Dir::InOut, "VAR_IN_OUT")] {
        let ps: Vec<&Param> = f.params.iter().filter(|p| p.dir == dir).collect();
        if ps.is_empty() {
            continue;
        }
        let _ = writeln!(s, "{kw}");
        for p in ps {
            let _ = writeln!(s, "  {} : {}{};", p.name, p.ty.name(), init_src(&p.default));
        }
        s.push_str("END_VAR\n");
    }
    if !f.locals.is_empty() {
        s.push_str("VAR\n");
        for l in &f.locals {
            let _ = writeln!(s, "  {} : {}{};", l.name, l.ty.name(), init_src(&l.init));
        }
        s.push_str("END_VAR\n");
    }
    block_src(&mut s, &f.body, 0);
    s.push_str("END_FUNCTION\n\n");
    s
}

pub fn program_src(p: &Program) -> String {
    let mut s = String::new();
    let mut seen: Vec<&str> = Vec::new();
    for (_, d) in &p.aggs {
        if let AggDecl::Str(tn, fields) = d {
            if seen.contains(&tn.as_str()) {
                continue;
            }
            seen.push(tn.as_str());
            let _ = writeln!(s, "TYPE {tn} : STRUCT");
            for (f, t) in fields {
                let _ = writeln!(s, "  {f} : {};", t.name());
            }
            s.push_str("END_STRUCT END_TYPE\n\n");
        }
    }
    for f in &p.funcs {
        s.push_str(&func_src(f));
    }
    for f in &p.fbs {
        s.push_str(&fb_src(f));
    }
    s.push_str("PROGRAM P\nVAR\n");
    for d in &p.decls {
        if d.has_init {
            let init = match d.ty {
                Ty::Bool => (if d.init != 0 { "TRUE" } else { "FALSE" }).to_string(),
                Ty::Int(k) => {
                    if d.typed_init {
                        format!("{}#{}", k.name(), d.init)
                    } else {
                        format!("{}", d.init)
                    }
                }
            };
            let _ = writeln!(s, "  {} : {} := {};", d.name, d.ty.name(), init);
        } else {
            let _ = writeln!(s, "  {} : {};", d.name, d.ty.name());
        }
    }
    for (a, d) in &p.aggs {
        match d {
            AggDecl::Arr(lo, hi, t) => {
                let _ = writeln!(s, "  {a} : ARRAY[{lo}..{hi}] OF {};", t.name());
            }
            AggDecl::Str(tn, _) => {
                let _ = writeln!(s, "  {a} : {tn};");
            }
        }
    }
    for (c, t) in &p.insts {
        let _ = writeln!(s, "  {c} : {t};");
    }
    s.push_str("END_VAR\n");
    block_src(&mut s, &p.body, 0);
    s.push_str("END_PROGRAM\n");
    s
}

fn kind_word(k: Option<IKind>) -> &'static str {
    match k {
        None => "-",
        Some(k) => k.name(),
    }
}

pub fn expr_sx(e: &Expr) -> String {
    match e {
        Expr::Lit(ty, v) => format!("( l {} {v} )", kind_word(*ty)),
        Expr::BLit(b) => (if *b { "( t )" } else { "( f )" }).into(),
        Expr::Var(x) => format!("( v {x} )"),
        Expr::Un(op, inner) => format!(
            "( u {} {} )",
            match op {
                UnOp::Neg => "neg",
                UnOp::Not => "not",
            },
            expr_sx(inner)
        ),
        Expr::Bin(op, l, r) => format!("( b {} {} {} )", op.word(), expr_sx(l), expr_sx(r)),
        Expr::Fld(c, f) => format!("( fld {c} {f} )"),
        Expr::Idx(a, i) => format!("( idx {a} {} )", expr_sx(i)),
        Expr::Call(f, args) => {
            let mut a = String::from("(");
            for x in args {
                let _ = write!(
                    a,
                    " ( {} {} {} )",
                    x.name.as_deref().unwrap_or("-"),
                    if x.arrow { 1 } else { 0 },
                    expr_sx(&x.e)
                );
            }
            a.push_str(" )");
            format!("( c {f} {a} )")
        }
    }
}

fn opt_expr_sx(e: &Option<Expr>) -> String {
    match e {
        Some(e) => expr_sx(e),
        None => "-".into(),
    }
}

/// `func <name> <RET> ( ( pname TYPE dir default )* ) ( ( lname TYPE init )* ) <body>`
pub fn func_sx(f: &FuncDef) -> String {
    let mut ps = String::from("(");
    for p in &f.params {
        let dir = match p.dir {
            Dir::In => "in",
            Dir::Out => "out",
            Dir::InOut => "inout",
        };
        let _ = write!(ps, " ( {} {} {dir} {} )", p.name, p.ty.name(), opt_expr_sx(&p.default));
    }
    ps.push_str(" )");
    let mut ls = String::from("(");
    for l in &f.locals {
        let _ = write!(ls, " ( {} {} {} )", l.name, l.ty.name(), opt_expr_sx(&l.init));
    }
    ls.push_str(" )");
    format!("func {} {} {ps} {ls} {}", f.name, f.ret.name(), block_sx(&f.body))
}

fn lab_sx(l: &Label) -> String {
    match l {
        Label::Single(a) => format!("( s {} {} )", kind_word(a.ty), a.v),
        Label::Range(a, b) => format!("( r {} {} {} {} )", kind_word(a.ty), a.v, kind_word(b.ty), b.v),
    }
}

pub fn block_sx(b: &[Stmt]) -> String {
    let mut s = String::from("(");
    for st in b {
        s.push(' ');
        s.push_str(&stmt_sx(st));
    }
    s.push_str(" )");
    s
}

fn stmt_sx(s: &Stmt) -> String {
    match s {
        Stmt::Assign(x, e) => format!("( asg {x} {} )", expr_sx(e)),
        Stmt::If(c, t, elifs, el) => {
            let mut es = String::from("(");
            for (c2, b2) in elifs {
                let _ = write!(es, " ( {} {} )", expr_sx(c2), block_sx(b2));
            }
            es.push_str(" )");
            format!("( if {} {} {} {} )", expr_sx(c), block_sx(t), es, block_sx(el))
        }
        Stmt::Case(sel, brs, el) => {
            let mut bs = String::from("(");
            for (labels, b) in brs {
                let ls: Vec<String> = labels.iter().map(lab_sx).collect();
                let _ = write!(bs, " ( ( {} ) {} )", ls.join(" "), block_sx(b));
            }
            bs.push_str(" )");
            format!("( case {} {} {} )", expr_sx(sel), bs, block_sx(el))
        }
        Stmt::For(x, a, b, step, body) => format!(
            "( for {x} {} {} {} {} )",
            expr_sx(a),
            expr_sx(b),
            match step {
                Some(st) => expr_sx(st),
                None => "-".into(),
            },
            block_sx(body)
        ),
        Stmt::While(c, body) => format!("( while {} {} )", expr_sx(c), block_sx(body)),
        Stmt::Repeat(body, c) => format!("( repeat {} {} )", block_sx(body), expr_sx(c)),
        Stmt::Exit => "( exit )".into(),
        Stmt::Continue => "( cont )".into(),
        Stmt::Return => "( ret )".into(),
        Stmt::ReturnVal(e) => format!("( retv {} )", expr_sx(e)),
        Stmt::ExprStmt(e) => format!("( expr {} )", expr_sx(e)),
        Stmt::AssignIdx(a, i, e) => format!("( asgi {a} {} {} )", expr_sx(i), expr_sx(e)),
        Stmt::AssignFld(sv, f, e) => format!("( asgf {sv} {f} {} )", expr_sx(e)),
        Stmt::FbCall(c, args) => {
            // same argument encoding as a function call
            let call = expr_sx(&Expr::Call(c.clone(), args.clone()));
            // "( c NAME ARGS )" -> "( fbcall NAME ARGS )"
            format!("( fbcall{}", &call[3..])
        }
    }
}

/// `fb <name> ( params ) ( vars ) <body>`
pub fn fb_sx(f: &FbDef) -> String {
    let as_func = FuncDef { name: f.name.clone(), ret: Ty::Bool, params: f.params.clone(), locals: f.vars.clone(), body: f.body.clone() };
    let line = func_sx(&as_func);
    // "func NAME BOOL (..." -> "fb NAME (..."
    let rest = line.splitn(4, ' ').nth(3).unwrap_or("").to_string();
    format!("fb {} {rest}", f.name)
}

// ------------------------------------------------------------------------------------------
// Generator
// ------------------------------------------------------------------------------------------

#[derive(Clone, Copy, Debug, PartialEq, Eq)]
pub enum Profile {
    Strict,
    Natural,
    Wild,
}

impl Profile {
    fn name(self) -> &'static str {
        match self {
            Profile::Strict => "strict",
            Profile::Natural => "natural",
            Profile::Wild => "wild",
        }
    }
}

pub struct Gen<'a> {
    rng: &'a mut Rng,
    profile: Profile,
    decls: Vec<VarDecl>,
    guards: usize,
    /// countdown to the single ill-typed place (None = none pending)
    sab: Option<u32>,
    pub sabotaged: Option<&'static str>,
    /// variables that must not be assigned here (FOR control / simple bounds of enclosing loops)
    restricted: Vec<String>,
    stmt_budget: i32,
    /// stage S4: FUNCTIONs that may be called from here, and variables that may only be read
    /// (VAR_INPUT parameters inside a function body)
    funcs: Vec<FuncDef>,
    /// stage S5: FB types and the PROGRAM's instance variables (PROGRAM body only)
    fbs: Vec<FbDef>,
    insts: Vec<(String, String)>,
    /// stage S3: aggregates in scope (PROGRAM body only)
    aggs: Vec<(String, AggDecl)>,
    readonly: Vec<String>,
    /// inside a FUNCTION body: its return type (a bare `RETURN;` is rejected there)
    func_ret: Option<Ty>,
}

fn boundary(rng: &mut Rng, k: IKind) -> i128 {
    let lo = k.lo_writable();
    let hi = k.hi_writable();
    let picks = [lo, lo + 1, -1, 0, 1, 2, hi - 1, hi, hi / 2, 10, 100, -100, 7];
    let v = *rng.pick(&picks);
    v.clamp(lo, hi)
}

fn small(rng: &mut Rng, k: IKind) -> i128 {
    let v = rng.range(-12, 12) as i128;
    v.clamp(k.lo(), k.hi())
}

fn any_value(rng: &mut Rng, k: IKind) -> i128 {
    match rng.below(20) {
        0..=15 => small(rng, k),
        16..=17 => boundary(rng, k),
        _ => {
            let lo = k.lo_writable();
            let hi = k.hi_writable();
            let span = (hi - lo + 1) as u128;
            let r = ((rng.next() as u128) << 64 | rng.next() as u128) % span;
            lo + r as i128
        }
    }
}

impl<'a> Gen<'a> {
    pub fn new(rng: &'a mut Rng, profile: Profile, sabotage: bool) -> Self {
        let sab = if sabotage { Some(rng.below(60) as u32) } else { None };
        Gen {
            rng,
            profile,
            decls: Vec::new(),
            guards: 0,
            sab,
            sabotaged: None,
            restricted: Vec::new(),
            stmt_budget: 0,
            funcs: Vec::new(), fbs: Vec::new(), insts: Vec::new(), aggs: Vec::new(),
            readonly: Vec::new(),
            func_ret: None,
        }
    }

    /// True exactly once: at the decision point where the single ill-typed place is planted.
    fn sab(&mut self, what: &'static str) -> bool {
        if let Some(n) = self.sab {
            if n == 0 {
                self.sab = None;
                self.sabotaged = Some(what);
                return true;
            }
            self.sab = Some(n - 1);
        }
        false
    }

    fn vars_of(&self, pred: impl Fn(&VarDecl) -> bool) -> Vec<String> {
        self.decls
            .iter()
            .filter(|d| !d.name.starts_with('g') && pred(d))
            .map(|d| d.name.clone())
            .collect()
    }

    fn int_vars(&self, kinds: &[IKind]) -> Vec<String> {
        self.vars_of(|d| matches!(d.ty, Ty::Int(k) if kinds.contains(&k)))
    }

    fn bool_vars(&self) -> Vec<String> {
        self.vars_of(|d| d.ty == Ty::Bool)
    }

    fn kind_of(&self, name: &str) -> Option<Ty> {
        self.decls.iter().find(|d| d.name == name).map(|d| d.ty)
    }

    fn gen_decls(&mut self) {
        // two or three active kinds, a few variables each, plus BOOLs
        let nk = 2 + self.rng.below(3) as usize;
        let mut kinds: Vec<IKind> = Vec::new();
        while kinds.len() < nk {
            let k = *self.rng.pick(&KINDS);
            if !kinds.contains(&k) {
                kinds.push(k);
            }
        }
        if self.rng.chance(1, 2) && !kinds.contains(&IKind::DInt) {
            kinds.push(IKind::DInt);
        }
        let mut counts = std::collections::HashMap::new();
        for k in kinds {
            let n = 1 + self.rng.below(3);
            for _ in 0..n {
                let idx = counts.entry(k).or_insert(0);
                let name = format!("{}{}", k.prefix(), idx);
                *idx += 1;
                let has_init = self.rng.chance(3, 4);
                let mut init = if has_init { any_value(self.rng, k) } else { 0 };
                let mut typed = self.rng.chance(1, 3) || init.abs() > i32::MAX as i128;
                if has_init && self.sab("decl-init-range") {
                    init = if self.rng.bool() && k != IKind::ULInt && k != IKind::LInt { k.hi() + 1 } else { k.lo() - 1 };
                    if init.abs() > i64::MAX as i128 {
                        init = k.lo() - 1;
                    }
                    typed = typed && init.abs() <= i64::MAX as i128;
                    if k == IKind::LInt {
                        // cannot write anything outside LINT; use an out-of-i32 untyped literal instead
                        init = 3_000_000_000;
                        typed = false;
                    }
                }
                self.decls.push(VarDecl { name, ty: Ty::Int(k), init, typed_init: typed, has_init });
            }
        }
        let nb = 1 + self.rng.below(3);
        for i in 0..nb {
            let has_init = self.rng.chance(1, 2);
            self.decls.push(VarDecl {
                name: format!("b{i}"),
                ty: Ty::Bool,
                init: if has_init { self.rng.below(2) as i128 } else { 0 },
                typed_init: false,
                has_init,
            });
        }
        if self.sab("decl-duplicate") {
            let d = self.decls[0].clone();
            self.decls.push(d);
        }
    }

    fn new_guard(&mut self) -> String {
        let name = format!("g{}", self.guards);
        self.guards += 1;
        self.decls.push(VarDecl { name: name.clone(), ty: Ty::Int(IKind::DInt), init: 0, typed_init: false, has_init: false });
        name
    }

    // ---- expressions -------------------------------------------------------------------

    /// Largest untyped literal whose *static* (smallest-fit) type keeps an expression of kind `k`
    /// assignable to `k` in the real checker.
    fn max_untyped(k: IKind) -> i128 {
        match k {
            IKind::SInt => 127,
            IKind::Int => 32767,
            _ => i32::MAX as i128,
        }
    }

    /// A literal operand next to an operand of kind `k`.
    fn lit_operand(&mut self, k: IKind) -> Expr {
        let typed = match self.profile {
            Profile::Strict => !(k.rank() >= IKind::DInt.rank()) || self.rng.chance(1, 2),
            _ => self.rng.chance(1, 5),
        };
        if typed {
            let v = if self.rng.chance(5, 6) { small(self.rng, k) } else { boundary(self.rng, k) };
            return Expr::Lit(Some(k), v);
        }
        let cap = Self::max_untyped(k).min(k.hi());
        let mut v = if self.rng.chance(7, 8) { self.rng.range(0, 12) as i128 } else { boundary(self.rng, k).abs() };
        v = v.min(cap);
        let neg = k.signed() && self.rng.chance(1, 4);
        let e = Expr::Lit(None, v);
        if neg {
            Expr::Un(UnOp::Neg, Box::new(e))
        } else {
            e
        }
    }

    fn arith_op(&mut self) -> BinOp {
        let r = self.rng.below(100);
        match r {
            0..=34 => BinOp::Add,
            35..=62 => BinOp::Sub,
            63..=74 => BinOp::Mul,
            75..=84 => BinOp::Div,
            85..=93 => BinOp::Mod,
            _ => {
                if self.profile == Profile::Wild {
                    BinOp::Pow
                } else {
                    BinOp::Add
                }
            }
        }
    }

    fn nonzero_divisor(&mut self, k: IKind) -> Expr {
        let n = 1 + self.rng.below(9) as i128;
        if self.rng.chance(1, 2) {
            Expr::Lit(Some(k), n)
        } else {
            Expr::Lit(None, n)
        }
    }

    /// Kinds a leaf may have inside an expression that must be assignable to kind `k`.
    fn leaf_kinds(&mut self, k: IKind) -> Vec<IKind> {
        match self.profile {
            Profile::Strict | Profile::Natural => k.below(),
            Profile::Wild => {
                if k.signed() {
                    k.below()
                } else {
                    // unsigned outranks signed: signed leaves keep the static type unsigned
                    let mut v = k.below();
                    v.extend([IKind::SInt, IKind::Int, IKind::DInt, IKind::LInt]);
                    v
                }
            }
        }
    }

    /// Integer expression whose static type is (intended to be) exactly kind `k`.
    pub fn gen_int(&mut self, k: IKind, depth: u32) -> Expr {
        if self.sab("expr-bool-for-int") {
            return self.gen_bool(0);
        }
        if let Some(c) = self.maybe_call(Ty::Int(k)) {
            return c;
        }
        if let Some(c) = self.maybe_fld(Ty::Int(k)) {
            return c;
        }
        if let Some(c) = self.maybe_agg_read(Ty::Int(k)) {
            return c;
        }
        let exact = self.int_vars(&[k]);
        if depth == 0 || self.rng.chance(1, 4) {
            if !exact.is_empty() && self.rng.chance(3, 4) {
                if self.sab("expr-undeclared") {
                    return Expr::Var("nope".into());
                }
                return Expr::Var(self.rng.pick(&exact).clone());
            }
            if self.sab("lit-typed-range") && k != IKind::LInt && k != IKind::ULInt {
                return Expr::Lit(Some(k), k.hi() + 1);
            }
            let v = if self.rng.chance(4, 5) { small(self.rng, k) } else { boundary(self.rng, k) };
            return Expr::Lit(Some(k), v);
        }
        match self.rng.below(10) {
            0 if k.signed() || self.profile == Profile::Wild => {
                Expr::Un(UnOp::Neg, Box::new(self.gen_int(k, depth - 1)))
            }
            _ => {
                let op = self.arith_op();
                let main = self.gen_int(k, depth - 1);
                if matches!(op, BinOp::Div | BinOp::Mod) && self.rng.chance(3, 4) {
                    let d = self.nonzero_divisor(k);
                    return Expr::Bin(op, Box::new(main), Box::new(d));
                }
                let other = self.gen_operand(k, depth - 1);
                let (l, r) = if self.rng.chance(2, 3) { (main, other) } else { (other, main) };
                Expr::Bin(op, Box::new(l), Box::new(r))
            }
        }
    }

    /// The "other" operand of an arithmetic/comparison node whose main operand has kind `k`.
    fn gen_operand(&mut self, k: IKind, depth: u32) -> Expr {
        let lit_ok = match self.profile {
            // NoDrift: an untyped literal next to SINT/INT computes in DINT
            Profile::Strict => true,
            _ => true,
        };
        if lit_ok && self.rng.chance(2, 5) {
            return self.lit_operand(k);
        }
        let kinds = self.leaf_kinds(k);
        let k2 = if self.rng.chance(3, 5) { k } else { *self.rng.pick(&kinds) };
        if k2 == k {
            return self.gen_int(k, depth);
        }
        let vars = self.int_vars(&[k2]);
        if !vars.is_empty() && self.rng.chance(4, 5) {
            Expr::Var(self.rng.pick(&vars).clone())
        } else {
            self.gen_int(k2, depth.min(1))
        }
    }

    pub fn gen_bool(&mut self, depth: u32) -> Expr {
        if self.sab("expr-int-for-bool") {
            return Expr::Lit(None, 1);
        }
        if let Some(c) = self.maybe_call(Ty::Bool) {
            return c;
        }
        if let Some(c) = self.maybe_fld(Ty::Bool) {
            return c;
        }
        if let Some(c) = self.maybe_agg_read(Ty::Bool) {
            return c;
        }
        let bvars = self.bool_vars();
        if depth == 0 || self.rng.chance(1, 5) {
            if !bvars.is_empty() && self.rng.chance(3, 4) {
                return Expr::Var(self.rng.pick(&bvars).clone());
            }
            return Expr::BLit(self.rng.bool());
        }
        if self.rng.chance(1, 8) {
            if let Some(e) = self.guard_idiom() {
                return e;
            }
        }
        match self.rng.below(10) {
            0 => Expr::Un(UnOp::Not, Box::new(self.gen_bool(depth - 1))),
            1 | 2 => {
                let op = *self.rng.pick(&[BinOp::And, BinOp::Or, BinOp::Xor, BinOp::And, BinOp::Or]);
                Expr::Bin(op, Box::new(self.gen_bool(depth - 1)), Box::new(self.gen_bool(depth - 1)))
            }
            3 => {
                let ops: &[BinOp] = if self.profile == Profile::Wild {
                    &[BinOp::Eq, BinOp::Ne, BinOp::Lt, BinOp::Ge]
                } else {
                    &[BinOp::Eq, BinOp::Ne]
                };
                let op = *self.rng.pick(ops);
                Expr::Bin(op, Box::new(self.gen_bool(depth - 1)), Box::new(self.gen_bool(depth - 1)))
            }
            _ => {
                // comparison of two integer expressions
                let present: Vec<IKind> = KINDS
                    .iter()
                    .copied()
                    .filter(|k| !self.int_vars(&[*k]).is_empty())
                    .collect();
                let k = if present.is_empty() { IKind::DInt } else { *self.rng.pick(&present) };
                let op = *self.rng.pick(&[BinOp::Eq, BinOp::Ne, BinOp::Lt, BinOp::Le, BinOp::Gt, BinOp::Ge]);
                let l = self.gen_int(k, depth - 1);
                let r = if self.profile == Profile::Wild && self.rng.chance(1, 2) {
                    let k2 = *self.rng.pick(&KINDS);
                    self.gen_int(k2, depth - 1)
                } else {
                    self.gen_operand(k, depth - 1)
                };
                if self.rng.bool() {
                    Expr::Bin(op, Box::new(l), Box::new(r))
                } else {
                    Expr::Bin(op, Box::new(r), Box::new(l))
                }
            }
        }
    }

    // ---- statements --------------------------------------------------------------------

    fn assignable_vars(&self) -> Vec<String> {
        self.vars_of(|_| true)
            .into_iter()
            .filter(|n| !self.restricted.contains(n) && !self.readonly.contains(n))
            .collect()
    }

    fn gen_assign(&mut self) -> Stmt {
        let targets = self.assignable_vars();
        if targets.is_empty() {
            let g = self.new_guard();
            return Stmt::Assign(g, Expr::Lit(None, 0));
        }
        let mut x = self.rng.pick(&targets).clone();
        if !self.restricted.is_empty() && self.sab("assign-restricted") {
            x = self.restricted[0].clone();
        }
        let ty = self.kind_of(&x).unwrap_or(Ty::Bool);
        if self.sab("assign-wrong-family") {
            let e = match ty {
                Ty::Bool => Expr::Lit(None, 1),
                Ty::Int(_) => Expr::BLit(true),
            };
            return Stmt::Assign(x, e);
        }
        match ty {
            Ty::Bool => Stmt::Assign(x, self.gen_bool(2)),
            Ty::Int(k) => {
                if self.sab("assign-narrowing") {
                    // a strictly wider kind of the same chain (or the other chain for the widest)
                    let wider: Vec<IKind> = KINDS
                        .iter()
                        .copied()
                        .filter(|k2| (k2.signed() == k.signed() && k2.rank() > k.rank()) || k2.signed() != k.signed())
                        .collect();
                    let k2 = *self.rng.pick(&wider);
                    let vars = self.int_vars(&[k2]);
                    let e = if vars.is_empty() { Expr::Lit(Some(k2), 1) } else { Expr::Var(vars[0].clone()) };
                    return Stmt::Assign(x, e);
                }
                let e = match self.profile {
                    Profile::Strict => {
                        if k == IKind::DInt && self.rng.chance(1, 4) {
                            // bare untyped literal: stored as DInt, which is the declared kind
                            let v = self.rng.range(0, 100) as i128;
                            if self.rng.chance(1, 4) {
                                Expr::Un(UnOp::Neg, Box::new(Expr::Lit(None, v)))
                            } else {
                                Expr::Lit(None, v)
                            }
                        } else {
                            self.gen_strict_int(k, 2)
                        }
                    }
                    _ => match self.rng.below(10) {
                        0 | 1 => {
                            // bare literal (contextual int literal): any magnitude is accepted
                            let v = if self.rng.chance(2, 3) {
                                self.rng.range(0, 200) as i128
                            } else {
                                any_value(self.rng, k).abs().min(i32::MAX as i128)
                            };
                            if self.rng.chance(1, 4) {
                                Expr::Un(UnOp::Neg, Box::new(Expr::Lit(None, v)))
                            } else {
                                Expr::Lit(None, v)
                            }
                        }
                        2 => {
                            // widening: a narrower kind of the same chain
                            let below = k.below();
                            let k2 = *self.rng.pick(&below);
                            self.gen_int(k2, 1)
                        }
                        _ => self.gen_int(k, 2),
                    },
                };
                Stmt::Assign(x, e)
            }
        }
    }

    /// Strict profile: static type = dynamic tag = `k` at every node, no untyped literal next to
    /// SINT/INT, no bare literal unless the target is DINT.
    fn gen_strict_int(&mut self, k: IKind, depth: u32) -> Expr {
        if let Some(c) = self.maybe_call(Ty::Int(k)) {
            return c;
        }
        if let Some(c) = self.maybe_fld(Ty::Int(k)) {
            return c;
        }
        if let Some(c) = self.maybe_agg_read(Ty::Int(k)) {
            return c;
        }
        let exact = self.int_vars(&[k]);
        if depth == 0 || self.rng.chance(1, 4) {
            if !exact.is_empty() && self.rng.chance(3, 4) {
                return Expr::Var(self.rng.pick(&exact).clone());
            }
            let v = if self.rng.chance(4, 5) { small(self.rng, k) } else { boundary(self.rng, k) };
            return Expr::Lit(Some(k), v);
        }
        if k.signed() && self.rng.chance(1, 10) {
            return Expr::Un(UnOp::Neg, Box::new(self.gen_strict_int(k, depth - 1)));
        }
        let op = self.arith_op();
        let main = self.gen_strict_int(k, depth - 1);
        if matches!(op, BinOp::Div | BinOp::Mod) && self.rng.chance(3, 4) {
            let d = Expr::Lit(Some(k), 1 + self.rng.below(9) as i128);
            return Expr::Bin(op, Box::new(main), Box::new(d));
        }
        let other = self.gen_strict_operand(k, depth - 1);
        let (l, r) = if self.rng.chance(2, 3) { (main, other) } else { (other, main) };
        Expr::Bin(op, Box::new(l), Box::new(r))
    }

    fn gen_strict_operand(&mut self, k: IKind, depth: u32) -> Expr {
        let untyped_ok = k.rank() >= IKind::DInt.rank();
        match self.rng.below(10) {
            0..=2 if untyped_ok => {
                let cap = k.hi().min(i32::MAX as i128);
                let v = if self.rng.chance(7, 8) { self.rng.range(0, 12) as i128 } else { boundary(self.rng, k).abs().min(cap) };
                if k.signed() && self.rng.chance(1, 4) {
                    Expr::Un(UnOp::Neg, Box::new(Expr::Lit(None, v)))
                } else {
                    Expr::Lit(None, v)
                }
            }
            3 | 4 => {
                // a narrower kind of the same chain (in-chain promotion keeps the tag = k)
                let below = k.below();
                let k2 = *self.rng.pick(&below);
                let vars = self.int_vars(&[k2]);
                if !vars.is_empty() {
                    Expr::Var(self.rng.pick(&vars).clone())
                } else {
                    self.gen_strict_int(k2, depth.min(1))
                }
            }
            _ => self.gen_strict_int(k, depth),
        }
    }

    fn gen_strict_bool(&mut self, depth: u32) -> Expr {
        let bvars = self.bool_vars();
        if depth == 0 || self.rng.chance(1, 5) {
            if !bvars.is_empty() && self.rng.chance(3, 4) {
                return Expr::Var(self.rng.pick(&bvars).clone());
            }
            return Expr::BLit(self.rng.bool());
        }
        if self.rng.chance(1, 8) {
            if let Some(e) = self.guard_idiom() {
                return e;
            }
        }
        match self.rng.below(10) {
            0 => Expr::Un(UnOp::Not, Box::new(self.gen_strict_bool(depth - 1))),
            1 | 2 => {
                let op = *self.rng.pick(&[BinOp::And, BinOp::Or, BinOp::Xor, BinOp::And, BinOp::Or]);
                Expr::Bin(op, Box::new(self.gen_strict_bool(depth - 1)), Box::new(self.gen_strict_bool(depth - 1)))
            }
            3 => {
                let op = *self.rng.pick(&[BinOp::Eq, BinOp::Ne]);
                Expr::Bin(op, Box::new(self.gen_strict_bool(depth - 1)), Box::new(self.gen_strict_bool(depth - 1)))
            }
            _ => {
                let present: Vec<IKind> = KINDS
                    .iter()
                    .copied()
                    .filter(|k| !self.int_vars(&[*k]).is_empty())
                    .collect();
                let k = if present.is_empty() { IKind::DInt } else { *self.rng.pick(&present) };
                let op = *self.rng.pick(&[BinOp::Eq, BinOp::Ne, BinOp::Lt, BinOp::Le, BinOp::Gt, BinOp::Ge]);
                let l = self.gen_strict_int(k, depth - 1);
                // comparisons tolerate an untyped literal next to any kind (result is BOOL)
                let r = if self.rng.chance(1, 3) {
                    let cap = k.hi().min(i32::MAX as i128);
                    let v = (self.rng.range(0, 40) as i128).min(cap);
                    if k.signed() && self.rng.chance(1, 4) {
                        Expr::Un(UnOp::Neg, Box::new(Expr::Lit(None, v)))
                    } else {
                        Expr::Lit(None, v)
                    }
                } else {
                    self.gen_strict_operand(k, depth - 1)
                };
                if self.rng.bool() {
                    Expr::Bin(op, Box::new(l), Box::new(r))
                } else {
                    Expr::Bin(op, Box::new(r), Box::new(l))
                }
            }
        }
    }

    /// The everyday guard: `d <> 0 AND n / d > 2`, `d = 0 OR n MOD d = 1` — correct only if AND/OR
    /// short-circuit.  Same-kind variables and typed literals, so it is valid in every profile.
    fn guard_idiom(&mut self) -> Option<Expr> {
        let present: Vec<IKind> = KINDS.iter().copied().filter(|k| self.int_vars(&[*k]).len() >= 1).collect();
        if present.is_empty() {
            return None;
        }
        let k = *self.rng.pick(&present);
        let vars = self.int_vars(&[k]);
        let d = self.rng.pick(&vars).clone();
        let n = self.rng.pick(&vars).clone();
        let zero = Expr::Lit(Some(k), 0);
        let op = if self.rng.bool() { BinOp::Div } else { BinOp::Mod };
        let quotient = Expr::Bin(op, Box::new(Expr::Var(n)), Box::new(Expr::Var(d.clone())));
        let cmp = *self.rng.pick(&[BinOp::Gt, BinOp::Le, BinOp::Eq, BinOp::Ne]);
        let rhs = Expr::Bin(cmp, Box::new(quotient), Box::new(Expr::Lit(Some(k), self.rng.below(3) as i128)));
        // one time in three the possibly faulting operand comes FIRST and the other operand is a
        // bare BOOL variable or literal: the left operand must still be evaluated
        if self.rng.chance(1, 3) {
            let bools = self.bool_vars();
            let right = if bools.is_empty() || self.rng.chance(1, 4) {
                Expr::BLit(self.rng.bool())
            } else {
                Expr::Var(self.rng.pick(&bools).clone())
            };
            let op = if self.rng.bool() { BinOp::And } else { BinOp::Or };
            return Some(Expr::Bin(op, Box::new(rhs), Box::new(right)));
        }
        Some(if self.rng.bool() {
            Expr::Bin(
                BinOp::And,
                Box::new(Expr::Bin(BinOp::Ne, Box::new(Expr::Var(d)), Box::new(zero))),
                Box::new(rhs),
            )
        } else {
            Expr::Bin(
                BinOp::Or,
                Box::new(Expr::Bin(BinOp::Eq, Box::new(Expr::Var(d)), Box::new(zero))),
                Box::new(rhs),
            )
        })
    }

    // ---- stage S4: calls --------------------------------------------------------------------

    fn maybe_call(&mut self, ty: Ty) -> Option<Expr> {
        if self.funcs.is_empty() || !self.rng.chance(1, 5) {
            return None;
        }
        let idx: Vec<usize> = (0..self.funcs.len()).filter(|i| self.funcs[*i].ret == ty).collect();
        if idx.is_empty() {
            return None;
        }
        let fi = *self.rng.pick(&idx);
        self.gen_call(fi)
    }

    /// A variable that can be bound to an OUT / IN_OUT parameter of type `ty`.
    fn bindable_var(&mut self, ty: Ty, exact: bool, used: &[String]) -> Option<String> {
        let cands: Vec<String> = self
            .decls
            .iter()
            .filter(|d| !d.name.starts_with('g'))
            .filter(|d| {
                if exact || self.profile == Profile::Strict {
                    d.ty == ty
                } else {
                    match (d.ty, ty) {
                        (Ty::Bool, Ty::Bool) => true,
                        (Ty::Int(v), Ty::Int(p)) => v.signed() == p.signed() && v.rank() >= p.rank(),
                        _ => false,
                    }
                }
            })
            .map(|d| d.name.clone())
            .filter(|n| !self.restricted.contains(n) && !self.readonly.contains(n) && !used.contains(n))
            .collect();
        if cands.is_empty() {
            None
        } else {
            Some(self.rng.pick(&cands).clone())
        }
    }

    fn arg_value(&mut self, ty: Ty) -> Expr {
        // no call inside a call argument: the real checker mis-reads `F(G(x := 1), 2)` as a formal
        // call of F ("formal call arguments must be named") — a false rejection, steered around
        let saved = std::mem::take(&mut self.funcs);
        let e = self.arg_value_inner(ty);
        self.funcs = saved;
        e
    }

    fn arg_value_inner(&mut self, ty: Ty) -> Expr {
        if self.sab("call-wrong-family") {
            return match ty {
                Ty::Bool => Expr::Lit(None, 1),
                Ty::Int(_) => Expr::BLit(true),
            };
        }
        match ty {
            Ty::Bool => self.cond(1),
            Ty::Int(k) => {
                if self.profile != Profile::Strict && self.rng.chance(1, 4) {
                    // bare literal (contextual)
                    Expr::Lit(None, self.rng.range(0, 60) as i128)
                } else {
                    self.int_expr(k, 1)
                }
            }
        }
    }

    fn gen_call(&mut self, fi: usize) -> Option<Expr> {
        let f = self.funcs[fi].clone();
        let mut named = self.rng.chance(3, 5);
        let mut args: Vec<Arg> = Vec::new();
        let mut used: Vec<String> = Vec::new();
        // first pass: can every mandatory binding be satisfied?
        let mut plan: Vec<Option<Expr>> = Vec::new();
        for p in &f.params {
            match p.dir {
                Dir::In => plan.push(None),
                Dir::Out => {
                    let v = self.bindable_var(p.ty, false, &used);
                    if let Some(v) = &v {
                        used.push(v.clone());
                    } else {
                        named = true; // cannot be positional without a target
                    }
                    plan.push(v.map(Expr::Var));
                }
                Dir::InOut => {
                    let v = self.bindable_var(p.ty, true, &used)?;
                    used.push(v.clone());
                    plan.push(Some(Expr::Var(v)));
                }
            }
        }
        let missing_inout = named && self.sab("call-missing-inout");
        let arrow_mismatch = named && self.sab("call-arrow-mismatch");
        for (p, planned) in f.params.iter().zip(plan.into_iter()) {
            // identifiers are case-insensitive: a quarter of the formal names are spelled in capitals
            let pname = if named { Some(self.vary_case(&p.name)) } else { None };
            match p.dir {
                Dir::In => {
                    if named && self.rng.chance(1, 4) {
                        continue; // omitted input: default
                    }
                    let e = self.arg_value(p.ty);
                    args.push(Arg { name: pname, arrow: false, e });
                }
                Dir::Out => {
                    let Some(mut e) = planned else { continue };
                    if named && self.rng.chance(1, 3) {
                        continue; // output not bound
                    }
                    if self.sab("call-out-nonvar") {
                        e = match p.ty {
                            Ty::Bool => Expr::BLit(false),
                            Ty::Int(_) => Expr::Lit(None, 3),
                        };
                    }
                    args.push(Arg { name: pname, arrow: named && !arrow_mismatch, e });
                }
                Dir::InOut => {
                    if missing_inout {
                        continue;
                    }
                    let Some(e) = planned else { continue };
                    args.push(Arg { name: pname, arrow: false, e });
                }
            }
        }
        if named && args.len() > 1 && self.rng.chance(1, 3) {
            args.rotate_left(1); // formal arguments in another order than the declaration
        }
        if !named && !args.is_empty() && self.sab("call-arg-count") {
            args.pop();
        }
        if named && !args.is_empty() && self.sab("call-unknown-param") {
            args[0].name = Some("zz".into());
        }
        let mut name = f.name.clone();
        if self.sab("call-undefined-function") {
            name = "Gx".into();
        }
        Some(Expr::Call(name, args))
    }

    fn cond(&mut self, depth: u32) -> Expr {
        if self.sab("cond-int") {
            let ks = self.int_vars(&KINDS);
            return if ks.is_empty() { Expr::Lit(None, 1) } else { Expr::Var(ks[0].clone()) };
        }
        if self.profile == Profile::Strict {
            self.gen_strict_bool(depth)
        } else {
            self.gen_bool(depth)
        }
    }

    fn int_expr(&mut self, k: IKind, depth: u32) -> Expr {
        if self.profile == Profile::Strict {
            self.gen_strict_int(k, depth)
        } else {
            self.gen_int(k, depth)
        }
    }

    pub fn gen_block(&mut self, depth: u32, in_loop: bool) -> Vec<Stmt> {
        let n = 1 + self.rng.below(if depth == 0 { 2 } else { 4 }) as usize;
        let mut out = Vec::new();
        for _ in 0..n {
            if self.stmt_budget <= 0 {
                break;
            }
            self.stmt_budget -= 1;
            self.gen_stmt(depth, in_loop, &mut out);
        }
        if out.is_empty() {
            out.push(self.gen_assign());
        }
        out
    }

    fn gen_stmt(&mut self, depth: u32, in_loop: bool, out: &mut Vec<Stmt>) {
        if !in_loop && self.sab("exit-outside-loop") {
            out.push(if self.rng.bool() { Stmt::Exit } else { Stmt::Continue });
            return;
        }
        if in_loop && self.rng.chance(1, 9) {
            // EXIT / CONTINUE, usually under a condition, anywhere in a loop body (also at depth 0)
            let s = if self.rng.bool() { Stmt::Exit } else { Stmt::Continue };
            if self.rng.chance(3, 4) {
                let c = self.cond(1);
                out.push(Stmt::If(c, vec![s], Vec::new(), Vec::new()));
            } else {
                out.push(s);
            }
            // something after it, so that skipping/leaving is observable
            out.push(self.gen_assign());
            return;
        }
        if !self.aggs.is_empty() && self.rng.chance(1, 4) {
            if let Some(st) = self.gen_agg_assign() {
                out.push(st);
                return;
            }
        }
        if !self.insts.is_empty() && self.rng.chance(1, 6) {
            if let Some(st) = self.gen_fb_call() {
                out.push(st);
                return;
            }
        }
        if !self.funcs.is_empty() && self.rng.chance(1, 12) {
            let fi = self.rng.below(self.funcs.len() as u64) as usize;
            if let Some(c) = self.gen_call(fi) {
                out.push(Stmt::ExprStmt(c));
                return;
            }
        }
        let roll = if depth == 0 { self.rng.below(50) } else { self.rng.below(100) };
        match roll {
            0..=49 => out.push(self.gen_assign()),
            50..=64 => {
                let c = self.cond(2);
                let t = self.gen_block(depth - 1, in_loop);
                let mut elifs = Vec::new();
                while self.rng.chance(1, 4) && elifs.len() < 2 {
                    let c2 = self.cond(1);
                    let b2 = self.gen_block(depth - 1, in_loop);
                    elifs.push((c2, b2));
                }
                let el = if self.rng.chance(1, 2) { self.gen_block(depth - 1, in_loop) } else { Vec::new() };
                out.push(Stmt::If(c, t, elifs, el));
            }
            65..=72 => self.gen_case(depth, in_loop, out),
            73..=82 => self.gen_for(depth, out),
            83..=88 => self.gen_while(depth, out),
            89..=93 => self.gen_repeat(depth, out),
            94..=97 => {
                if in_loop {
                    // EXIT / CONTINUE, usually under a condition
                    let s = if self.rng.bool() { Stmt::Exit } else { Stmt::Continue };
                    if self.rng.chance(3, 4) {
                        let c = self.cond(1);
                        out.push(Stmt::If(c, vec![s], Vec::new(), Vec::new()));
                    } else {
                        out.push(s);
                    }
                } else {
                    out.push(self.gen_assign());
                }
            }
            _ => {
                if self.profile != Profile::Strict {
                    // RETURN in a PROGRAM (docs/specs/06: "early exit"); the runtime reports
                    // InvalidControlFlow — known finding
                    let c = self.cond(1);
                    let r = match self.func_ret {
                        None => Stmt::Return,
                        Some(Ty::Bool) => Stmt::ReturnVal(self.cond(1)),
                        Some(Ty::Int(k)) => Stmt::ReturnVal(self.int_expr(k, 1)),
                    };
                    out.push(Stmt::If(c, vec![r], Vec::new(), Vec::new()));
                } else {
                    out.push(self.gen_assign());
                }
            }
        }
    }

    fn gen_case(&mut self, depth: u32, in_loop: bool, out: &mut Vec<Stmt>) {
        if self.sab("case-bool-selector") {
            let c = self.gen_bool(0);
            let b = self.gen_block(depth - 1, in_loop);
            out.push(Stmt::Case(c, vec![(vec![Label::Single(LabLit { ty: None, v: 1 })], b)], Vec::new()));
            return;
        }
        let present: Vec<IKind> = KINDS.iter().copied().filter(|k| !self.int_vars(&[*k]).is_empty()).collect();
        let k = if present.is_empty() { IKind::DInt } else { *self.rng.pick(&present) };
        let sel = if self.rng.chance(2, 3) {
            let vars = self.int_vars(&[k]);
            if vars.is_empty() { self.int_expr(k, 1) } else { Expr::Var(self.rng.pick(&vars).clone()) }
        } else {
            self.int_expr(k, 1)
        };
        let nb = 1 + self.rng.below(3) as usize;
        let mut used: Vec<(i128, i128)> = Vec::new();
        let mut brs = Vec::new();
        let mut cursor: i128 = if k.signed() && self.rng.chance(1, 3) { -3 } else { 0 };
        if self.rng.chance(1, 6) {
            cursor = (k.hi_writable().min(i32::MAX as i128)) - 6;
        }
        for _ in 0..nb {
            let nl = 1 + self.rng.below(2) as usize;
            let mut labels = Vec::new();
            for _ in 0..nl {
                let typed = if self.rng.chance(1, 5) {
                    // a typed label must be assignable to the selector kind
                    let below = k.below();
                    Some(*self.rng.pick(&below))
                } else {
                    None
                };
                let cap = typed.map(|t| t.hi()).unwrap_or(i32::MAX as i128).min(k.hi());
                if cursor + 4 > cap {
                    break;
                }
                // typed labels are kept non-negative (the checker's duplicate tracker drops the
                // sign of a typed literal; not worth a finding)
                if typed.is_some() && cursor < 0 {
                    cursor = 0;
                }
                if self.rng.chance(1, 3) {
                    let lo = cursor;
                    let hi = cursor + self.rng.below(3) as i128;
                    labels.push(Label::Range(LabLit { ty: typed, v: lo }, LabLit { ty: typed, v: hi }));
                    used.push((lo, hi));
                    cursor = hi + 1 + self.rng.below(2) as i128;
                } else {
                    labels.push(Label::Single(LabLit { ty: typed, v: cursor }));
                    used.push((cursor, cursor));
                    cursor += 1 + self.rng.below(2) as i128;
                }
            }
            if labels.is_empty() {
                continue;
            }
            if self.sab("case-duplicate-label") && !used.is_empty() {
                labels.push(Label::Single(LabLit { ty: None, v: used[0].0 }));
            }
            if self.sab("case-label-kind") {
                let other = if k.signed() { IKind::UInt } else { IKind::Int };
                labels.push(Label::Single(LabLit { ty: Some(other), v: 120 }));
            }
            let b = self.gen_block(depth - 1, in_loop);
            brs.push((labels, b));
        }
        if brs.is_empty() {
            out.push(self.gen_assign());
            return;
        }
        let el = if self.rng.chance(1, 2) { self.gen_block(depth - 1, in_loop) } else { Vec::new() };
        out.push(Stmt::Case(sel, brs, el));
    }

    fn guard_prefix(&mut self, body: &mut Vec<Stmt>, g: &str, limit: i128, with_exit: bool) {
        let inc = Stmt::Assign(
            g.to_string(),
            Expr::Bin(BinOp::Add, Box::new(Expr::Var(g.to_string())), Box::new(Expr::Lit(None, 1))),
        );
        let mut pre = vec![inc];
        if with_exit {
            pre.push(Stmt::If(
                Expr::Bin(BinOp::Gt, Box::new(Expr::Var(g.to_string())), Box::new(Expr::Lit(None, limit))),
                vec![Stmt::Exit],
                Vec::new(),
                Vec::new(),
            ));
        }
        pre.append(body);
        *body = pre;
    }

    fn gen_for(&mut self, depth: u32, out: &mut Vec<Stmt>) {
        let candidates: Vec<String> = self
            .int_vars(&KINDS)
            .into_iter()
            .filter(|n| !self.restricted.contains(n) && !self.readonly.contains(n))
            .collect();
        if candidates.is_empty() {
            out.push(self.gen_assign());
            return;
        }
        let mut x = self.rng.pick(&candidates).clone();
        if self.profile == Profile::Strict {
            // NoDrift guard: no ULINT control variable (int_value casts ULINT `as i64`)
            let ok: Vec<String> = candidates
                .iter()
                .filter(|n| self.kind_of(n) != Some(Ty::Int(IKind::ULInt)))
                .cloned()
                .collect();
            if ok.is_empty() {
                out.push(self.gen_assign());
                return;
            }
            x = self.rng.pick(&ok).clone();
        }
        if self.sab("for-bool-control") {
            let b = self.bool_vars();
            if !b.is_empty() {
                x = b[0].clone();
            }
        }
        if self.profile == Profile::Wild && self.sab("for-undeclared-control") {
            x = "zz".into();
        }
        let k = match self.kind_of(&x) {
            Some(Ty::Int(k)) => k,
            _ => IKind::Int,
        };
        let mut restricted_add = vec![x.clone()];
        let mut guard = None;
        let (start, end, step);
        let literal_bounds = self.rng.chance(3, 5);
        if literal_bounds {
            // literal bounds: the iteration count is known, no guard needed
            let near_top = self.rng.chance(1, 8);
            let cap = k.hi().min(i32::MAX as i128);
            let down = self.rng.chance(1, 4) && (k.signed() || self.profile == Profile::Wild);
            let base = if near_top { cap - self.rng.below(4) as i128 } else { self.rng.range(if k.signed() { -4 } else { 0 }, 6) as i128 };
            let span = self.rng.below(7) as i128;
            let st = 1 + self.rng.below(3) as i128;
            let (a, b) = if down { (base, base - span) } else { (base, (base + span).min(cap)) };
            let lit = |v: i128, typed: bool| -> Expr {
                if typed {
                    Expr::Lit(Some(k), v)
                } else if v < 0 {
                    Expr::Un(UnOp::Neg, Box::new(Expr::Lit(None, -v)))
                } else {
                    Expr::Lit(None, v)
                }
            };
            let typed = self.profile == Profile::Strict && self.rng.chance(1, 3) || self.rng.chance(1, 6);
            let in_range = |v: i128| v >= k.lo() && v <= k.hi();
            let typed = typed && in_range(a) && in_range(b);
            start = lit(a, typed);
            end = lit(b, typed);
            step = if down {
                Some(lit(-st, typed && k.signed()))
            } else if st == 1 && self.rng.chance(1, 2) {
                None
            } else {
                Some(lit(st, typed))
            };
        } else {
            // variable / expression bounds of exactly the control kind, guarded body
            let mut s = self.int_expr(k, 1);
            let mut e = self.int_expr(k, 1);
            if self.sab("for-bound-kind") {
                let other: Vec<IKind> = KINDS.iter().copied().filter(|k2| *k2 != k).collect();
                let k2 = *self.rng.pick(&other);
                let vars = self.int_vars(&[k2]);
                e = if vars.is_empty() { Expr::Lit(Some(k2), 3) } else { Expr::Var(vars[0].clone()) };
            }
            if self.sab("for-bool-bound") {
                s = Expr::BLit(true);
            }
            if let Expr::Var(n) = &s {
                restricted_add.push(n.clone());
            }
            if let Expr::Var(n) = &e {
                restricted_add.push(n.clone());
            }
            start = s;
            end = e;
            step = match self.rng.below(4) {
                0 => None,
                1 => Some(Expr::Lit(None, 1 + self.rng.below(3) as i128)),
                2 if k.signed() || self.profile == Profile::Wild => {
                    Some(Expr::Un(UnOp::Neg, Box::new(Expr::Lit(None, 1 + self.rng.below(3) as i128))))
                }
                _ => Some(self.int_expr(k, 0)),
            };
            guard = Some(self.new_guard());
        }
        let saved = self.restricted.clone();
        self.restricted.extend(restricted_add);
        let mut body = self.gen_block(depth - 1, true);
        self.restricted = saved;
        if let Some(g) = &guard {
            let limit = 2 + self.rng.below(8) as i128;
            self.guard_prefix(&mut body, g, limit, true);
            out.push(Stmt::Assign(g.clone(), Expr::Lit(None, 0)));
        }
        out.push(Stmt::For(x, start, end, step, body));
    }

    fn gen_while(&mut self, depth: u32, out: &mut Vec<Stmt>) {
        let g = self.new_guard();
        let limit = 2 + self.rng.below(8) as i128;
        let c = self.cond(1);
        let in_cond = self.rng.bool();
        let mut body = self.gen_block(depth - 1, true);
        let cond = if in_cond {
            Expr::Bin(
                BinOp::And,
                Box::new(c),
                Box::new(Expr::Bin(BinOp::Lt, Box::new(Expr::Var(g.clone())), Box::new(Expr::Lit(None, limit)))),
            )
        } else {
            c
        };
        self.guard_prefix(&mut body, &g, limit, !in_cond);
        out.push(Stmt::Assign(g.clone(), Expr::Lit(None, 0)));
        out.push(Stmt::While(cond, body));
    }

    fn gen_repeat(&mut self, depth: u32, out: &mut Vec<Stmt>) {
        let g = self.new_guard();
        let limit = 2 + self.rng.below(8) as i128;
        let c = self.cond(1);
        let mut body = self.gen_block(depth - 1, true);
        let cond = Expr::Bin(
            BinOp::Or,
            Box::new(c),
            Box::new(Expr::Bin(BinOp::Ge, Box::new(Expr::Var(g.clone())), Box::new(Expr::Lit(None, limit)))),
        );
        self.guard_prefix(&mut body, &g, limit, false);
        out.push(Stmt::Assign(g.clone(), Expr::Lit(None, 0)));
        out.push(Stmt::Repeat(body, cond));
    }

    /// Stage S4: a FUNCTION over the given kinds; may call the functions generated before it.
    fn gen_function(&mut self, idx: usize, kinds: &[IKind], earlier: &[FuncDef]) -> FuncDef {
        let name = format!("F{idx}");
        let pick_ty = |rng: &mut Rng| -> Ty {
            if rng.chance(1, 7) {
                Ty::Bool
            } else {
                Ty::Int(*rng.pick(kinds))
            }
        };
        let ret = pick_ty(self.rng);
        let mut params = Vec::new();
        let lit_for = |rng: &mut Rng, ty: Ty, profile: Profile| -> Expr {
            match ty {
                Ty::Bool => Expr::BLit(rng.bool()),
                Ty::Int(k) => {
                    let v = small(rng, k);
                    if profile == Profile::Strict || rng.chance(1, 3) {
                        Expr::Lit(Some(k), v)
                    } else if v < 0 {
                        Expr::Un(UnOp::Neg, Box::new(Expr::Lit(None, -v)))
                    } else {
                        Expr::Lit(None, v)
                    }
                }
            }
        };
        let nin = 1 + self.rng.below(3) as usize;
        for i in 0..nin {
            let ty = pick_ty(self.rng);
            let default = if self.rng.chance(1, 3) { Some(lit_for(self.rng, ty, self.profile)) } else { None };
            params.push(Param { name: format!("pa{i}"), ty, dir: Dir::In, default });
        }
        if self.rng.chance(1, 2) {
            params.push(Param { name: "po0".into(), ty: pick_ty(self.rng), dir: Dir::Out, default: None });
        }
        if self.rng.chance(2, 5) {
            params.push(Param { name: "pq0".into(), ty: pick_ty(self.rng), dir: Dir::InOut, default: None });
        }
        let mut locals: Vec<Local> = Vec::new();
        for i in 0..self.rng.below(3) as usize {
            let ty = pick_ty(self.rng);
            let init = match self.rng.below(6) {
                0 | 1 => None,
                2 | 3 => Some(lit_for(self.rng, ty, self.profile)),
                _ => {
                    // an initialiser that is an EXPRESSION over the parameters and the earlier
                    // locals: evaluated by `init_locals` at every call, in the new frame, and able
                    // to raise a value-dependent fault there (division by an input, overflow)
                    let mut scope: Vec<VarDecl> = Vec::new();
                    for p in &params {
                        scope.push(VarDecl { name: p.name.clone(), ty: p.ty, init: 0, typed_init: false, has_init: false });
                    }
                    for l in &locals {
                        scope.push(VarDecl { name: l.name.clone(), ty: l.ty, init: 0, typed_init: false, has_init: false });
                    }
                    let known = scope.len();
                    let profile = self.profile;
                    let mut sub = Gen::new(self.rng, profile, false);
                    sub.decls = scope;
                    let e = match ty {
                        Ty::Bool => sub.cond(1),
                        Ty::Int(k) => {
                            let vars = sub.int_vars(&[k]);
                            if vars.len() >= 1 && sub.rng.chance(1, 2) {
                                let n = sub.rng.pick(&vars).clone();
                                let d = sub.rng.pick(&vars).clone();
                                let op = if sub.rng.bool() { BinOp::Div } else { BinOp::Mod };
                                bin(op, bin(BinOp::Mul, v(&n), v(&n)), v(&d))
                            } else {
                                sub.int_expr(k, 1)
                            }
                        }
                    };
                    if sub.decls.len() == known { Some(e) } else { None }
                }
            };
            let init = if self.sab("local-init-undefined") {
                Some(v("nosuch"))
            } else if self.sab("local-init-family") {
                Some(match ty {
                    Ty::Bool => Expr::Lit(None, 1),
                    Ty::Int(_) => Expr::BLit(true),
                })
            } else {
                init
            };
            locals.push(Local { name: format!("lt{i}"), ty, init });
        }
        // body generated by a sub-generator whose scope is the function's own
        let mut decls: Vec<VarDecl> = Vec::new();
        let mut readonly = Vec::new();
        for p in &params {
            decls.push(VarDecl { name: p.name.clone(), ty: p.ty, init: 0, typed_init: false, has_init: false });
            if p.dir == Dir::In {
                readonly.push(p.name.clone());
            }
        }
        for l in &locals {
            decls.push(VarDecl { name: l.name.clone(), ty: l.ty, init: 0, typed_init: false, has_init: false });
        }
        let profile = self.profile;
        let known = decls.len();
        let (mut body, extra_locals) = {
            let mut sub = Gen::new(self.rng, profile, false);
            sub.decls = decls;
            sub.readonly = readonly;
            sub.funcs = earlier.to_vec();
            sub.func_ret = Some(ret);
            sub.stmt_budget = 3 + sub.rng.below(6) as i32;
            let mut body = Vec::new();
            let top = 1 + sub.rng.below(3);
            for _ in 0..top {
                sub.stmt_budget -= 1;
                sub.gen_stmt(2, false, &mut body);
            }
            if sub.rng.chance(1, 4) {
                // early exit with a value
                let c = sub.cond(1);
                let e = match ret {
                    Ty::Bool => sub.cond(1),
                    Ty::Int(k) => sub.int_expr(k, 1),
                };
                let at = sub.rng.below(body.len() as u64 + 1) as usize;
                body.insert(at, Stmt::If(c, vec![Stmt::ReturnVal(e)], Vec::new(), Vec::new()));
            }
            let fin = match ret {
                Ty::Bool => sub.cond(2),
                Ty::Int(k) => sub.int_expr(k, 2),
            };
            body.push(Stmt::Assign(name.clone(), fin));
            let extra: Vec<VarDecl> = sub.decls[known..].to_vec();
            (body, extra)
        };
        for d in extra_locals {
            locals.push(Local { name: d.name, ty: d.ty, init: None });
        }
        if self.sab("func-missing-return") {
            body.pop();
            if body.is_empty() {
                body.push(Stmt::Assign("lt0".into(), Expr::Lit(None, 0)));
            }
        }
        FuncDef { name, ret, params, locals, body }
    }

    /// Stage S5: a FUNCTION_BLOCK with state; its body may call the given functions.
    fn gen_fb(&mut self, idx: usize, kinds: &[IKind], funcs: &[FuncDef]) -> FbDef {
        let name = format!("FB{idx}");
        let pick_ty = |rng: &mut Rng| -> Ty {
            if rng.chance(1, 6) {
                Ty::Bool
            } else {
                Ty::Int(*rng.pick(kinds))
            }
        };
        let profile = self.profile;
        let lit_for = |rng: &mut Rng, ty: Ty| -> Expr {
            match ty {
                Ty::Bool => Expr::BLit(rng.bool()),
                Ty::Int(k) => {
                    let v = small(rng, k);
                    if profile == Profile::Strict || rng.chance(1, 3) {
                        Expr::Lit(Some(k), v)
                    } else if v < 0 {
                        Expr::Un(UnOp::Neg, Box::new(Expr::Lit(None, -v)))
                    } else {
                        Expr::Lit(None, v)
                    }
                }
            }
        };
        let mut params = Vec::new();
        for i in 0..1 + self.rng.below(3) as usize {
            let ty = pick_ty(self.rng);
            let default = if self.rng.chance(1, 3) { Some(lit_for(self.rng, ty)) } else { None };
            params.push(Param { name: format!("in{i}"), ty, dir: Dir::In, default });
        }
        for i in 0..1 + self.rng.below(2) as usize {
            params.push(Param { name: format!("out{i}"), ty: pick_ty(self.rng), dir: Dir::Out, default: None });
        }
        if self.rng.chance(1, 4) {
            params.push(Param { name: "io0".into(), ty: pick_ty(self.rng), dir: Dir::InOut, default: None });
        }
        let mut vars = Vec::new();
        for i in 0..self.rng.below(3) as usize {
            let ty = pick_ty(self.rng);
            let init = if self.rng.chance(1, 2) { Some(lit_for(self.rng, ty)) } else { None };
            vars.push(Local { name: format!("st{i}"), ty, init });
        }
        let mut decls: Vec<VarDecl> = Vec::new();
        let mut readonly = Vec::new();
        for p in &params {
            decls.push(VarDecl { name: p.name.clone(), ty: p.ty, init: 0, typed_init: false, has_init: false });
            if p.dir == Dir::In {
                readonly.push(p.name.clone());
            }
        }
        for l in &vars {
            decls.push(VarDecl { name: l.name.clone(), ty: l.ty, init: 0, typed_init: false, has_init: false });
        }
        let known = decls.len();
        let (body, extra) = {
            let mut sub = Gen::new(self.rng, profile, false);
            sub.decls = decls;
            sub.readonly = readonly;
            sub.funcs = funcs.to_vec();
            sub.stmt_budget = 3 + sub.rng.below(6) as i32;
            let mut body = Vec::new();
            let top = 2 + sub.rng.below(3);
            for _ in 0..top {
                sub.stmt_budget -= 1;
                sub.gen_stmt(2, false, &mut body);
            }
            let extra: Vec<VarDecl> = sub.decls[known..].to_vec();
            (body, extra)
        };
        for d in extra {
            vars.push(Local { name: d.name, ty: d.ty, init: None });
        }
        FbDef { name, params, vars, body }
    }

    /// Another spelling of an identifier the language compares case-insensitively (formal
    /// parameter names in calls, struct field names).
    fn vary_case(&mut self, name: &str) -> String {
        if self.rng.chance(1, 4) {
            name.to_ascii_uppercase()
        } else {
            name.to_string()
        }
    }

    fn index_vars(&self) -> Vec<String> {
        let strict = self.profile == Profile::Strict;
        self.int_vars(&KINDS)
            .into_iter()
            .filter(|n| !strict || self.kind_of(n) != Some(Ty::Int(IKind::ULInt)))
            .collect()
    }

    /// stage S3: an index expression for array `a` with bounds lo..hi.
    fn gen_index(&mut self, lo: i64, hi: i64) -> Expr {
        if self.sab("index-bool") {
            return Expr::BLit(true);
        }
        if self.sab("index-const-out-of-bounds") {
            return Expr::Lit(None, hi as i128 + 2);
        }
        match self.rng.below(10) {
            0..=4 => {
                let n = self.rng.range(lo, hi) as i128;
                lit(n)
            }
            5..=7 => {
                // an integer variable of any kind (value may be out of bounds: IndexOutOfBounds);
                // the guarded fragment excludes ULINT subscripts (`index_to_i64` casts with `as i64`)
                let vars = self.index_vars();
                if vars.is_empty() {
                    lit(lo as i128)
                } else {
                    Expr::Var(self.rng.pick(&vars).clone())
                }
            }
            _ => {
                let vars = self.index_vars();
                if vars.is_empty() {
                    lit(lo as i128)
                } else {
                    let x = self.rng.pick(&vars).clone();
                    let k = match self.kind_of(&x) {
                        Some(Ty::Int(k)) => k,
                        _ => IKind::DInt,
                    };
                    Expr::Bin(BinOp::Add, Box::new(Expr::Var(x)), Box::new(Expr::Lit(Some(k), 1)))
                }
            }
        }
    }

    /// stage S3: an element / field read of the wanted type.
    fn maybe_agg_read(&mut self, ty: Ty) -> Option<Expr> {
        if self.aggs.is_empty() || !self.rng.chance(1, 5) {
            return None;
        }
        let mut cands: Vec<Expr> = Vec::new();
        let aggs = self.aggs.clone();
        for (a, d) in &aggs {
            match d {
                AggDecl::Arr(lo, hi, t) if *t == ty => {
                    let i = self.gen_index(*lo, *hi);
                    cands.push(Expr::Idx(a.clone(), Box::new(i)));
                }
                AggDecl::Str(_, fields) => {
                    for (f, t) in fields {
                        if *t == ty {
                            cands.push(Expr::Fld(a.clone(), self.vary_case(f)));
                        }
                    }
                }
                _ => {}
            }
        }
        if cands.is_empty() {
            return None;
        }
        Some(self.rng.pick(&cands).clone())
    }

    /// stage S3: `a[i] := e;` or `s.f := e;`
    fn gen_agg_assign(&mut self) -> Option<Stmt> {
        if self.aggs.is_empty() {
            return None;
        }
        let (a, d) = self.rng.pick(&self.aggs).clone();
        match d {
            AggDecl::Arr(lo, hi, t) => {
                let i = self.gen_index(lo, hi);
                let e = self.rhs_for(t);
                Some(Stmt::AssignIdx(a, i, e))
            }
            AggDecl::Str(_, fields) => {
                let (f, t) = self.rng.pick(&fields).clone();
                let e = self.rhs_for(t);
                let f = if self.sab("field-unknown") { "nofield".to_string() } else { f };
                let f = self.vary_case(&f);
                Some(Stmt::AssignFld(a, f, e))
            }
        }
    }

    fn rhs_for(&mut self, t: Ty) -> Expr {
        match t {
            Ty::Bool => self.cond(1),
            Ty::Int(k) => {
                if self.profile != Profile::Strict && self.rng.chance(1, 4) {
                    Expr::Lit(None, self.rng.range(0, 90) as i128)
                } else {
                    self.int_expr(k, 1)
                }
            }
        }
    }

    /// Stage S3 program: arrays and structs in the PROGRAM.
    pub fn gen_program_s3(mut self) -> (Program, Option<&'static str>) {
        self.gen_decls();
        let kinds: Vec<IKind> = {
            let mut ks: Vec<IKind> = Vec::new();
            for d in &self.decls {
                if let Ty::Int(k) = d.ty {
                    if !ks.contains(&k) {
                        ks.push(k);
                    }
                }
            }
            if ks.is_empty() {
                ks.push(IKind::DInt);
            }
            ks
        };
        let mut aggs: Vec<(String, AggDecl)> = Vec::new();
        for i in 0..1 + self.rng.below(2) {
            let (lo, hi) = *self.rng.pick(&[(0i64, 4i64), (1, 3), (-2, 2), (0, 0), (5, 8)]);
            let t = if self.rng.chance(1, 6) { Ty::Bool } else { Ty::Int(*self.rng.pick(&kinds)) };
            aggs.push((format!("ar{i}"), AggDecl::Arr(lo, hi, t)));
        }
        if self.rng.chance(2, 3) {
            let mut fields = Vec::new();
            for j in 0..2 + self.rng.below(2) {
                let t = if self.rng.chance(1, 5) { Ty::Bool } else { Ty::Int(*self.rng.pick(&kinds)) };
                fields.push((format!("f{j}"), t));
            }
            for i in 0..1 + self.rng.below(2) {
                aggs.push((format!("sv{i}"), AggDecl::Str("Rec0".into(), fields.clone())));
            }
        }
        self.aggs = aggs.clone();
        self.stmt_budget = 6 + self.rng.below(12) as i32;
        let mut body = Vec::new();
        // the classic: fill an array in a FOR loop
        if let Some((a, AggDecl::Arr(lo, hi, t))) = aggs.first().cloned() {
            let ctl: Vec<String> = self.int_vars(&KINDS).into_iter().filter(|n| self.kind_of(n) != Some(Ty::Int(IKind::ULInt))).collect();
            if !ctl.is_empty() && self.rng.chance(2, 3) {
                let x = self.rng.pick(&ctl).clone();
                let k = match self.kind_of(&x) {
                    Some(Ty::Int(k)) => k,
                    _ => IKind::DInt,
                };
                if lo >= 0 || k.signed() {
                    let e = self.rhs_for(t);
                    let hi2 = if self.rng.chance(1, 6) { hi + 1 } else { hi }; // one past the end: IndexOutOfBounds
                    body.push(Stmt::For(x.clone(), lit(lo as i128), lit(hi2 as i128), None, vec![Stmt::AssignIdx(a, Expr::Var(x), e)]));
                }
            }
        }
        let top = 3 + self.rng.below(5);
        for _ in 0..top {
            self.stmt_budget -= 1;
            self.gen_stmt(3, false, &mut body);
        }
        let sabotaged = self.sabotaged;
        (Program { funcs: Vec::new(), fbs: Vec::new(), insts: Vec::new(), aggs, decls: self.decls, body }, sabotaged)
    }

    /// `instance.member` of the wanted type (an input or an output of one of the PROGRAM's instances).
    fn maybe_fld(&mut self, ty: Ty) -> Option<Expr> {
        if self.insts.is_empty() || !self.rng.chance(1, 6) {
            return None;
        }
        let mut cands = Vec::new();
        for (c, t) in &self.insts {
            if let Some(fb) = self.fbs.iter().find(|f| &f.name == t) {
                for p in &fb.params {
                    if p.ty == ty && p.dir != Dir::InOut {
                        cands.push((c.clone(), p.name.clone()));
                    }
                }
            }
        }
        if cands.is_empty() {
            return None;
        }
        let (c, f) = self.rng.pick(&cands).clone();
        if self.sab("fld-unknown-member") {
            return Some(Expr::Fld(c, "nomember".into()));
        }
        Some(Expr::Fld(c, f))
    }

    /// `instance(args);`
    fn gen_fb_call(&mut self) -> Option<Stmt> {
        if self.insts.is_empty() {
            return None;
        }
        let (c, t) = self.rng.pick(&self.insts).clone();
        let fb = self.fbs.iter().find(|f| f.name == t)?.clone();
        let mut named = self.rng.chance(4, 5);
        let mut used: Vec<String> = Vec::new();
        let mut plan: Vec<Option<Expr>> = Vec::new();
        for p in &fb.params {
            match p.dir {
                Dir::In => plan.push(None),
                Dir::Out => {
                    let v = self.bindable_var(p.ty, false, &used);
                    if let Some(v) = &v {
                        used.push(v.clone());
                    } else {
                        named = true;
                    }
                    plan.push(v.map(Expr::Var));
                }
                Dir::InOut => {
                    let v = self.bindable_var(p.ty, true, &used)?;
                    used.push(v.clone());
                    plan.push(Some(Expr::Var(v)));
                }
            }
        }
        let mut args: Vec<Arg> = Vec::new();
        for (p, planned) in fb.params.iter().zip(plan.into_iter()) {
            // identifiers are case-insensitive: a quarter of the formal names are spelled in capitals
            let pname = if named { Some(self.vary_case(&p.name)) } else { None };
            match p.dir {
                Dir::In => {
                    if named && self.rng.chance(1, 4) {
                        continue;
                    }
                    let e = self.arg_value(p.ty);
                    args.push(Arg { name: pname, arrow: false, e });
                }
                Dir::Out => {
                    let Some(e) = planned else { continue };
                    if named && self.rng.chance(1, 2) {
                        continue;
                    }
                    args.push(Arg { name: pname, arrow: named, e });
                }
                Dir::InOut => {
                    let Some(e) = planned else { continue };
                    args.push(Arg { name: pname, arrow: false, e });
                }
            }
        }
        if args.is_empty() && !self.rng.chance(1, 3) {
            // `inst();` (every input omitted) is a formal call since d406d2d; keep a third of them
            let p = fb.params.iter().find(|p| p.dir == Dir::In)?.clone();
            let e = self.arg_value(p.ty);
            args.push(Arg { name: Some(p.name), arrow: false, e });
        }
        let mut inst = c;
        if self.sab("fb-unknown-instance") {
            inst = "nofb".into();
        }
        Some(Stmt::FbCall(inst, args))
    }

    /// Stage S5 program: FUNCTION_BLOCKs with state, instances in the PROGRAM, optionally FUNCTIONs.
    pub fn gen_program_s5(mut self) -> (Program, Option<&'static str>) {
        self.gen_decls();
        let kinds: Vec<IKind> = {
            let mut ks: Vec<IKind> = Vec::new();
            for d in &self.decls {
                if let Ty::Int(k) = d.ty {
                    if !ks.contains(&k) {
                        ks.push(k);
                    }
                }
            }
            if ks.is_empty() {
                ks.push(IKind::DInt);
            }
            ks
        };
        let mut funcs: Vec<FuncDef> = Vec::new();
        if self.rng.chance(1, 3) {
            let f = self.gen_function(0, &kinds, &[]);
            funcs.push(f);
        }
        let nfb = 1 + self.rng.below(2) as usize;
        let mut fbs = Vec::new();
        for i in 0..nfb {
            let fb = self.gen_fb(i, &kinds, &funcs.clone());
            fbs.push(fb);
        }
        let mut insts = Vec::new();
        for (i, fb) in fbs.iter().enumerate() {
            for j in 0..1 + self.rng.below(2) {
                insts.push((format!("c{i}{j}"), fb.name.clone()));
            }
        }
        self.funcs = funcs.clone();
        self.fbs = fbs.clone();
        self.insts = insts.clone();
        self.stmt_budget = 5 + self.rng.below(10) as i32;
        let mut body = Vec::new();
        for _ in 0..insts.len() {
            if let Some(s) = self.gen_fb_call() {
                body.push(s);
            }
        }
        let top = 2 + self.rng.below(4);
        for _ in 0..top {
            self.stmt_budget -= 1;
            self.gen_stmt(3, false, &mut body);
        }
        let sabotaged = self.sabotaged;
        (Program { funcs, fbs, insts, aggs: Vec::new(), decls: self.decls, body }, sabotaged)
    }

    /// Stage S4 program: one to three FUNCTIONs and a PROGRAM body that calls them.
    pub fn gen_program_s4(mut self) -> (Program, Option<&'static str>) {
        self.gen_decls();
        let kinds: Vec<IKind> = {
            let mut ks: Vec<IKind> = Vec::new();
            for d in &self.decls {
                if let Ty::Int(k) = d.ty {
                    if !ks.contains(&k) {
                        ks.push(k);
                    }
                }
            }
            if ks.is_empty() {
                ks.push(IKind::DInt);
            }
            ks
        };
        let nf = 1 + self.rng.below(3) as usize;
        let mut funcs: Vec<FuncDef> = Vec::new();
        for i in 0..nf {
            let f = self.gen_function(i, &kinds, &funcs.clone());
            funcs.push(f);
        }
        self.funcs = funcs.clone();
        self.stmt_budget = 5 + self.rng.below(10) as i32;
        let mut body = Vec::new();
        // make sure every function is called at least once
        for fi in 0..funcs.len() {
            if let Some(c) = self.gen_call(fi) {
                let ret = funcs[fi].ret;
                if let Some(v) = self.bindable_var(ret, false, &[]) {
                    body.push(Stmt::Assign(v, c));
                } else {
                    body.push(Stmt::ExprStmt(c));
                }
            }
        }
        let top = 2 + self.rng.below(4);
        for _ in 0..top {
            self.stmt_budget -= 1;
            self.gen_stmt(3, false, &mut body);
        }
        let sabotaged = self.sabotaged;
        (Program { funcs, fbs: Vec::new(), insts: Vec::new(), aggs: Vec::new(), decls: self.decls, body }, sabotaged)
    }

    pub fn gen_program(mut self) -> (Program, Option<&'static str>) {
        self.gen_decls();
        self.stmt_budget = 6 + self.rng.below(14) as i32;
        let mut body = Vec::new();
        let top = 2 + self.rng.below(5);
        for _ in 0..top {
            self.stmt_budget -= 1;
            self.gen_stmt(3, false, &mut body);
        }
        let sabotaged = self.sabotaged;
        (Program { funcs: Vec::new(), fbs: Vec::new(), insts: Vec::new(), aggs: Vec::new(), decls: self.decls, body }, sabotaged)
    }
}

// ------------------------------------------------------------------------------------------
// Running the real code
// ------------------------------------------------------------------------------------------

pub fn show_value(v: &Value) -> String {
    match v {
        Value::Bool(b) => format!("Bool:{}", if *b { 1 } else { 0 }),
        Value::SInt(x) => format!("SInt:{x}"),
        Value::Int(x) => format!("Int:{x}"),
        Value::DInt(x) => format!("DInt:{x}"),
        Value::LInt(x) => format!("LInt:{x}"),
        Value::USInt(x) => format!("USInt:{x}"),
        Value::UInt(x) => format!("UInt:{x}"),
        Value::UDInt(x) => format!("UDInt:{x}"),
        Value::ULInt(x) => format!("ULInt:{x}"),
        other => {
            // anything else is outside the fragment: print the variant name only
            let s = format!("{other:?}");
            let head: String = s.chars().take_while(|c| c.is_alphanumeric()).collect();
            format!("Other{head}:0")
        }
    }
}

pub fn make_value(ty: Ty, v: i128) -> Value {
    match ty {
        Ty::Bool => Value::Bool(v != 0),
        Ty::Int(IKind::SInt) => Value::SInt(v as i8),
        Ty::Int(IKind::Int) => Value::Int(v as i16),
        Ty::Int(IKind::DInt) => Value::DInt(v as i32),
        Ty::Int(IKind::LInt) => Value::LInt(v as i64),
        Ty::Int(IKind::USInt) => Value::USInt(v as u8),
        Ty::Int(IKind::UInt) => Value::UInt(v as u16),
        Ty::Int(IKind::UDInt) => Value::UDInt(v as u32),
        Ty::Int(IKind::ULInt) => Value::ULInt(v as u64),
    }
}

fn error_name(e: &trust_runtime::error::RuntimeError) -> String {
    let s = format!("{e:?}");
    s.chars().take_while(|c| c.is_alphanumeric()).collect()
}

/// Dump of the single program instance: `frames=<n> name=Tag:value …` in storage order.
pub fn dump(h: &TestHarness) -> String {
    let storage = h.runtime().storage();
    let mut s = format!("frames={}", storage.frames().len());
    if let Some(Value::Instance(id)) = storage.get_global("P") {
        if let Some(inst) = storage.get_instance(*id) {
            let mut nested = Vec::new();
            let mut aggs = String::new();
            for (name, value) in inst.variables.iter() {
                match value {
                    Value::Instance(sub) => nested.push((name.clone(), *sub)),
                    // stage S3: elements as `a[i]`, fields as `s.f`, after the elementary variables
                    Value::Array(arr) if arr.dimensions.len() == 1 => {
                        let lo = arr.dimensions[0].0;
                        for (j, v) in arr.elements.iter().enumerate() {
                            let _ = write!(aggs, " {name}[{}]={}", lo + j as i64, show_value(v));
                        }
                    }
                    Value::Struct(sv) => {
                        for (f, v) in sv.fields.iter() {
                            let _ = write!(aggs, " {name}.{f}={}", show_value(v));
                        }
                    }
                    _ => {
                        let _ = write!(s, " {name}={}", show_value(value));
                    }
                }
            }
            s.push_str(&aggs);
            // stage S5: the variables of every FB instance held by the PROGRAM, as `inst.var`
            for (name, sub) in nested {
                if let Some(fb) = storage.get_instance(sub) {
                    for (vn, value) in fb.variables.iter() {
                        let _ = write!(s, " {name}.{vn}={}", show_value(value));
                    }
                }
            }
        }
    }
    s
}

pub struct Input {
    pub name: String,
    pub ty: Ty,
    pub v: i128,
}

pub enum CaseResult {
    Rejected(String),
    /// per cycle: (inputs applied before the cycle, impl answer)
    Ran(Vec<(Vec<Input>, String)>),
    CompilePanic,
}

/// Compile and run `cycles` scan cycles; `inputs[c]` are written before cycle `c`.
pub fn run_real(source: &str, inputs: Vec<Vec<Input>>) -> CaseResult {
    let compiled = std::panic::catch_unwind(|| TestHarness::from_source(source));
    let mut h = match compiled {
        Err(_) => return CaseResult::CompilePanic,
        Ok(Err(e)) => return CaseResult::Rejected(e.to_string()),
        Ok(Ok(h)) => h,
    };
    let mut out = Vec::new();
    for ins in inputs {
        let step = std::panic::catch_unwind(std::panic::AssertUnwindSafe(|| {
            for i in &ins {
                let id = match h.runtime().storage().get_global("P") {
                    Some(Value::Instance(id)) => *id,
                    _ => return "noinstance".to_string(),
                };
                h.runtime_mut().storage_mut().set_instance_var(id, i.name.as_str(), make_value(i.ty, i.v));
            }
            // safety net only (a generated loop is bounded by construction): never compared
            h.runtime_mut()
                .set_execution_deadline(Some(std::time::Instant::now() + std::time::Duration::from_secs(20)));
            let r = h.cycle();
            let outcome = match r.errors.first() {
                None => "ok".to_string(),
                Some(e) => error_name(e),
            };
            format!("{outcome} {}", dump(&h))
        }));
        match step {
            Ok(line) => out.push((ins, line)),
            Err(_) => {
                out.push((ins, "panic frames=0".to_string()));
                break;
            }
        }
    }
    CaseResult::Ran(out)
}

#[derive(Clone, Copy, PartialEq, Eq)]
pub enum Focus {
    C01,
    C02,
    C03,
}

fn pick_profile(rng: &mut Rng, focus: Focus) -> (Profile, bool) {
    let r = rng.below(100);
    match focus {
        Focus::C01 => match r {
            0..=24 => (Profile::Strict, false),
            25..=44 => (Profile::Natural, false),
            45..=69 => (Profile::Wild, false),
            70..=79 => (Profile::Strict, true),
            80..=89 => (Profile::Natural, true),
            _ => (Profile::Wild, true),
        },
        Focus::C02 => match r {
            0..=44 => (Profile::Strict, false),
            45..=89 => (Profile::Natural, false),
            90..=94 => (Profile::Wild, false),
            _ => (Profile::Natural, true),
        },
        Focus::C03 => match r {
            0..=39 => (Profile::Strict, false),
            40..=79 => (Profile::Natural, false),
            80..=89 => (Profile::Wild, false),
            _ => (Profile::Strict, true),
        },
    }
}

pub fn emit_case(out: &mut Out, n: u64, prog: &Program, tags: &str, inputs: Vec<Vec<Input>>) {
    let source = program_src(prog);
    out.line(format!("case {n}"));
    out.line(format!("tag {tags}"));
    for d in &prog.decls {
        out.line(format!(
            "decl {} {} {} {}",
            d.name,
            d.ty.name(),
            d.init,
            if d.typed_init { 1 } else { 0 }
        ));
    }
    for f in &prog.funcs {
        out.line(func_sx(f));
    }
    for f in &prog.fbs {
        out.line(fb_sx(f));
    }
    for (c, t) in &prog.insts {
        out.line(format!("inst {c} {t}"));
    }
    for (a, d) in &prog.aggs {
        match d {
            AggDecl::Arr(lo, hi, t) => out.line(format!("arr {a} {lo} {hi} {}", t.name())),
            AggDecl::Str(tn, fields) => {
                let fs: Vec<String> = fields.iter().map(|(f, t)| format!("( {f} {} )", t.name())).collect();
                out.line(format!("svar {a} {tn} ( {} )", fs.join(" ")));
            }
        }
    }
    out.line(format!("body {}", block_sx(&prog.body)));
    out.line(format!("src {}", hex(source.as_bytes())));
    out.line("check");
    match run_real(&source, inputs) {
        CaseResult::CompilePanic => {
            out.line("impl panic");
            out.count("compile-panic");
        }
        CaseResult::Rejected(msg) => {
            out.line("impl reject");
            out.line(format!("# {}", msg.replace('\n', " | ")));
            out.count("verdict-reject");
        }
        CaseResult::Ran(cycles) => {
            out.line("impl accept");
            out.count("verdict-accept");
            let mut any_ok = false;
            for (ins, line) in cycles {
                for i in &ins {
                    out.line(format!("set {} {}", i.name, show_value(&make_value(i.ty, i.v))));
                }
                out.line("cycle");
                out.line(format!("impl {line}"));
                let head = line.split(' ').next().unwrap_or("");
                out.count(&format!("outcome-{head}"));
                if head == "ok" {
                    any_ok = true;
                }
            }
            if any_ok {
                out.line("tag nontrivial");
            }
        }
    }
    out.line("end");
}

pub fn gen_inputs(rng: &mut Rng, prog: &Program, cycles: usize, rate: u64) -> Vec<Vec<Input>> {
    let mut all = Vec::new();
    for c in 0..cycles {
        let mut ins = Vec::new();
        if c > 0 {
            for d in &prog.decls {
                if d.name.starts_with('g') {
                    continue;
                }
                if rng.chance(rate, 100) {
                    let v = match d.ty {
                        Ty::Bool => rng.below(2) as i128,
                        Ty::Int(k) => {
                            let lo = k.lo();
                            let hi = k.hi();
                            match rng.below(3) {
                                0 => *rng.pick(&[lo, lo + 1, hi - 1, hi, 0, 1]),
                                _ => any_value(rng, k),
                            }
                        }
                    };
                    ins.push(Input { name: d.name.clone(), ty: d.ty, v });
                }
            }
        }
        all.push(ins);
    }
    all
}

// ------------------------------------------------------------------------------------------
// Witnesses of the recorded findings (replayed on every run; known_findings.json)
// ------------------------------------------------------------------------------------------

fn v(x: &str) -> Expr {
    Expr::Var(x.into())
}
fn lit(n: i128) -> Expr {
    if n < 0 {
        Expr::Un(UnOp::Neg, Box::new(Expr::Lit(None, -n)))
    } else {
        Expr::Lit(None, n)
    }
}
fn tl(k: IKind, n: i128) -> Expr {
    Expr::Lit(Some(k), n)
}
fn bin(op: BinOp, l: Expr, r: Expr) -> Expr {
    Expr::Bin(op, Box::new(l), Box::new(r))
}
fn neg(e: Expr) -> Expr {
    Expr::Un(UnOp::Neg, Box::new(e))
}
fn asg(x: &str, e: Expr) -> Stmt {
    Stmt::Assign(x.into(), e)
}
fn decl(name: &str, ty: Ty, init: i128) -> VarDecl {
    VarDecl { name: name.into(), ty, init, typed_init: init.abs() > i32::MAX as i128, has_init: true }
}

pub const WITNESS_BASE: u64 = 1_000_000;

/// (id, program) — every witness stays inside the model's grammar, so it also goes through the
/// correspondence diff and the Lean oracle, which computes its signature.
pub fn witnesses() -> Vec<(&'static str, Program)> {
    use IKind::*;
    let int = |k| Ty::Int(k);
    vec![
        (
            "drift-int-literal",
            Program {
                funcs: Vec::new(), fbs: Vec::new(), insts: Vec::new(), aggs: Vec::new(),
                decls: vec![decl("c", int(Int), 32766)],
                body: vec![asg("c", bin(BinOp::Add, v("c"), lit(1)))],
            },
        ),
        (
            "mixed-sign-compare",
            Program {
                funcs: Vec::new(), fbs: Vec::new(), insts: Vec::new(), aggs: Vec::new(),
                decls: vec![decl("i", int(Int), -1), decl("u", int(UInt), 3), decl("b", Ty::Bool, 0)],
                body: vec![asg("b", bin(BinOp::Lt, v("i"), v("u")))],
            },
        ),
        (
            "mixed-sign-arith",
            Program {
                funcs: Vec::new(), fbs: Vec::new(), insts: Vec::new(), aggs: Vec::new(),
                decls: vec![decl("u", int(UInt), 3)],
                body: vec![asg("u", bin(BinOp::Add, v("u"), lit(-1)))],
            },
        ),
        (
            "neg-unsigned",
            Program {
                funcs: Vec::new(), fbs: Vec::new(), insts: Vec::new(), aggs: Vec::new(),
                decls: vec![decl("u", int(UInt), 3), decl("w", int(UInt), 0)],
                body: vec![asg("w", neg(v("u")))],
            },
        ),
        (
            "return-in-program",
            Program {
                funcs: Vec::new(), fbs: Vec::new(), insts: Vec::new(), aggs: Vec::new(),
                decls: vec![decl("x", int(DInt), 0)],
                body: vec![asg("x", lit(1)), Stmt::Return, asg("x", lit(2))],
            },
        ),
        (
            "pow-negative-exponent",
            Program {
                funcs: Vec::new(), fbs: Vec::new(), insts: Vec::new(), aggs: Vec::new(),
                decls: vec![decl("x", int(DInt), 2), decl("y", int(DInt), -1)],
                body: vec![asg("x", bin(BinOp::Pow, v("x"), v("y")))],
            },
        ),
        (
            "for-unsigned-negative-step",
            Program {
                funcs: Vec::new(), fbs: Vec::new(), insts: Vec::new(), aggs: Vec::new(),
                decls: vec![decl("u", int(UInt), 0), decl("n", int(DInt), 0)],
                body: vec![Stmt::For(
                    "u".into(),
                    lit(3),
                    lit(0),
                    Some(lit(-1)),
                    vec![asg("n", bin(BinOp::Add, v("n"), lit(1)))],
                )],
            },
        ),
        (
            "for-undeclared-control",
            Program {
                funcs: Vec::new(), fbs: Vec::new(), insts: Vec::new(), aggs: Vec::new(),
                decls: vec![decl("n", int(DInt), 0)],
                body: vec![Stmt::For(
                    "zz".into(),
                    lit(1),
                    lit(3),
                    None,
                    vec![asg("n", bin(BinOp::Add, v("n"), lit(1)))],
                )],
            },
        ),
        (
            "case-else-unchecked-store",
            Program {
                funcs: Vec::new(), fbs: Vec::new(), insts: Vec::new(), aggs: Vec::new(),
                decls: vec![decl("d", int(DInt), 0)],
                body: vec![Stmt::Case(
                    v("d"),
                    vec![(vec![Label::Single(LabLit { ty: None, v: 1 })], vec![asg("d", lit(2))])],
                    vec![asg("d", Expr::BLit(true))],
                )],
            },
        ),
        (
            "case-else-unchecked-condition",
            Program {
                funcs: Vec::new(), fbs: Vec::new(), insts: Vec::new(), aggs: Vec::new(),
                decls: vec![decl("d", int(DInt), 0)],
                body: vec![Stmt::Case(
                    v("d"),
                    vec![(vec![Label::Single(LabLit { ty: None, v: 1 })], vec![asg("d", lit(2))])],
                    vec![Stmt::If(v("d"), vec![asg("d", lit(3))], vec![], vec![])],
                )],
            },
        ),
        (
            "for-ulint-cast",
            Program {
                funcs: Vec::new(), fbs: Vec::new(), insts: Vec::new(), aggs: Vec::new(),
                decls: vec![decl("a", int(ULInt), i64::MAX as i128), decl("i", int(ULInt), 0), decl("n", int(DInt), 0)],
                body: vec![
                    asg("a", bin(BinOp::Add, v("a"), tl(ULInt, 10))),
                    Stmt::For(
                        "i".into(),
                        v("a"),
                        bin(BinOp::Add, v("a"), tl(ULInt, 2)),
                        None,
                        vec![asg("n", bin(BinOp::Add, v("n"), lit(1)))],
                    ),
                ],
            },
        ),
        (
            // `u` = 2^64 - 2 is cast to the index -2, which lies inside the bounds -2..2
            "index-ulint-cast",
            Program {
                funcs: Vec::new(), fbs: Vec::new(), insts: Vec::new(),
                aggs: vec![("ar".to_string(), AggDecl::Arr(-2, 2, int(DInt)))],
                decls: vec![decl("u", int(ULInt), i64::MAX as i128), decl("x", int(DInt), 0)],
                body: vec![
                    asg("u", bin(BinOp::Mul, v("u"), tl(ULInt, 2))),
                    Stmt::AssignIdx("ar".into(), v("u"), tl(DInt, 7)),
                    asg("x", Expr::Idx("ar".into(), Box::new(v("u")))),
                ],
            },
        ),
        (
            // the initialiser of a FUNCTION local is never checked: an undefined name ...
            "local-init-undefined",
            Program {
                fbs: Vec::new(), insts: Vec::new(), aggs: Vec::new(),
                funcs: vec![FuncDef {
                    name: "F0".into(),
                    ret: int(DInt),
                    params: vec![Param { name: "pa0".into(), ty: int(DInt), dir: Dir::In, default: None }],
                    locals: vec![Local { name: "lt0".into(), ty: int(DInt), init: Some(v("nosuch")) }],
                    body: vec![asg("F0", v("pa0"))],
                }],
                decls: vec![decl("d", int(DInt), 0)],
                body: vec![asg("d", Expr::Call("F0".into(), vec![Arg { name: Some("pa0".into()), arrow: false, e: lit(1) }]))],
            },
        ),
        (
            // ... or a BOOL in an INT local, which then travels through the result into `d : INT`
            "local-init-family",
            Program {
                fbs: Vec::new(), insts: Vec::new(), aggs: Vec::new(),
                funcs: vec![FuncDef {
                    name: "F0".into(),
                    ret: int(Int),
                    params: vec![Param { name: "pa0".into(), ty: int(Int), dir: Dir::In, default: None }],
                    locals: vec![Local { name: "lt0".into(), ty: int(Int), init: Some(Expr::BLit(true)) }],
                    body: vec![asg("F0", v("lt0"))],
                }],
                decls: vec![decl("d", int(Int), 0)],
                body: vec![asg("d", Expr::Call("F0".into(), vec![Arg { name: Some("pa0".into()), arrow: false, e: tl(Int, 1) }]))],
            },
        ),
        (
            "drift-widening-assignment",
            Program {
                funcs: Vec::new(), fbs: Vec::new(), insts: Vec::new(), aggs: Vec::new(),
                decls: vec![decl("d", int(DInt), 0), decl("s", int(SInt), 3)],
                body: vec![asg("d", v("s"))],
            },
        ),
        (
            "call-empty-args",
            Program {
                fbs: Vec::new(),
                insts: Vec::new(),
                aggs: Vec::new(),
                funcs: vec![FuncDef {
                    name: "F0".into(),
                    ret: int(DInt),
                    params: vec![Param { name: "pa0".into(), ty: int(DInt), dir: Dir::In, default: Some(lit(5)) }],
                    locals: vec![],
                    body: vec![asg("F0", v("pa0"))],
                }],
                decls: vec![decl("d", int(DInt), 0)],
                body: vec![asg("d", Expr::Call("F0".into(), vec![]))],
            },
        ),
        (
            "drift-output-writeback",
            Program {
                fbs: Vec::new(),
                insts: Vec::new(),
                aggs: Vec::new(),
                funcs: vec![FuncDef {
                    name: "F0".into(),
                    ret: int(DInt),
                    params: vec![
                        Param { name: "pa0".into(), ty: int(DInt), dir: Dir::In, default: None },
                        Param { name: "po0".into(), ty: int(DInt), dir: Dir::Out, default: None },
                    ],
                    locals: vec![],
                    body: vec![asg("po0", v("pa0")), asg("F0", v("pa0"))],
                }],
                decls: vec![decl("d", int(DInt), 0), decl("l", int(LInt), 0)],
                body: vec![asg(
                    "d",
                    Expr::Call(
                        "F0".into(),
                        vec![
                            Arg { name: Some("pa0".into()), arrow: false, e: tl(DInt, 7) },
                            Arg { name: Some("po0".into()), arrow: true, e: v("l") },
                        ],
                    ),
                )],
            },
        ),
        (
            "drift-literal-out-of-range",
            Program {
                funcs: Vec::new(), fbs: Vec::new(), insts: Vec::new(), aggs: Vec::new(),
                decls: vec![decl("s", int(SInt), 0), decl("u", int(UInt), 0)],
                body: vec![asg("s", lit(1000)), asg("u", lit(-5))],
            },
        ),
    ]
}

/// Findings outside the model's grammar: (id, source, what is observed).
pub fn raw_witnesses() -> Vec<(&'static str, &'static str)> {
    vec![
        (
            "unary-plus-untyped",
            "PROGRAM P\nVAR\n  b : BOOL; x : DINT;\nEND_VAR\nb := +1;\nIF b THEN x := 1; END_IF;\nEND_PROGRAM\n",
        ),
        (
            "ampersand-untyped",
            "PROGRAM P\nVAR\n  x : DINT;\nEND_VAR\nx := 1 & 2;\nEND_PROGRAM\n",
        ),
        (
            "power-right-associative",
            "PROGRAM P\nVAR\n  x : DINT;\nEND_VAR\nx := 2 ** 3 ** 2;\nEND_PROGRAM\n",
        ),
        (
            "named-argument-case",
            "FUNCTION K : INT\nVAR_INPUT\n  n : INT;\nEND_VAR\nK := n;\nEND_FUNCTION\n\nPROGRAM P\nVAR\n  r1 : INT; r2 : INT;\nEND_VAR\nr1 := K(n := INT#4);\nr2 := K(N := INT#4);\nEND_PROGRAM\n",
        ),
        (
            "mixed-positional-formal-call",
            "FUNCTION K : INT\nVAR_INPUT\n  a : INT; b : INT;\nEND_VAR\nK := a * INT#10 + b;\nEND_FUNCTION\n\nPROGRAM P\nVAR\n  r : INT;\nEND_VAR\nr := K(INT#1, b := INT#2);\nEND_PROGRAM\n",
        ),
        (
            "fb-omitted-input-reset",
            "FUNCTION_BLOCK Acc\nVAR_INPUT\n  x : INT := 5;\nEND_VAR\nVAR_OUTPUT\n  o : INT;\nEND_VAR\no := x;\nEND_FUNCTION_BLOCK\n\nPROGRAM P\nVAR\n  a : Acc; r1 : INT; r2 : INT;\nEND_VAR\na(x := INT#200, o => r1);\na(o => r2);\nEND_PROGRAM\n",
        ),
        (
            "fb-input-default-not-applied",
            "FUNCTION_BLOCK Acc\nVAR_INPUT\n  x : INT := 5;\nEND_VAR\nVAR_OUTPUT\n  o : INT;\nEND_VAR\no := x;\nEND_FUNCTION_BLOCK\n\nPROGRAM P\nVAR\n  a : Acc; r0 : INT := INT#-1;\nEND_VAR\nIF r0 = INT#-1 THEN\n  r0 := a.x;\nEND_IF;\nEND_PROGRAM\n",
        ),
        (
            "fb-call-without-arguments",
            "FUNCTION_BLOCK Acc\nVAR_INPUT\n  x : INT := 5;\nEND_VAR\nVAR_OUTPUT\n  o : INT;\nEND_VAR\no := x;\nEND_FUNCTION_BLOCK\n\nPROGRAM P\nVAR\n  a : Acc; r : INT;\nEND_VAR\na();\nr := a.o;\nEND_PROGRAM\n",
        ),
        (
            "struct-field-initialiser-ignored",
            "TYPE Pt : STRUCT x : INT; y : DINT := 5; END_STRUCT END_TYPE\nPROGRAM P\nVAR\n  p : Pt; d : DINT := DINT#-1;\nEND_VAR\nd := p.y;\nEND_PROGRAM\n",
        ),
        (
            "struct-field-case",
            "TYPE Pt : STRUCT x : INT; y : DINT; END_STRUCT END_TYPE\nPROGRAM P\nVAR\n  p : Pt; v : INT;\nEND_VAR\nv := p.X;\nEND_PROGRAM\n",
        ),
        (
            "temp-initialiser-undefined",
            "PROGRAM P\nVAR\n  x : INT;\nEND_VAR\nVAR_TEMP\n  t : INT := nosuch;\nEND_VAR\nx := t;\nEND_PROGRAM\n",
        ),
        (
            "temp-initialiser-family",
            "PROGRAM P\nVAR\n  x : INT; y : BOOL;\nEND_VAR\nVAR_TEMP\n  t : INT := TRUE; u : BOOL := 3;\nEND_VAR\nx := t;\ny := u;\nEND_PROGRAM\n",
        ),
        (
            // the run-time resolves every variable name with the source spelling
            "variable-name-case",
            "PROGRAM P\nVAR\n  r : INT; Xy : INT;\nEND_VAR\nXY := INT#3;\nr := xy;\nEND_PROGRAM\n",
        ),
        (
            "return-variable-case",
            "FUNCTION Kf : INT\nVAR_INPUT\n  n : INT;\nEND_VAR\nKF := n;\nEND_FUNCTION\n\nPROGRAM P\nVAR\n  r : INT;\nEND_VAR\nr := Kf(INT#4);\nEND_PROGRAM\n",
        ),
    ]
}

/// Findings that abort the process: replayed in a child process (`vharness c00probe`).
pub fn child_witnesses() -> Vec<(&'static str, &'static str)> {
    vec![(
        "recursion-stack-overflow",
        "FUNCTION F : DINT\nVAR_INPUT\n  n : DINT;\nEND_VAR\nIF n <= 0 THEN\n  F := 0;\nELSE\n  F := 1 + F(n - 1);\nEND_IF;\nEND_FUNCTION\n\nPROGRAM P\nVAR\n  r : DINT;\nEND_VAR\nr := F(1000000);\nEND_PROGRAM\n",
    )]
}

fn emit_child(out: &mut Out, n: u64, id: &str, source: &str) {
    out.line(format!("case {n}"));
    out.line(format!("tag witness raw-{id}"));
    out.line(format!("src {}", hex(source.as_bytes())));
    let path = std::env::temp_dir().join(format!("vharness_c01_child_{}_{n}.st", std::process::id()));
    let obs = match std::fs::write(&path, source) {
        Err(e) => format!("cannot-write {e}"),
        Ok(()) => {
            let exe = std::env::current_exe().expect("current exe");
            let res = std::process::Command::new(exe)
                .args(["c00probe", "--src", path.to_str().unwrap_or(""), "--cycles", "1"])
                .output();
            let _ = std::fs::remove_file(&path);
            match res {
                Err(e) => format!("cannot-spawn {e}"),
                Ok(o) => {
                    use std::os::unix::process::ExitStatusExt;
                    let first = String::from_utf8_lossy(&o.stdout).lines().next().unwrap_or("").to_string();
                    match (o.status.code(), o.status.signal()) {
                        (_, Some(sig)) => format!("child-killed signal={sig}"),
                        (Some(code), None) => format!("child-exit code={code} {first}"),
                        _ => "child-unknown".to_string(),
                    }
                }
            }
        }
    };
    out.line(format!("# rawobs {id} {obs}"));
    out.line("end");
}

pub const MATRIX_BASE: u64 = 2_000_000;

/// Exhaustive tables over the nine types of the fragment (BOOL + 8 integer kinds): assignability,
/// operand acceptance of one operator per class, unary operators, FOR control/bound kinds, CASE
/// selector/label kinds.  Tiny programs, one cycle each; they pin the checker's tables
/// (`is_assignable`, `wider_numeric`, `check_comparable`, …) and the dispatch on dynamic tags.
pub fn matrix_programs() -> Vec<(String, Program)> {
    let mut types = vec![Ty::Bool];
    types.extend(KINDS.iter().map(|k| Ty::Int(*k)));
    let init = |t: Ty, alt: bool| -> i128 {
        match t {
            Ty::Bool => 1,
            Ty::Int(k) => {
                if k.signed() {
                    if alt { 2 } else { -3 }
                } else if alt { 4 } else { 5 }
            }
        }
    };
    let mk = |name: &str, t: Ty, alt: bool| VarDecl { name: name.into(), ty: t, init: init(t, alt), typed_init: false, has_init: true };
    let mut out = Vec::new();
    for &t1 in &types {
        for &t2 in &types {
            out.push((
                format!("assign-{}-{}", t1.name(), t2.name()),
                Program { funcs: Vec::new(), fbs: Vec::new(), insts: Vec::new(), aggs: Vec::new(), decls: vec![mk("x", t1, true), mk("y", t2, false)], body: vec![asg("x", v("y"))] },
            ));
        }
    }
    for (opname, op) in [("add", BinOp::Add), ("lt", BinOp::Lt), ("eq", BinOp::Eq), ("and", BinOp::And), ("mul", BinOp::Mul)] {
        for &t1 in &types {
            for &t2 in &types {
                let target = match (op, t1, t2) {
                    (BinOp::Add | BinOp::Mul, Ty::Int(a), Ty::Int(b)) => Ty::Int(if a.rank() >= b.rank() { a } else { b }),
                    (BinOp::Add | BinOp::Mul, _, _) => Ty::Int(IKind::DInt),
                    _ => Ty::Bool,
                };
                out.push((
                    format!("bin-{opname}-{}-{}", t1.name(), t2.name()),
                    Program {
                        funcs: Vec::new(), fbs: Vec::new(), insts: Vec::new(), aggs: Vec::new(),
                        decls: vec![mk("l", t1, false), mk("r", t2, true), mk("z", target, true)],
                        body: vec![asg("z", bin(op, v("l"), v("r")))],
                    },
                ));
            }
        }
    }
    for &t1 in &types {
        out.push((
            format!("neg-{}", t1.name()),
            Program { funcs: Vec::new(), fbs: Vec::new(), insts: Vec::new(), aggs: Vec::new(), decls: vec![mk("l", t1, true), mk("z", t1, true)], body: vec![asg("z", neg(v("l")))] },
        ));
        out.push((
            format!("not-{}", t1.name()),
            Program {
                funcs: Vec::new(), fbs: Vec::new(), insts: Vec::new(), aggs: Vec::new(),
                decls: vec![mk("l", t1, true), mk("z", Ty::Bool, true)],
                body: vec![asg("z", Expr::Un(UnOp::Not, Box::new(v("l"))))],
            },
        ));
    }
    for &t1 in &types {
        for &t2 in &types {
            out.push((
                format!("for-{}-{}", t1.name(), t2.name()),
                Program {
                    funcs: Vec::new(), fbs: Vec::new(), insts: Vec::new(), aggs: Vec::new(),
                    decls: vec![
                        mk("c", t1, true),
                        VarDecl { name: "lo".into(), ty: t2, init: 1, typed_init: false, has_init: true },
                        VarDecl { name: "hi".into(), ty: t2, init: if t2 == Ty::Bool { 1 } else { 3 }, typed_init: false, has_init: true },
                        mk("n", Ty::Int(IKind::DInt), true),
                    ],
                    body: vec![Stmt::For(
                        "c".into(),
                        v("lo"),
                        v("hi"),
                        None,
                        vec![asg("n", bin(BinOp::Add, v("n"), lit(1)))],
                    )],
                },
            ));
        }
    }
    for &t1 in &types {
        for &k2 in &KINDS {
            out.push((
                format!("case-{}-{}", t1.name(), k2.name()),
                Program {
                    funcs: Vec::new(), fbs: Vec::new(), insts: Vec::new(), aggs: Vec::new(),
                    decls: vec![mk("s", t1, true), mk("n", Ty::Int(IKind::DInt), true)],
                    body: vec![Stmt::Case(
                        v("s"),
                        vec![
                            (vec![Label::Single(LabLit { ty: Some(k2), v: 2 })], vec![asg("n", lit(10))]),
                            (vec![Label::Range(LabLit { ty: Some(k2), v: 3 }, LabLit { ty: Some(k2), v: 5 })], vec![asg("n", lit(20))]),
                        ],
                        vec![asg("n", lit(30))],
                    )],
                },
            ));
        }
    }
    out.extend(boundary_programs());
    out.extend(loop_control_programs());
    out.extend(for_extreme_programs());
    out.extend(short_circuit_programs());
    out.extend(precedence_programs());
    out.extend(defect_position_programs());
    out
}

fn plain(decls: Vec<VarDecl>, body: Vec<Stmt>) -> Program {
    Program { funcs: Vec::new(), fbs: Vec::new(), insts: Vec::new(), aggs: Vec::new(), decls, body }
}

fn tdecl(name: &str, ty: Ty, init: i128) -> VarDecl {
    VarDecl { name: name.into(), ty, init, typed_init: true, has_init: true }
}

/// A variable of kind `k` that holds `val` when the statements have run.  The extremes are
/// COMPUTED (`lo = (lo+1) - 1`, `hi = (hi-1) + 1`, ULINT above `i64::MAX` by doubling): the literal
/// parser cannot even write `LINT` minimum or a ULINT above `i64::MAX`.
fn computed(name: &str, k: IKind, val: i128) -> (VarDecl, Vec<Stmt>) {
    let (lo, hi) = (k.lo(), k.hi());
    let one = || tl(k, 1);
    if k == IKind::ULInt && val > i64::MAX as i128 {
        let mut e = bin(BinOp::Mul, v(name), tl(k, 2));
        if val == hi {
            e = bin(BinOp::Add, e, one());
        }
        assert!(val == hi || val == hi - 1);
        (tdecl(name, Ty::Int(k), i64::MAX as i128), vec![asg(name, e)])
    } else if val == lo && k.signed() {
        (tdecl(name, Ty::Int(k), lo + 1), vec![asg(name, bin(BinOp::Sub, v(name), one()))])
    } else if val == hi {
        (tdecl(name, Ty::Int(k), hi - 1), vec![asg(name, bin(BinOp::Add, v(name), one()))])
    } else {
        (tdecl(name, Ty::Int(k), val), Vec::new())
    }
}

/// Boundary stream: every arithmetic operator of every integer kind on operand pairs drawn from
/// the extremes of the kind (minimum, maximum, their neighbours, -1, 0, 1), the extremes being
/// computed at run time.  Exact kinds and typed literals only: the programs are inside `Strict`,
/// so the reference decides value and fault of every one of them.
pub fn boundary_programs() -> Vec<(String, Program)> {
    let mut out = Vec::new();
    for &k in &KINDS {
        let (lo, hi) = (k.lo(), k.hi());
        let (lefts, rights): (Vec<i128>, Vec<i128>) = if k.signed() {
            (vec![lo, lo + 1, -1, 0, 1, hi - 1, hi], vec![lo, -1, 0, 1, 2, hi])
        } else {
            (vec![0, 1, hi - 1, hi], vec![0, 1, 2, hi])
        };
        for (opname, op) in [("add", BinOp::Add), ("sub", BinOp::Sub), ("mul", BinOp::Mul), ("div", BinOp::Div), ("mod", BinOp::Mod)] {
            for &a in &lefts {
                for &b in &rights {
                    let (da, mut body) = computed("a", k, a);
                    let (db, sb) = computed("b", k, b);
                    body.extend(sb);
                    body.push(asg("r", bin(op, v("a"), v("b"))));
                    out.push((
                        format!("bnd-{opname}-{}-{a}-{b}", k.name()),
                        plain(vec![da, db, tdecl("r", Ty::Int(k), 0)], body),
                    ));
                }
            }
        }
        // `**` (outside the reference: C01 only) and unary minus at the extremes
        for &a in &[lo, -1, 2, hi] {
            if a < 0 && !k.signed() {
                continue;
            }
            for &b in &[0i128, 1, 2, 7, 31, 63, 64] {
                let (da, mut body) = computed("a", k, a);
                body.push(asg("r", bin(BinOp::Pow, v("a"), tl(k, b))));
                out.push((format!("bnd-pow-{}-{a}-{b}", k.name()), plain(vec![da, tdecl("r", Ty::Int(k), 0)], body)));
            }
        }
        if k.signed() {
            for &a in &[lo, lo + 1, -1, 0, hi] {
                let (da, mut body) = computed("a", k, a);
                body.push(asg("r", neg(v("a"))));
                out.push((format!("bnd-neg-{}-{a}", k.name()), plain(vec![da, tdecl("r", Ty::Int(k), 0)], body)));
            }
        }
    }
    out
}

/// FOR at the extremes of the control variable's kind: the bound sits on (or one below / above)
/// the kind's maximum or minimum, so that the terminating increment leaves the kind — for the
/// 64-bit kinds it leaves `i64` itself (`checked_add` in `Stmt::For`).  The extremes are computed
/// at run time (see `computed`), bounds and control variable have exactly the same kind.
pub fn for_extreme_programs() -> Vec<(String, Program)> {
    let mut out = Vec::new();
    let n = || VarDecl { name: "n".into(), ty: Ty::Int(IKind::DInt), init: 0, typed_init: false, has_init: true };
    let inc_n = || asg("n", bin(BinOp::Add, v("n"), lit(1)));
    for &k in &KINDS {
        let (lo, hi) = (k.lo(), k.hi());
        let mut shapes: Vec<(String, i128, i128, Option<i128>)> = Vec::new();
        if k == IKind::ULInt {
            // `computed` reaches hi and hi-1 only above i64::MAX; below it everything is writable
            shapes.push(("top".into(), hi - 1, hi, None));
            shapes.push(("top-by2".into(), hi - 1, hi, Some(2)));
            let m = i64::MAX as i128;
            shapes.push(("i64max".into(), m - 2, m, None));
            shapes.push(("i64max-by3".into(), m - 2, m, Some(3)));
            shapes.push(("below-i64max".into(), m - 3, m - 1, Some(2)));
        } else {
            for st in [1i128, 2, 3] {
                shapes.push((format!("top-by{st}"), hi - 2, hi, if st == 1 { None } else { Some(st) }));
                shapes.push((format!("below-top-by{st}"), hi - 3, hi - 1, Some(st)));
            }
            shapes.push(("top-single".into(), hi, hi, None));
            if k.signed() {
                for st in [1i128, 2, 3] {
                    shapes.push((format!("bottom-by{st}"), lo + 2, lo, Some(-st)));
                    shapes.push((format!("above-bottom-by{st}"), lo + 4, lo + 1, Some(-st)));
                }
                shapes.push(("bottom-single".into(), lo, lo, Some(-1)));
                shapes.push(("full-range-by-huge".into(), lo + 1, hi, Some(hi)));
            } else {
                shapes.push(("zero-down".into(), 0, 0, None));
            }
        }
        for (name, a, b, st) in shapes {
            let (da, mut body) = computed("a", k, a);
            let (db, sb) = computed("b", k, b);
            body.extend(sb);
            let step = st.map(|s| {
                if s < 0 {
                    Expr::Un(UnOp::Neg, Box::new(tl(k, -s)))
                } else {
                    tl(k, s)
                }
            });
            body.push(Stmt::For("x".into(), v("a"), v("b"), step, vec![inc_n()]));
            body.push(asg("n", bin(BinOp::Add, v("n"), lit(100))));
            out.push((format!("forx-{}-{name}", k.name()), plain(vec![tdecl("x", Ty::Int(k), 0), da, db, n()], body)));
        }
    }
    out
}

/// Loop-control stream: CONTINUE / EXIT in FOR, WHILE and REPEAT at every position of the body
/// (first, middle, last statement), triggered on the first, a middle, the LAST or no pass; plus
/// nested loops where the inner EXIT / CONTINUE must not touch the outer loop.
pub fn loop_control_programs() -> Vec<(String, Program)> {
    let d = |n: &str| VarDecl { name: n.into(), ty: Ty::Int(IKind::DInt), init: 0, typed_init: false, has_init: true };
    let inc = |x: &str| asg(x, bin(BinOp::Add, v(x), lit(1)));
    let mut out = Vec::new();
    let passes: i128 = 3;
    let wrap = |kind: &str, body: Vec<Stmt>, w: &str| -> Stmt {
        match kind {
            "for" => Stmt::For(format!("i{w}"), lit(1), lit(passes), None, body),
            "while" => Stmt::While(bin(BinOp::Lt, v(w), lit(passes)), body),
            _ => Stmt::Repeat(body, bin(BinOp::Ge, v(w), lit(passes))),
        }
    };
    for kind in ["for", "while", "repeat"] {
        for (cname, ctl) in [("continue", Stmt::Continue), ("exit", Stmt::Exit)] {
            for trigger in 1..=passes + 1 {
                for pos in 0..3usize {
                    // `w` counts the passes (incremented first, so that CONTINUE cannot starve the loop)
                    let mut body = vec![inc("w"), asg("s", bin(BinOp::Add, v("s"), v("w"))), inc("q")];
                    let guard = Stmt::If(bin(BinOp::Eq, v("w"), lit(trigger)), vec![ctl.clone()], Vec::new(), Vec::new());
                    body.insert(pos + 1, guard);
                    let prog = plain(
                        vec![d("w"), d("s"), d("q"), d("iw"), d("after")],
                        vec![wrap(kind, body, "w"), asg("after", bin(BinOp::Add, v("w"), lit(100)))],
                    );
                    out.push((format!("loop-{kind}-{cname}-pass{trigger}-pos{pos}"), prog));
                }
            }
        }
    }
    for outer in ["for", "while", "repeat"] {
        for inner in ["for", "while", "repeat"] {
            for (cname, ctl) in [("continue", Stmt::Continue), ("exit", Stmt::Exit)] {
                let inner_body = vec![
                    inc("u"),
                    Stmt::If(bin(BinOp::Eq, v("u"), lit(2)), vec![ctl.clone()], Vec::new(), Vec::new()),
                    inc("n"),
                ];
                let outer_body = vec![inc("w"), asg("u", lit(0)), wrap(inner, inner_body, "u"), inc("q")];
                let prog = plain(
                    vec![d("w"), d("u"), d("n"), d("q"), d("iw"), d("iu")],
                    vec![wrap(outer, outer_body, "w")],
                );
                out.push((format!("nest-{outer}-{inner}-{cname}"), prog));
            }
        }
    }
    out
}

/// Short-circuit stream: `L AND R` / `L OR R` where R is a bare variable, a literal or a compound
/// expression holding the absorbing or the neutral value, and L is pure, divides by zero,
/// overflows or runs off an array: only the RIGHT operand may be skipped, and only when the left
/// one decides.
pub fn short_circuit_programs() -> Vec<(String, Program)> {
    let mut out = Vec::new();
    let int = Ty::Int(IKind::Int);
    for (opname, op, absorbing) in [("and", BinOp::And, false), ("or", BinOp::Or, true)] {
        for (lname, z, big, ix) in [("pure", 1i128, 1i128, 1i128), ("divzero", 0, 1, 1), ("overflow", 1, 32767, 1), ("index", 1, 1, 9)] {
            // k / z > 0 ; k + big > 0 ; ar[ix] > 0 — combined with AND so that each left operand
            // evaluates all three pieces
            let left = bin(
                BinOp::Gt,
                bin(
                    BinOp::Add,
                    bin(BinOp::Div, v("k"), v("z")),
                    bin(BinOp::Add, bin(BinOp::Add, v("k"), v("big")), Expr::Idx("ar".into(), Box::new(v("ix")))),
                ),
                tl(IKind::Int, 0),
            );
            for (rname, right, e_init) in [
                ("var-absorbing", v("e"), absorbing),
                ("var-neutral", v("e"), !absorbing),
                ("lit-absorbing", Expr::BLit(absorbing), false),
                ("lit-neutral", Expr::BLit(!absorbing), false),
                ("compound-absorbing", bin(BinOp::Eq, v("e"), Expr::BLit(true)), absorbing),
            ] {
                for flipped in [false, true] {
                    let (l, r) = if flipped { (right.clone(), left.clone()) } else { (left.clone(), right.clone()) };
                    let prog = Program {
                        funcs: Vec::new(), fbs: Vec::new(), insts: Vec::new(),
                        aggs: vec![("ar".to_string(), AggDecl::Arr(0, 3, int))],
                        decls: vec![
                            tdecl("k", int, 4), tdecl("z", int, z), tdecl("big", int, big), tdecl("ix", int, ix),
                            VarDecl { name: "e".into(), ty: Ty::Bool, init: e_init as i128, typed_init: false, has_init: true },
                            VarDecl { name: "res".into(), ty: Ty::Bool, init: 0, typed_init: false, has_init: true },
                            tdecl("after", int, 0),
                        ],
                        body: vec![asg("res", bin(op, l, r)), asg("after", tl(IKind::Int, 1))],
                    };
                    out.push((format!("sc-{opname}-{lname}-{rname}-{}", if flipped { "rl" } else { "lr" }), prog));
                }
            }
        }
    }
    // the skipped operand has a side effect: a FUNCTION that increments its VAR_IN_OUT
    let bump = FuncDef {
        name: "Bump".into(),
        ret: int,
        params: vec![Param { name: "x".into(), ty: int, dir: Dir::InOut, default: None }],
        locals: Vec::new(),
        body: vec![asg("x", bin(BinOp::Add, v("x"), tl(IKind::Int, 1))), asg("Bump", v("x"))],
    };
    for (opname, op, absorbing) in [("and", BinOp::And, false), ("or", BinOp::Or, true)] {
        for (rname, right, e_init) in [
            ("var-absorbing", v("e"), absorbing),
            ("var-neutral", v("e"), !absorbing),
            ("lit-absorbing", Expr::BLit(absorbing), false),
        ] {
            for flipped in [false, true] {
                let call = Expr::Call("Bump".into(), vec![Arg { name: Some("x".into()), arrow: false, e: v("n") }]);
                let left = bin(BinOp::Gt, call, tl(IKind::Int, 0));
                let (l, r) = if flipped { (right.clone(), left) } else { (left, right.clone()) };
                let prog = Program {
                    funcs: vec![bump.clone()], fbs: Vec::new(), insts: Vec::new(), aggs: Vec::new(),
                    decls: vec![
                        tdecl("n", int, 0),
                        VarDecl { name: "e".into(), ty: Ty::Bool, init: e_init as i128, typed_init: false, has_init: true },
                        VarDecl { name: "res".into(), ty: Ty::Bool, init: 0, typed_init: false, has_init: true },
                    ],
                    body: vec![asg("res", bin(op, l, r))],
                };
                out.push((format!("sc-{opname}-inout-{rname}-{}", if flipped { "rl" } else { "lr" }), prog));
            }
        }
    }
    out
}

/// Operator-pair precedence matrix: for every ordered pair of operators that can be adjacent
/// (binary inside binary on either side, prefix operator before / after a binary operator, prefix
/// operator over a binary operand) one program whose source is printed with the MINIMAL
/// parentheses table 71 of docs/specs/05-expressions.md allows.  The syntax tree sent to the model
/// is the intended one, so a parser that groups differently computes another value.  Operand values
/// are chosen so that the two groupings differ (non-commutative operators, even exponent).
pub fn precedence_programs() -> Vec<(String, Program)> {
    use BinOp::*;
    let dint = Ty::Int(IKind::DInt);
    let ops = [Or, Xor, And, Eq, Ne, Lt, Le, Gt, Ge, Add, Sub, Mul, Div, Mod, Pow];
    #[derive(Clone, Copy, PartialEq)]
    enum T { I, B }
    let operand_ty = |op: BinOp| -> Vec<T> {
        match op {
            Or | Xor | And => vec![T::B],
            Eq | Ne => vec![T::I, T::B],
            Lt | Le | Gt | Ge => vec![T::I],
            _ => vec![T::I],
        }
    };
    let result_ty = |op: BinOp| match op {
        Add | Sub | Mul | Div | Mod | Pow => T::I,
        _ => T::B,
    };
    let ileaf = ["x7", "x3", "x2"];
    let bleaf = ["p1", "p0", "q1"];
    let leaf = |t: T, i: usize| v(if t == T::I { ileaf[i] } else { bleaf[i] });
    let decls = || {
        vec![
            tdecl("x7", dint, 7), tdecl("x3", dint, 3), tdecl("x2", dint, 2),
            VarDecl { name: "p1".into(), ty: Ty::Bool, init: 1, typed_init: false, has_init: true },
            VarDecl { name: "p0".into(), ty: Ty::Bool, init: 0, typed_init: false, has_init: true },
            VarDecl { name: "q1".into(), ty: Ty::Bool, init: 1, typed_init: false, has_init: true },
            tdecl("ri", dint, 0),
            VarDecl { name: "rb".into(), ty: Ty::Bool, init: 0, typed_init: false, has_init: true },
        ]
    };
    let store = |t: T, e: Expr| asg(if t == T::I { "ri" } else { "rb" }, e);
    let mut out = Vec::new();
    for &o in &ops {
        for &i in &ops {
            if o == Pow && i == Pow {
                continue; // nested `**`: recorded finding (parsed right-associatively), always parenthesised
            }
            let it = result_ty(i);
            if !operand_ty(o).contains(&it) {
                continue;
            }
            for &inner_operand in &operand_ty(i) {
                // the inner operator on the left and on the right of the outer one
                let inner = |a: usize, b: usize| bin(i, leaf(inner_operand, a), leaf(inner_operand, b));
                out.push((
                    format!("prec-{}-{}-left-{}", o.word(), i.word(), if inner_operand == T::I { "i" } else { "b" }),
                    plain(decls(), vec![store(result_ty(o), bin(o, inner(0, 1), leaf(it, 2)))]),
                ));
                out.push((
                    format!("prec-{}-{}-right-{}", o.word(), i.word(), if inner_operand == T::I { "i" } else { "b" }),
                    plain(decls(), vec![store(result_ty(o), bin(o, leaf(it, 0), inner(1, 2)))]),
                ));
            }
        }
    }
    // prefix operators
    for &o in &ops {
        for &t in &operand_ty(o) {
            let un = |e: Expr| if t == T::I { neg(e) } else { Expr::Un(UnOp::Not, Box::new(e)) };
            // prefix operator on the left / right operand
            out.push((format!("prec-{}-prefix-left-{}", o.word(), if t == T::I { "i" } else { "b" }),
                plain(decls(), vec![store(result_ty(o), bin(o, un(leaf(t, 1)), leaf(t, 2)))])));
            out.push((format!("prec-{}-prefix-right-{}", o.word(), if t == T::I { "i" } else { "b" }),
                plain(decls(), vec![store(result_ty(o), bin(o, leaf(t, 0), un(leaf(t, 2))))])));
        }
        // prefix operator over the whole binary expression
        let rt = result_ty(o);
        let t0 = operand_ty(o)[0];
        let whole = bin(o, leaf(t0, 0), leaf(t0, 1));
        let e = if rt == T::I { neg(whole) } else { Expr::Un(UnOp::Not, Box::new(whole)) };
        out.push((format!("prec-prefix-over-{}", o.word()), plain(decls(), vec![store(rt, e)])));
    }
    // double prefix
    out.push(("prec-neg-neg".into(), plain(decls(), vec![store(T::I, neg(neg(v("x3"))))])));
    out.push(("prec-not-not".into(), plain(decls(), vec![store(T::B, Expr::Un(UnOp::Not, Box::new(Expr::Un(UnOp::Not, Box::new(v("p0"))))))])));
    out
}

/// Defect-position matrix: one ill-formed expression (a value of the wrong family, or an undefined
/// name) planted in EVERY syntactic position that holds an expression — conditions of IF / ELSIF /
/// WHILE / UNTIL, CASE selector, FOR start / end / step, right-hand sides in every kind of branch,
/// array subscripts, call arguments (positional, named, `=>`), RETURN values — in programs whose
/// first cycle REACHES the position.  The real compiler must reject every one of them; if it
/// accepts one, the cycle runs into the defect and the C01 oracle has its failing input.
pub fn defect_position_programs() -> Vec<(String, Program)> {
    let dint = Ty::Int(IKind::DInt);
    let mut out = Vec::new();
    let f0 = FuncDef {
        name: "F0".into(),
        ret: dint,
        params: vec![
            Param { name: "pa0".into(), ty: dint, dir: Dir::In, default: None },
            Param { name: "po0".into(), ty: dint, dir: Dir::Out, default: None },
        ],
        locals: Vec::new(),
        body: vec![asg("po0", v("pa0")), asg("F0", v("pa0"))],
    };
    let fb0 = FbDef {
        name: "FB0".into(),
        params: vec![
            Param { name: "in0".into(), ty: dint, dir: Dir::In, default: None },
            Param { name: "out0".into(), ty: dint, dir: Dir::Out, default: None },
        ],
        vars: Vec::new(),
        body: vec![asg("out0", v("in0"))],
    };
    // (defect name, expression for a BOOL position, expression for an integer position)
    let defects: Vec<(&str, Expr, Expr)> = vec![
        ("family", v("d"), v("t")),
        ("undefined", v("nosuch"), v("nosuch")),
        ("ok", v("t"), v("d")), // the well-formed base: must be accepted and run clean
    ];
    let one = || lit(1);
    let set = |n: i128| vec![asg("d", lit(n))];
    for (dname, xb, xi) in &defects {
        let xb = || xb.clone();
        let xi = || xi.clone();
        let mut add = |pos: &str, stage: u8, body: Vec<Stmt>| {
            let decls = vec![
                VarDecl { name: "d".into(), ty: dint, init: 1, typed_init: false, has_init: true },
                VarDecl { name: "e".into(), ty: dint, init: 0, typed_init: false, has_init: true },
                VarDecl { name: "i".into(), ty: dint, init: 0, typed_init: false, has_init: true },
                VarDecl { name: "b".into(), ty: Ty::Bool, init: 0, typed_init: false, has_init: true },
                VarDecl { name: "t".into(), ty: Ty::Bool, init: 1, typed_init: false, has_init: true },
            ];
            let prog = Program {
                funcs: if stage == 4 { vec![f0.clone()] } else { Vec::new() },
                fbs: if stage == 5 { vec![fb0.clone()] } else { Vec::new() },
                insts: if stage == 5 { vec![("c0".to_string(), "FB0".to_string())] } else { Vec::new() },
                aggs: if stage == 3 { vec![("ar".to_string(), AggDecl::Arr(0, 3, dint))] } else { Vec::new() },
                decls,
                body,
            };
            out.push((format!("defect-{dname}-{pos}"), prog));
        };
        let no_elif: Vec<(Expr, Vec<Stmt>)> = Vec::new();
        add("if-cond", 2, vec![Stmt::If(xb(), set(2), no_elif.clone(), Vec::new())]);
        add("elsif-cond", 2, vec![Stmt::If(v("b"), set(2), vec![(xb(), set(3))], Vec::new())]);
        add("elsif2-cond", 2, vec![Stmt::If(v("b"), set(2), vec![(v("b"), set(3)), (xb(), set(4))], set(5))]);
        add("then-stmt", 2, vec![Stmt::If(v("t"), vec![asg("e", xi())], no_elif.clone(), Vec::new())]);
        add("elsif-stmt", 2, vec![Stmt::If(v("b"), set(2), vec![(v("t"), vec![asg("e", xi())])], Vec::new())]);
        add("else-stmt", 2, vec![Stmt::If(v("b"), set(2), no_elif.clone(), vec![asg("e", xi())])]);
        let lab = |n: i128| vec![Label::Single(LabLit { ty: None, v: n })];
        add("case-selector", 2, vec![Stmt::Case(xi(), vec![(lab(1), set(2))], set(3))]);
        add("case-branch-stmt", 2, vec![Stmt::Case(v("d"), vec![(lab(1), vec![asg("e", xi())])], set(3))]);
        add("case-else-stmt", 2, vec![Stmt::Case(v("d"), vec![(lab(7), set(2))], vec![asg("e", xi())])]);
        add("for-start", 2, vec![Stmt::For("i".into(), xi(), lit(3), None, vec![asg("e", lit(2))])]);
        add("for-end", 2, vec![Stmt::For("i".into(), one(), xi(), None, vec![asg("e", lit(2))])]);
        add("for-step", 2, vec![Stmt::For("i".into(), one(), lit(3), Some(xi()), vec![asg("e", lit(2))])]);
        add("for-body-stmt", 2, vec![Stmt::For("i".into(), one(), lit(2), None, vec![asg("e", xi())])]);
        add("while-cond", 2, vec![Stmt::While(xb(), vec![asg("e", lit(2)), Stmt::Exit])]);
        add("while-body-stmt", 2, vec![Stmt::While(v("t"), vec![asg("e", xi()), Stmt::Exit])]);
        add("until-cond", 2, vec![Stmt::Repeat(vec![asg("e", lit(2))], xb())]);
        add("repeat-body-stmt", 2, vec![Stmt::Repeat(vec![asg("e", xi())], v("t"))]);
        add("assign-int", 2, vec![asg("e", xi())]);
        add("assign-bool", 2, vec![asg("b", xb())]);
        add("operand-arith", 2, vec![asg("e", bin(BinOp::Add, v("d"), xi()))]);
        add("operand-compare", 2, vec![asg("b", bin(BinOp::Lt, xi(), v("d")))]);
        add("operand-logic", 2, vec![asg("b", bin(BinOp::And, v("t"), xb()))]);
        add("operand-not", 2, vec![asg("b", Expr::Un(UnOp::Not, Box::new(xb())))]);
        add("operand-neg", 2, vec![asg("e", neg(xi()))]);
        add("index-read", 3, vec![asg("e", Expr::Idx("ar".into(), Box::new(xi())))]);
        add("index-write", 3, vec![Stmt::AssignIdx("ar".into(), xi(), one())]);
        add("element-value", 3, vec![Stmt::AssignIdx("ar".into(), one(), xi())]);
        let arg = |name: Option<&str>, arrow: bool, e: Expr| Arg { name: name.map(|s| s.to_string()), arrow, e };
        add("call-arg-positional", 4, vec![asg("e", Expr::Call("F0".into(), vec![arg(None, false, xi()), arg(None, false, v("i"))]))]);
        add("call-arg-named", 4, vec![asg("e", Expr::Call("F0".into(), vec![arg(Some("pa0"), false, xi())]))]);
        add("call-arg-out-target", 4, vec![asg("e", Expr::Call("F0".into(), vec![arg(Some("pa0"), false, one()), arg(Some("po0"), true, if *dname == "ok" { v("i") } else if *dname == "family" { v("t") } else { v("nosuch") })]))]);
        add("call-in-condition", 4, vec![Stmt::If(v("b"), set(2), vec![(bin(BinOp::Gt, Expr::Call("F0".into(), vec![arg(Some("pa0"), false, xi())]), lit(0)), set(3))], Vec::new())]);
        add("fb-arg-named", 5, vec![Stmt::FbCall("c0".into(), vec![arg(Some("in0"), false, xi())])]);
        add("fb-arg-out-target", 5, vec![Stmt::FbCall("c0".into(), vec![arg(Some("in0"), false, one()), arg(Some("out0"), true, if *dname == "ok" { v("i") } else if *dname == "family" { v("t") } else { v("nosuch") })])]);
    }
    // wrong argument counts (positional) in a plain statement and inside an ELSIF condition
    let arg = |e: Expr| Arg { name: None, arrow: false, e };
    for (pos, body) in [
        ("stmt", vec![asg("e", Expr::Call("F0".into(), vec![arg(lit(1))]))]),
        (
            "elsif-cond",
            vec![Stmt::If(
                v("b"),
                vec![asg("e", lit(2))],
                vec![(bin(BinOp::Gt, Expr::Call("F0".into(), vec![arg(lit(1))]), lit(0)), vec![asg("e", lit(3))])],
                Vec::new(),
            )],
        ),
    ] {
        out.push((
            format!("defect-argcount-{pos}"),
            Program {
                funcs: vec![f0.clone()], fbs: Vec::new(), insts: Vec::new(), aggs: Vec::new(),
                decls: vec![
                    VarDecl { name: "e".into(), ty: dint, init: 0, typed_init: false, has_init: true },
                    VarDecl { name: "b".into(), ty: Ty::Bool, init: 0, typed_init: false, has_init: true },
                ],
                body,
            },
        ));
    }
    out
}

fn emit_raw(out: &mut Out, n: u64, id: &str, source: &str) {
    out.line(format!("case {n}"));
    out.line(format!("tag witness raw-{id}"));
    out.line(format!("src {}", hex(source.as_bytes())));
    let obs = match run_real(source, vec![Vec::new(), Vec::new()]) {
        CaseResult::CompilePanic => "compile-panic".to_string(),
        CaseResult::Rejected(m) => format!("reject {}", m.replace('\n', " | ")),
        CaseResult::Ran(c) => c.iter().map(|(_, l)| l.clone()).collect::<Vec<_>>().join(" ; "),
    };
    out.line(format!("# rawobs {id} {obs}"));
    out.line("end");
}

pub fn run_focus(args: &Args, focus: Focus) -> i32 {
    // keep panics of the code under test quiet on stderr (they are reported as `impl panic`)
    std::panic::set_hook(Box::new(|_| {}));
    let mut out = Out::new();
    let cycles = args.extra_usize("cycles", 3);
    // development aid: `vharness c01 --srcfile prog.st [--cycles n]` compiles and runs an ST source
    // with the real code and prints the observations (not used by the checks)
    if let Some(path) = args.extra.get("srcfile") {
        let source = std::fs::read_to_string(path).expect("srcfile");
        match run_real(&source, (0..cycles).map(|_| Vec::new()).collect()) {
            CaseResult::CompilePanic => println!("compile-panic"),
            CaseResult::Rejected(m) => println!("reject {m}"),
            CaseResult::Ran(c) => {
                for (_, l) in c {
                    println!("{l}");
                }
            }
        }
        return 0;
    }
    if let Some(path) = args.extra.get("deadline-src") {
        return obs2::deadline_child(path, args.extra_usize("budget-ms", 150) as u64);
    }
    let ws = witnesses();
    let raws = raw_witnesses();
    let children = child_witnesses();
    let run_witness = |out: &mut Out, idx: usize| {
        let n = WITNESS_BASE + idx as u64;
        if idx < ws.len() {
            let (id, prog) = &ws[idx];
            let inputs = (0..cycles).map(|_| Vec::new()).collect();
            emit_case(out, n, prog, &format!("witness wit-{id}"), inputs);
        } else if idx - ws.len() < raws.len() {
            let (id, src) = raws[idx - ws.len()];
            emit_raw(out, n, id, src);
        } else if idx - ws.len() - raws.len() < children.len() {
            let (id, src) = children[idx - ws.len() - raws.len()];
            emit_child(out, n, id, src);
        }
    };
    let matrix = matrix_programs();
    // oracle-only streams (src/c01/obs.rs): the C03 mix has more histories, the others more frame cases
    let frames_cases = args.extra_usize("frames-cases", if focus == Focus::C03 { 60 } else { 150 }) as u64;
    let history_cases = args.extra_usize("history-cases", if focus == Focus::C03 { 250 } else { 40 }) as u64;
    let eno_cases = args.extra_usize("eno-cases", 60) as u64;
    let mdim_cases = args.extra_usize("mdim-cases", 60) as u64;
    let stdlib_cases = args.extra_usize("stdlib-cases", if focus == Focus::C03 { 120 } else { 30 }) as u64;
    let debug_cases = args.extra_usize("debug-cases", if focus == Focus::C03 { 120 } else { 20 }) as u64;
    let aoff_cases = args.extra_usize("aoff-cases", if focus == Focus::C02 { 120 } else { 20 }) as u64;
    for n in args.case_numbers() {
        if n >= obs2::AOFF_BASE {
            obs2::emit_aoff_case(&mut out, args.seed, n);
            continue;
        }
        if n >= obs2::DEBUG_BASE {
            obs2::emit_debug_case(&mut out, args.seed, n);
            continue;
        }
        if n >= obs2::STDLIB_BASE {
            obs2::emit_stdlib_case(&mut out, args.seed, n);
            continue;
        }
        if n >= obs2::MDIM_BASE {
            obs2::emit_mdim_case(&mut out, args.seed, n);
            continue;
        }
        if n >= obs2::ENO_BASE {
            obs2::emit_eno_case(&mut out, args.seed, n, cycles);
            continue;
        }
        if n >= obs2::DEADLINE_BASE {
            obs2::emit_deadline_case(&mut out, n);
            continue;
        }
        if n >= obs::HIST_BASE {
            obs::emit_history_case(&mut out, args.seed, n);
            continue;
        }
        if n >= obs::FRAMES_BASE {
            obs::emit_frames_case(&mut out, args.seed, n, cycles);
            continue;
        }
        if n >= MATRIX_BASE {
            if let Some((id, prog)) = matrix.get((n - MATRIX_BASE) as usize) {
                emit_case(&mut out, n, prog, &format!("matrix mx-{id}"), vec![Vec::new()]);
            }
            continue;
        }
        if n >= WITNESS_BASE {
            run_witness(&mut out, (n - WITNESS_BASE) as usize);
            continue;
        }
        let mut rng = Rng::for_case(args.seed, n);
        let (profile, sabotage) = pick_profile(&mut rng, focus);
        let stage_roll = rng.below(100);
        let s4 = stage_roll < 25;
        let s5 = (25..45).contains(&stage_roll);
        let s3 = (45..65).contains(&stage_roll);
        let (prog, sabotaged) = if s4 {
            Gen::new(&mut rng, profile, sabotage).gen_program_s4()
        } else if s5 {
            Gen::new(&mut rng, profile, sabotage).gen_program_s5()
        } else if s3 {
            Gen::new(&mut rng, profile, sabotage).gen_program_s3()
        } else {
            Gen::new(&mut rng, profile, sabotage).gen_program()
        };
        let stage = if s4 { "s4" } else if s5 { "s5" } else if s3 { "s3" } else { "s2" };
        let rate = if focus == Focus::C03 { 25 } else { 12 };
        let inputs = gen_inputs(&mut rng, &prog, cycles, rate);
        let mut tags = format!("profile-{} stage-{stage}", profile.name());
        out.count(&format!("profile-{}", profile.name()));
        out.count(&format!("stage-{stage}"));
        if let Some(what) = sabotaged {
            let _ = write!(tags, " sabotaged sab-{what}");
            out.count(&format!("sab-{what}"));
        }
        emit_case(&mut out, n, &prog, &tags, inputs);
    }
    if args.only.is_none() {
        for idx in 0..ws.len() + raws.len() + children.len() {
            run_witness(&mut out, idx);
        }
        for (i, (id, prog)) in matrix.iter().enumerate() {
            emit_case(&mut out, MATRIX_BASE + i as u64, prog, &format!("matrix mx-{id}"), vec![Vec::new()]);
        }
        out.add("matrix-programs", matrix.len() as u64);
        for i in 0..frames_cases {
            obs::emit_frames_case(&mut out, args.seed, obs::FRAMES_BASE + i, cycles);
        }
        for i in 0..history_cases {
            obs::emit_history_case(&mut out, args.seed, obs::HIST_BASE + i);
        }
        if focus == Focus::C01 {
            for i in 0..obs2::deadline_programs().len() as u64 {
                obs2::emit_deadline_case(&mut out, obs2::DEADLINE_BASE + i);
            }
        }
        for i in 0..eno_cases {
            obs2::emit_eno_case(&mut out, args.seed, obs2::ENO_BASE + i, cycles);
        }
        for i in 0..mdim_cases {
            obs2::emit_mdim_case(&mut out, args.seed, obs2::MDIM_BASE + i);
        }
        for i in 0..stdlib_cases {
            obs2::emit_stdlib_case(&mut out, args.seed, obs2::STDLIB_BASE + i);
        }
        for i in 0..debug_cases {
            obs2::emit_debug_case(&mut out, args.seed, obs2::DEBUG_BASE + i);
        }
        for i in 0..aoff_cases {
            obs2::emit_aoff_case(&mut out, args.seed, obs2::AOFF_BASE + i);
        }
    }
    out.finish(&args.out);
    0
}

pub fn run(args: &Args) -> i32 {
    run_focus(args, Focus::C01)
}
