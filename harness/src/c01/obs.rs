//! Oracle-only streams of C01 / C03.
//!
//! The programs of these streams use features the Lean models do not cover (VAR_TEMP, FB / FUNCTION
//! outputs and in-outs bound to elements, fields and plain names of frame-local variables, nested
//! FB instances, bit-string and REAL variables, `AT %…` bindings, several PROGRAMs, RETAIN, restarts).
//! They are **well typed by construction** (exact kinds, typed literals only), so
//!
//! * C01: a static-class error, a panic or a frame left behind is a failure whatever the values are;
//! * C03: every dumped slot must carry the tag of its declared type after every event.
//!
//! Each observation is an `obs` / `obst` operation whose answer is the fixed word `seen`; the
//! observation itself is a field of the operation, and pass 2 of the driver judges it
//! (`obs`: C01 and C03, `obst`: C03 only — used where the environment misbehaves on purpose, e.g. a
//! driver writes a value of the wrong type into the process image, which the runtime answers with
//! `TypeMismatch`).

use crate::rng::Rng;
use crate::util::{hex, Out};
use std::fmt::Write as _;
use trust_runtime::harness::TestHarness;
use trust_runtime::io::IoAddress;
use trust_runtime::memory::{InstanceId, VariableStorage};
use trust_runtime::value::Value;
use trust_runtime::RestartMode;

pub const FRAMES_BASE: u64 = 3_000_000;
pub const HIST_BASE: u64 = 3_100_000;

/// `Tag:value` (value 0 for everything that is not BOOL or an integer).
fn show(v: &Value) -> String {
    match v {
        Value::Bool(b) => format!("Bool:{}", *b as u8),
        Value::SInt(x) => format!("SInt:{x}"),
        Value::Int(x) => format!("Int:{x}"),
        Value::DInt(x) => format!("DInt:{x}"),
        Value::LInt(x) => format!("LInt:{x}"),
        Value::USInt(x) => format!("USInt:{x}"),
        Value::UInt(x) => format!("UInt:{x}"),
        Value::UDInt(x) => format!("UDInt:{x}"),
        Value::ULInt(x) => format!("ULInt:{x}"),
        other => {
            let s = format!("{other:?}");
            let head: String = s.chars().take_while(|c| c.is_alphanumeric()).collect();
            format!("{head}:0")
        }
    }
}

fn dump_instance(storage: &VariableStorage, id: InstanceId, prefix: &str, depth: u32, out: &mut String) {
    let Some(inst) = storage.get_instance(id) else { return };
    for (name, value) in inst.variables.iter() {
        match value {
            Value::Instance(sub) => {
                if depth < 3 {
                    dump_instance(storage, *sub, &format!("{prefix}{name}."), depth + 1, out);
                }
            }
            Value::Array(arr) if arr.dimensions.len() == 1 => {
                let lo = arr.dimensions[0].0;
                for (j, v) in arr.elements.iter().enumerate() {
                    let _ = write!(out, " {prefix}{name}[{}]={}", lo + j as i64, show(v));
                }
            }
            Value::Array(arr) => {
                // several dimensions: the element at row-major offset `off` is `name[s1,…,sn]`
                for (off, v) in arr.elements.iter().enumerate() {
                    let mut rest = off as i64;
                    let mut subs: Vec<i64> = vec![0; arr.dimensions.len()];
                    for (d, (lo, hi)) in arr.dimensions.iter().enumerate().rev() {
                        let len = hi - lo + 1;
                        subs[d] = lo + rest % len;
                        rest /= len;
                    }
                    let txt: Vec<String> = subs.iter().map(|x| x.to_string()).collect();
                    let _ = write!(out, " {prefix}{name}[{}]={}", txt.join(","), show(v));
                }
            }
            Value::Struct(sv) => {
                for (f, v) in sv.fields.iter() {
                    let _ = write!(out, " {prefix}{name}.{f}={}", show(v));
                }
            }
            _ => {
                let _ = write!(out, " {prefix}{name}={}", show(value));
            }
        }
    }
}

/// `frames=<n> Prog.var=Tag:v …` for the given PROGRAM instances.
pub fn dump_programs(h: &TestHarness, programs: &[&str]) -> String {
    let storage = h.runtime().storage();
    let mut s = format!("frames={}", storage.frames().len());
    for p in programs {
        if let Some(Value::Instance(id)) = storage.get_global(p) {
            dump_instance(storage, *id, &format!("{p}."), 0, &mut s);
        }
    }
    s
}

fn error_name(e: &trust_runtime::error::RuntimeError) -> String {
    let s = format!("{e:?}");
    s.chars().take_while(|c| c.is_alphanumeric()).collect()
}

pub fn run_cycle(h: &mut TestHarness) -> String {
    h.runtime_mut()
        .set_execution_deadline(Some(std::time::Instant::now() + std::time::Duration::from_secs(20)));
    let r = h.cycle();
    match r.errors.first() {
        None => "ok".to_string(),
        Some(e) => error_name(e),
    }
}

// ------------------------------------------------------------------------------------------
// Stream 1: frame-local variables as targets of calls
// ------------------------------------------------------------------------------------------

const FRAME_KINDS: [(&str, &str); 6] =
    [("INT", "Int"), ("DINT", "DInt"), ("LINT", "LInt"), ("UINT", "UInt"), ("UDINT", "UDInt"), ("ULINT", "ULInt")];

/// (source, declared tags of the dumped slots)
pub fn frames_program(rng: &mut Rng) -> (String, Vec<(String, String)>) {
    let (k, tag) = *rng.pick(&FRAME_KINDS);
    let lit = |n: u64| format!("{k}#{n}");
    let mut src = String::new();
    // one case in three: the initialisers of the frame-local declarations (FB VAR_TEMP, FUNCTION
    // VAR, PROGRAM VAR_TEMP) divide by an input / a variable that reaches 0 — a value-dependent
    // fault raised while the frame is being set up; the frame must still be popped
    let faulty_init = rng.chance(1, 3);
    let tt_init = if faulty_init { format!("{} / d", lit(10)) } else { lit(1) };
    let acc_init = if faulty_init { format!("{} / a", lit(10)) } else { format!("a + {}", lit(1)) };
    let tq_init = if faulty_init { format!("{} / dz", lit(30)) } else { lit(3) };
    let _ = writeln!(src, "TYPE Pair : STRUCT lo : {k}; hi : {k}; END_STRUCT END_TYPE\n");
    // a block with state, a VAR_TEMP scalar with an initialiser and a VAR_TEMP array
    let _ = writeln!(
        src,
        "FUNCTION_BLOCK Acc\nVAR_INPUT d : {k}; END_VAR\nVAR_OUTPUT q : {k}; END_VAR\nVAR_IN_OUT io : {k}; END_VAR\nVAR s : {k}; END_VAR\nVAR_TEMP tt : {k} := {tt_init}; ta : ARRAY[0..2] OF {k}; END_VAR\nta[1] := d;\ns := (s + ta[1]) MOD {m};\nq := s + tt;\nio := (io + {one}) MOD {m};\nEND_FUNCTION_BLOCK\n",
        one = lit(1),
        m = lit(50)
    );
    // a block that hands pieces of its own VAR_TEMPs to an inner block
    let ot1 = *rng.pick(&["p.hi", "t[1]", "tmp", "y"]);
    let ot2 = *rng.pick(&["p.lo", "t[0]", "tmp2"]);
    let _ = writeln!(
        src,
        "FUNCTION_BLOCK Outer\nVAR_INPUT x : {k}; END_VAR\nVAR_OUTPUT y : {k}; END_VAR\nVAR inner : Acc; END_VAR\nVAR_TEMP p : Pair; t : ARRAY[0..1] OF {k}; tmp : {k}; tmp2 : {k}; END_VAR\np.lo := x;\ninner(d := x, q => {ot1}, io := {ot2});\ny := (y + p.lo + p.hi + t[0] + t[1] + tmp + tmp2) MOD {m};\nEND_FUNCTION_BLOCK\n",
        m = lit(50)
    );
    // a function with a local array, an initialiser that reads a parameter, an output and an in-out
    let _ = writeln!(
        src,
        "FUNCTION Fout : {k}\nVAR_INPUT a : {k}; END_VAR\nVAR_OUTPUT o : {k}; END_VAR\nVAR_IN_OUT m : {k}; END_VAR\nVAR loc : ARRAY[0..2] OF {k}; acc : {k} := {acc_init}; END_VAR\nloc[0] := a;\nloc[2] := acc;\no := loc[0] + loc[2];\nm := (m + {one}) MOD {md};\nFout := loc[2];\nEND_FUNCTION\n",
        one = lit(1),
        md = lit(50)
    );
    // a function whose own locals (element, field, plain name) receive the output and the in-out
    // of the function it calls
    let wt = *rng.pick(&["l[1]", "lp.hi", "lm"]);
    let wt2 = *rng.pick(&["l[0]", "lp.lo", "lm2"]);
    let _ = writeln!(
        src,
        "FUNCTION Fwrap : {k}\nVAR_INPUT a : {k}; END_VAR\nVAR l : ARRAY[0..1] OF {k}; lp : Pair; lm : {k}; lm2 : {k}; END_VAR\nFwrap := Fout(a := a, o => {wt}, m := {wt2});\nFwrap := (Fwrap + l[0] + l[1] + lp.lo + lp.hi + lm + lm2) MOD {md};\nEND_FUNCTION\n",
        md = lit(50)
    );
    let _ = writeln!(
        src,
        "PROGRAM P\nVAR fb1 : Acc; fb2 : Acc; ou : Outer; r : {k}; r2 : {k}; hist : ARRAY[0..2] OF {k}; pv : Pair; ix : {k} := {one}; dz : {k} := {two}; END_VAR\nVAR_TEMP t : ARRAY[0..2] OF {k}; tp : Pair; tmp : {k}; tq : {k} := {tq_init}; END_VAR",
        one = lit(1),
        two = lit(2)
    );
    let lvalues = [
        "r", "r2", "hist[0]", "hist[2]", "hist[ix]", "pv.lo", "pv.hi", "t[0]", "t[1]", "t[ix]", "tp.lo", "tp.hi", "tmp", "tq",
    ];
    let n = 4 + rng.below(5);
    for _ in 0..n {
        let t1 = *rng.pick(&lvalues);
        let mut t2 = *rng.pick(&lvalues);
        while t2 == t1 {
            t2 = *rng.pick(&lvalues);
        }
        let rd1 = *rng.pick(&lvalues);
        let rd2 = *rng.pick(&lvalues);
        let c = lit(1 + rng.below(9));
        match rng.below(7) {
            6 => {
                let _ = writeln!(src, "{t1} := Fwrap(a := {c});");
            }
            0 => {
                let fb = if rng.bool() { "fb1" } else { "fb2" };
                let _ = writeln!(src, "{fb}(d := {c}, q => {t1}, io := {t2});");
            }
            1 => {
                let _ = writeln!(src, "ou(x := {c}, y => {t1});");
            }
            2 => {
                let _ = writeln!(src, "r := Fout(a := {c}, o => {t1}, m := {t2});");
            }
            3 => {
                let _ = writeln!(src, "{t1} := ({rd1} + {rd2}) MOD {};", lit(50));
            }
            4 => {
                let fb = if rng.bool() { "fb1" } else { "fb2" };
                let _ = writeln!(src, "{fb}(d := {rd1} MOD {}, io := {t1});\n{t2} := {fb}.q;", lit(50));
            }
            _ => {
                let _ = writeln!(src, "IF {rd1} > {c} THEN\n  {t1} := {rd2} MOD {};\nELSE\n  ou(x := {rd2} MOD {}, y => {t2});\nEND_IF;", lit(50), lit(50));
            }
        }
    }
    let _ = writeln!(
        src,
        "r2 := (r2 + t[0] + t[1] + t[2] + tp.lo + tp.hi + tmp + tq) MOD {};\nIF dz > {} THEN\n  dz := dz - {};\nEND_IF;\nEND_PROGRAM",
        lit(50),
        lit(0),
        lit(1)
    );
    let mut decls: Vec<(String, String)> = Vec::new();
    for s in ["r", "r2", "hist[0]", "hist[1]", "hist[2]", "pv.lo", "pv.hi", "ix", "dz"] {
        decls.push((format!("P.{s}"), tag.to_string()));
    }
    for fb in ["fb1", "fb2", "ou.inner"] {
        for s in ["d", "q", "io", "s"] {
            decls.push((format!("P.{fb}.{s}"), tag.to_string()));
        }
    }
    for s in ["x", "y"] {
        decls.push((format!("P.ou.{s}"), tag.to_string()));
    }
    (src, decls)
}

pub fn emit_head(out: &mut Out, n: u64, tags: &str, source: &str, decls: &[(String, String)]) {
    out.line(format!("case {n}"));
    out.line(format!("tag oracle-only {tags}"));
    for (slot, tag) in decls {
        out.line(format!("odecl {slot} {tag}"));
    }
    out.line(format!("src {}", hex(source.as_bytes())));
}

pub fn emit_frames_case(out: &mut Out, seed: u64, n: u64, cycles: usize) {
    let mut rng = Rng::for_case(seed, n);
    let (source, decls) = frames_program(&mut rng);
    emit_head(out, n, "stream-frames", &source, &decls);
    let compiled = std::panic::catch_unwind(|| TestHarness::from_source(&source));
    match compiled {
        Err(_) => {
            out.line("obs panic frames=0");
            out.line("impl seen");
        }
        Ok(Err(e)) => {
            // the stream is well typed by construction: a rejection is a defect of the stream
            out.line(format!("# rejected: {}", e.to_string().replace('\n', " | ")));
            out.line("obs Rejected frames=0");
            out.line("impl seen");
            out.count("frames-rejected");
        }
        Ok(Ok(mut h)) => {
            let mut any_ok = false;
            for _ in 0..cycles {
                let step = std::panic::catch_unwind(std::panic::AssertUnwindSafe(|| {
                    let outcome = run_cycle(&mut h);
                    format!("{outcome} {}", dump_programs(&h, &["P"]))
                }));
                match step {
                    Ok(line) => {
                        if line.starts_with("ok ") {
                            any_ok = true;
                        }
                        out.count(&format!("frames-outcome-{}", line.split(' ').next().unwrap_or("")));
                        out.line(format!("obs {line}"));
                        out.line("impl seen");
                    }
                    Err(_) => {
                        out.line("obs panic frames=0");
                        out.line("impl seen");
                        break;
                    }
                }
            }
            if any_ok {
                out.line("tag nontrivial");
            }
        }
    }
    out.line("end");
}

// ------------------------------------------------------------------------------------------
// Stream 2: histories — I/O bindings, process-image writes, several programs, RETAIN, restarts
// ------------------------------------------------------------------------------------------

#[derive(Clone, Copy, PartialEq, Eq)]
struct HTy {
    name: &'static str,
    tag: &'static str,
    size: char,
}

const HTYPES: [HTy; 15] = [
    HTy { name: "BOOL", tag: "Bool", size: 'X' },
    HTy { name: "SINT", tag: "SInt", size: 'B' },
    HTy { name: "INT", tag: "Int", size: 'W' },
    HTy { name: "DINT", tag: "DInt", size: 'D' },
    HTy { name: "LINT", tag: "LInt", size: 'L' },
    HTy { name: "USINT", tag: "USInt", size: 'B' },
    HTy { name: "UINT", tag: "UInt", size: 'W' },
    HTy { name: "UDINT", tag: "UDInt", size: 'D' },
    HTy { name: "ULINT", tag: "ULInt", size: 'L' },
    HTy { name: "BYTE", tag: "Byte", size: 'B' },
    HTy { name: "WORD", tag: "Word", size: 'W' },
    HTy { name: "DWORD", tag: "DWord", size: 'D' },
    HTy { name: "LWORD", tag: "LWord", size: 'L' },
    HTy { name: "REAL", tag: "Real", size: 'D' },
    HTy { name: "LREAL", tag: "LReal", size: 'L' },
];

impl HTy {
    fn lit(self, n: u64) -> String {
        match self.name {
            "BOOL" => if n % 2 == 1 { "TRUE".into() } else { "FALSE".into() },
            "REAL" | "LREAL" => format!("{}#{}.5", self.name, n),
            _ => format!("{}#{}", self.name, n),
        }
    }
    /// `x := <x changed>;` keeping the exact type
    fn update(self, x: &str) -> String {
        match self.name {
            "BOOL" => format!("{x} := NOT {x};"),
            // (the checker knows NOT / AND / OR on BOOL only)
            "BYTE" | "WORD" | "DWORD" | "LWORD" => format!("IF {x} = {} THEN {x} := {}; ELSE {x} := {}; END_IF;", self.lit(2), self.lit(3), self.lit(2)),
            "REAL" | "LREAL" => format!("{x} := {x} + {};", self.lit(1)),
            _ => format!("{x} := ({x} + {}) MOD {};", self.lit(1), self.lit(100)),
        }
    }
    /// a process-image value of the right size for this type's address
    fn image_value(self, n: u64) -> Value {
        match self.size {
            'X' => Value::Bool(n % 2 == 1),
            'B' => Value::Byte(n as u8),
            'W' => Value::Word(n as u16),
            'D' => Value::DWord(n as u32),
            _ => Value::LWord(n),
        }
    }
}

/// a value whose tag is NOT what the address size calls for
fn foreign_value(rng: &mut Rng, size: char) -> Value {
    loop {
        let v = match rng.below(8) {
            0 => Value::Int(5),
            1 => Value::Byte(1),
            2 => Value::Bool(true),
            3 => Value::DInt(-7),
            4 => Value::Real(1.5),
            5 => Value::Word(9),
            6 => Value::LWord(11),
            _ => Value::ULInt(3),
        };
        let fits = matches!(
            (&v, size),
            (Value::Bool(_), 'X') | (Value::Byte(_), 'B') | (Value::Word(_), 'W') | (Value::DWord(_), 'D') | (Value::LWord(_), 'L')
        );
        if !fits {
            return v;
        }
    }
}

struct HVar {
    prog: usize,
    name: String,
    ty: HTy,
    retain: u8, // 0 plain, 1 RETAIN, 2 PERSISTENT
    at: Option<String>,
    input: bool,
    hierarchical: bool,
    /// initialiser written with a literal of ANOTHER width of the same family (accepted by the
    /// compiler and re-tagged by `coerce_value_to_type`); such a variable is never assigned
    init_lit: Option<&'static str>,
}

/// (declared type, tag, initialiser literal of a sibling type) — every pair the compiler accepts
/// (DATE/TOD/DT do not convert between widths: `PROGRAM init error: type mismatch`).
const CROSS_INITS: [(&str, &str, &str); 11] = [
    ("LTIME", "LTime", "T#5s"),
    ("TIME", "Time", "LTIME#7s"),
    ("TIME", "Time", "T#1s"),
    ("LTIME", "LTime", "LTIME#2s"),
    ("LREAL", "LReal", "REAL#1.5"),
    ("REAL", "Real", "LREAL#1.5"),
    ("WSTRING", "WString", "'ab'"),
    ("STRING", "String", "'ab'"),
    ("DWORD", "DWord", "WORD#3"),
    ("WORD", "Word", "BYTE#3"),
    ("LWORD", "LWord", "DWORD#3"),
];

pub struct History {
    pub source: String,
    pub decls: Vec<(String, String)>,
    programs: Vec<&'static str>,
    vars: Vec<HVar>,
}

pub fn history_program(rng: &mut Rng) -> History {
    let names = ["Alpha", "Beta", "Gamma"];
    let nprog = 1 + rng.below(3) as usize;
    let pool = ["level", "count", "flag", "mode", "w", "v0", "v1"];
    let mut vars: Vec<HVar> = Vec::new();
    let mut next_off = 0u32;
    let mut next_hier = 1u32;
    for p in 0..nprog {
        let mut used: Vec<&str> = Vec::new();
        let nv = 2 + rng.below(4) as usize;
        for _ in 0..nv {
            let name = *rng.pick(&pool);
            if used.contains(&name) {
                continue;
            }
            used.push(name);
            let ty = *rng.pick(&HTYPES);
            let bound = rng.chance(2, 5);
            let (retain, at, input, hierarchical) = if bound {
                let input = rng.chance(3, 4);
                let area = if input { 'I' } else if rng.bool() { 'Q' } else { 'M' };
                let hierarchical = rng.chance(1, 2);
                let addr = if hierarchical {
                    next_hier += 1;
                    if ty.size == 'X' {
                        format!("%{area}X{}.{}.{}", next_hier, rng.below(4), rng.below(8))
                    } else {
                        format!("%{area}{}{}.{}", ty.size, next_hier, rng.below(4))
                    }
                } else {
                    next_off += 8;
                    if ty.size == 'X' {
                        format!("%{area}X{}.{}", next_off, rng.below(8))
                    } else {
                        format!("%{area}{}{}", ty.size, next_off)
                    }
                };
                (0u8, Some(addr), input || area == 'M', hierarchical)
            } else {
                (rng.below(3) as u8, None, false, false)
            };
            vars.push(HVar { prog: p, name: name.to_string(), ty, retain, at, input, hierarchical, init_lit: None });
        }
        // cross-width initialisers: re-run by every restart, kept by RETAIN through a warm one
        let extra = rng.below(3) as usize;
        for j in 0..extra {
            let (tyname, tag, lit) = *rng.pick(&CROSS_INITS);
            vars.push(HVar {
                prog: p,
                name: format!("xw{j}"),
                ty: HTy { name: tyname, tag, size: '-' },
                retain: rng.below(3) as u8,
                at: None,
                input: false,
                hierarchical: false,
                init_lit: Some(lit),
            });
        }
    }
    let mut source = String::new();
    let mut decls = Vec::new();
    for p in 0..nprog {
        let _ = writeln!(source, "PROGRAM {}", names[p]);
        for sect in 0..3u8 {
            let mine: Vec<&HVar> = vars.iter().filter(|v| v.prog == p && v.retain == sect).collect();
            if mine.is_empty() {
                continue;
            }
            let _ = writeln!(source, "{}", ["VAR", "VAR RETAIN", "VAR PERSISTENT"][sect as usize]);
            for v in mine {
                match &v.at {
                    Some(a) => {
                        let _ = writeln!(source, "  {} AT {a} : {};", v.name, v.ty.name);
                    }
                    None => {
                        let init = match v.init_lit {
                            Some(l) => l.to_string(),
                            None => v.ty.lit(1 + rng.below(5)),
                        };
                        let _ = writeln!(source, "  {} : {} := {};", v.name, v.ty.name, init);
                    }
                }
            }
            let _ = writeln!(source, "END_VAR");
        }
        let mine: Vec<&HVar> = vars.iter().filter(|v| v.prog == p).collect();
        for v in &mine {
            // inputs are only read: copy them into a variable of the same type when there is one
            if v.at.is_some() && v.input {
                if let Some(dst) = mine.iter().find(|d| d.ty == v.ty && d.at.is_none()) {
                    let _ = writeln!(source, "{} := {};", dst.name, v.name);
                }
            } else if v.init_lit.is_some() {
                // never assigned: the tag it holds is the one the initialiser coercion gave it
            } else if rng.chance(3, 4) {
                let _ = writeln!(source, "{}", v.ty.update(&v.name));
            }
        }
        let _ = writeln!(source, "END_PROGRAM\n");
        for v in &mine {
            decls.push((format!("{}.{}", names[p], v.name), v.ty.tag.to_string()));
        }
    }
    History { source, decls, programs: names[..nprog].to_vec(), vars }
}

pub fn emit_history_case(out: &mut Out, seed: u64, n: u64) {
    let mut rng = Rng::for_case(seed, n);
    let hist = history_program(&mut rng);
    emit_head(out, n, "stream-history", &hist.source, &hist.decls);
    let compiled = std::panic::catch_unwind(|| TestHarness::from_source(&hist.source));
    let mut h = match compiled {
        Err(_) => {
            out.line("obst panic frames=0");
            out.line("impl seen");
            out.line("end");
            return;
        }
        Ok(Err(e)) => {
            out.line(format!("# rejected: {}", e.to_string().replace('\n', " | ")));
            out.line("obst Rejected frames=0");
            out.line("impl seen");
            out.count("history-rejected");
            out.line("end");
            return;
        }
        Ok(Ok(h)) => h,
    };
    let debug = h.runtime_mut().enable_debug();
    let bound: Vec<&HVar> = hist.vars.iter().filter(|v| v.at.is_some()).collect();
    // a hierarchical cell has no value until somebody writes one: start with well-typed traffic
    for v in &bound {
        if v.hierarchical {
            if let Ok(addr) = IoAddress::parse(v.at.as_ref().unwrap()) {
                let _ = h.runtime_mut().io_mut().write(&addr, v.ty.image_value(1));
            }
        }
    }
    let mut any_ok = false;
    let events = 6 + rng.below(6);
    let observe = |out: &mut Out, h: &TestHarness, what: &str, outcome: &str, programs: &[&str]| {
        out.line(format!("# event {what}"));
        out.line(format!("obst {outcome} {}", dump_programs(h, programs)));
        out.line("impl seen");
    };
    for e in 0..events {
        let roll = if e == 0 { 0 } else { rng.below(10) };
        let step = std::panic::catch_unwind(std::panic::AssertUnwindSafe(|| -> (String, String) {
            match roll {
                0..=3 => ("cycle".to_string(), run_cycle(&mut h)),
                4 | 5 if !bound.is_empty() => {
                    let v = *rng.pick(&bound);
                    let addr = IoAddress::parse(v.at.as_ref().unwrap()).expect("address");
                    let value = v.ty.image_value(rng.below(200));
                    let how = rng.below(3);
                    let what = format!("write {} {:?} via {}", v.at.as_ref().unwrap(), value, ["io", "queue", "force"][how as usize]);
                    let r = match how {
                        0 => h.runtime_mut().io_mut().write(&addr, value).map_err(|e| error_name(&e)),
                        1 => {
                            debug.enqueue_io_write(addr, value);
                            Ok(())
                        }
                        _ => {
                            debug.force_io(addr, value);
                            Ok(())
                        }
                    };
                    (what, r.err().unwrap_or_else(|| "ok".into()))
                }
                6 | 7 if !bound.is_empty() => {
                    // a value of a foreign type arrives in the process image
                    let v = *rng.pick(&bound);
                    let addr = IoAddress::parse(v.at.as_ref().unwrap()).expect("address");
                    let value = foreign_value(&mut rng, v.ty.size);
                    let how = rng.below(3);
                    let what = format!("foreign-write {} {:?} via {}", v.at.as_ref().unwrap(), value, ["io", "queue", "force"][how as usize]);
                    let r = match how {
                        0 => h.runtime_mut().io_mut().write(&addr, value).map_err(|e| error_name(&e)),
                        1 => {
                            debug.enqueue_io_write(addr, value);
                            Ok(())
                        }
                        _ => {
                            debug.force_io(addr, value);
                            Ok(())
                        }
                    };
                    (what, r.err().unwrap_or_else(|| "ok".into()))
                }
                8 => ("restart warm".to_string(), h.restart(RestartMode::Warm).map_err(|e| error_name(&e)).err().unwrap_or_else(|| "ok".into())),
                9 => ("restart cold".to_string(), h.restart(RestartMode::Cold).map_err(|e| error_name(&e)).err().unwrap_or_else(|| "ok".into())),
                _ => ("cycle".to_string(), run_cycle(&mut h)),
            }
        }));
        match step {
            Ok((what, outcome)) => {
                if what == "cycle" && outcome == "ok" {
                    any_ok = true;
                }
                out.count(&format!("history-{}", what.split(' ').next().unwrap_or("")));
                observe(out, &h, &what, &outcome, &hist.programs);
            }
            Err(_) => {
                out.line("obst panic frames=0");
                out.line("impl seen");
                break;
            }
        }
    }
    if any_ok {
        out.line("tag nontrivial");
    }
    out.line("end");
}
