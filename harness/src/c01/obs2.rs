//! More oracle-only streams (see `obs.rs` for the conventions): execution budget, explicit EN/ENO,
//! multi-dimensional arrays, standard functions.

use super::obs::{dump_programs, emit_head, run_cycle};
use crate::rng::Rng;
use crate::util::Out;
use std::fmt::Write as _;
use trust_runtime::harness::TestHarness;

pub const DEADLINE_BASE: u64 = 3_200_000;
pub const ENO_BASE: u64 = 3_300_000;
pub const MDIM_BASE: u64 = 3_400_000;
pub const STDLIB_BASE: u64 = 3_500_000;

// ------------------------------------------------------------------------------------------
// Stream 3: the execution budget — "each scan cycle terminates"
// ------------------------------------------------------------------------------------------

/// Programs that cannot finish within any reasonable time: loops of every kind with empty bodies,
/// bodies of `;` only, and bodies with statements, over near-full-range bounds, directly in the
/// PROGRAM, in a FUNCTION and in a FUNCTION_BLOCK.  With an execution deadline set the cycle must
/// come back with `ExecutionTimeout`; it runs in a CHILD PROCESS that is killed after a wall-clock
/// limit — a hang is the observable `hang`.
pub fn deadline_programs() -> Vec<(&'static str, String)> {
    let wrap = |decls: &str, body: &str| format!("PROGRAM P\nVAR\n  x : DINT; {decls}\nEND_VAR\n{body}\nEND_PROGRAM\n");
    let mut v: Vec<(&'static str, String)> = Vec::new();
    v.push(("for-lint-empty", wrap("i : LINT;", "FOR i := LINT#0 TO LINT#9223372036854775806 DO\nEND_FOR;")));
    v.push(("for-lint-down-semicolons", wrap("i : LINT;", "FOR i := LINT#9223372036854775806 TO LINT#0 BY LINT#-1 DO\n  ;\n  ;\nEND_FOR;")));
    v.push(("for-dint-empty", wrap("d : DINT;", "FOR d := DINT#-2147483647 TO DINT#2147483646 DO\nEND_FOR;")));
    v.push(("for-ulint-empty", wrap("u : ULINT;", "FOR u := ULINT#0 TO ULINT#9223372036854775806 DO\nEND_FOR;")));
    v.push(("for-lint-body", wrap("i : LINT;", "FOR i := LINT#0 TO LINT#9223372036854775806 DO\n  x := (x + 1) MOD 100;\nEND_FOR;")));
    v.push(("for-nested-empty", wrap("i : LINT; j : LINT;", "FOR i := LINT#0 TO LINT#3 DO\n  FOR j := LINT#0 TO LINT#9223372036854775806 DO\n  END_FOR;\nEND_FOR;")));
    v.push(("for-if-empty", wrap("i : LINT;", "FOR i := LINT#0 TO LINT#9223372036854775806 DO\n  IF x > 5 THEN\n  END_IF;\nEND_FOR;")));
    v.push(("while-true-empty", wrap("", "WHILE TRUE DO\nEND_WHILE;")));
    v.push(("while-true-semicolon", wrap("", "WHILE TRUE DO\n  ;\nEND_WHILE;")));
    v.push(("while-body", wrap("", "WHILE x >= 0 DO\n  x := (x + 1) MOD 100;\nEND_WHILE;")));
    v.push(("repeat-empty", wrap("", "REPEAT\nUNTIL FALSE\nEND_REPEAT;")));
    v.push(("repeat-semicolon", wrap("", "REPEAT\n  ;\nUNTIL x < 0\nEND_REPEAT;")));
    v.push((
        "for-empty-in-function",
        "FUNCTION Spin : DINT\nVAR_INPUT a : DINT; END_VAR\nVAR i : LINT; END_VAR\nFOR i := LINT#0 TO LINT#9223372036854775806 DO\nEND_FOR;\nSpin := a;\nEND_FUNCTION\n\nPROGRAM P\nVAR\n  x : DINT;\nEND_VAR\nx := Spin(a := 1);\nEND_PROGRAM\n".to_string(),
    ));
    v.push((
        "for-empty-in-fb",
        "FUNCTION_BLOCK Spinner\nVAR i : LINT; END_VAR\nFOR i := LINT#9223372036854775806 TO LINT#0 BY LINT#-1 DO\nEND_FOR;\nEND_FUNCTION_BLOCK\n\nPROGRAM P\nVAR\n  x : DINT; s : Spinner;\nEND_VAR\ns();\nEND_PROGRAM\n".to_string(),
    ));
    v
}

/// Child side: `vharness c01 --deadline-src file --budget-ms n`.
pub fn deadline_child(path: &str, budget_ms: u64) -> i32 {
    let source = std::fs::read_to_string(path).expect("deadline-src");
    let mut h = match TestHarness::from_source(&source) {
        Ok(h) => h,
        Err(e) => {
            println!("Rejected frames=0 # {}", e.to_string().replace('\n', " | "));
            return 0;
        }
    };
    h.runtime_mut()
        .set_execution_deadline(Some(std::time::Instant::now() + std::time::Duration::from_millis(budget_ms)));
    let r = h.cycle();
    let outcome = match r.errors.first() {
        None => "ok".to_string(),
        Some(e) => {
            let s = format!("{e:?}");
            s.chars().take_while(|c| c.is_alphanumeric()).collect()
        }
    };
    println!("{outcome} frames={}", h.runtime().storage().frames().len());
    0
}

pub fn emit_deadline_case(out: &mut Out, n: u64) {
    let progs = deadline_programs();
    let Some((id, source)) = progs.get((n - DEADLINE_BASE) as usize) else { return };
    emit_head(out, n, &format!("stream-deadline dl-{id}"), source, &[]);
    let path = std::env::temp_dir().join(format!("vharness_c01_deadline_{}_{n}.st", std::process::id()));
    let obs = match std::fs::write(&path, source) {
        Err(e) => format!("cannot-write-{}", e.kind() as u8),
        Ok(()) => {
            let exe = std::env::current_exe().expect("current exe");
            let child = std::process::Command::new(exe)
                .args(["c01", "--deadline-src", path.to_str().unwrap_or(""), "--budget-ms", "150"])
                .stdout(std::process::Stdio::piped())
                .stderr(std::process::Stdio::null())
                .spawn();
            match child {
                Err(_) => "cannot-spawn frames=0".to_string(),
                Ok(mut child) => {
                    let start = std::time::Instant::now();
                    let limit = std::time::Duration::from_secs(6);
                    let mut result = None;
                    loop {
                        match child.try_wait() {
                            Ok(Some(_)) => {
                                let mut s = String::new();
                                if let Some(mut o) = child.stdout.take() {
                                    use std::io::Read;
                                    let _ = o.read_to_string(&mut s);
                                }
                                let first = s.lines().next().unwrap_or("").split(" # ").next().unwrap_or("").to_string();
                                result = Some(if first.is_empty() { "child-died frames=0".to_string() } else { first });
                                break;
                            }
                            Ok(None) => {
                                if start.elapsed() > limit {
                                    let _ = child.kill();
                                    let _ = child.wait();
                                    break;
                                }
                                std::thread::sleep(std::time::Duration::from_millis(10));
                            }
                            Err(_) => break,
                        }
                    }
                    // the cycle was still running 6 s after a 150 ms budget expired
                    result.unwrap_or_else(|| "hang frames=0".to_string())
                }
            }
        }
    };
    let _ = std::fs::remove_file(&path);
    out.count(&format!("deadline-{}", obs.split(' ').next().unwrap_or("")));
    out.line("oexp ExecutionTimeout");
    out.line(format!("obs {obs}"));
    out.line("impl seen");
    out.line("tag nontrivial");
    out.line("end");
}

// ------------------------------------------------------------------------------------------
// Stream 4: explicit EN / ENO
// ------------------------------------------------------------------------------------------

const EN_KINDS: [(&str, &str); 6] =
    [("INT", "Int"), ("DINT", "DInt"), ("LINT", "LInt"), ("UINT", "UInt"), ("UDINT", "UDInt"), ("SINT", "SInt")];

/// FUNCTIONs and FUNCTION_BLOCKs that declare EN / ENO explicitly, with further inputs and
/// outputs of DIFFERENT types around them (an integer kind next to REAL next to BOOL), called
/// formally with `=>` connections (EN toggling from cycle to cycle), formally without EN, and
/// positionally (EN / ENO take no argument).
pub fn eno_program(rng: &mut Rng) -> (String, Vec<(String, String)>) {
    let (k, tag) = *rng.pick(&EN_KINDS);
    let lit = |n: u64| format!("{k}#{n}");
    let mut src = String::new();
    // the position of EN / ENO inside their sections varies
    let en_first = rng.bool();
    let eno_first = rng.bool();
    let ins = |en_first: bool, rest: &str| if en_first { format!("EN : BOOL; {rest}") } else { format!("{rest} EN : BOOL;") };
    let outs = |eno_first: bool, rest: &str| if eno_first { format!("ENO : BOOL; {rest}") } else { format!("{rest} ENO : BOOL;") };
    let _ = writeln!(
        src,
        "FUNCTION Dbl : {k}\nVAR_INPUT {} END_VAR\nVAR_OUTPUT {} END_VAR\ndoubled := x + x;\nhalf := w / REAL#2.0;\nDbl := x + {};\nEND_FUNCTION\n",
        ins(en_first, &format!("x : {k}; w : REAL;")),
        outs(eno_first, &format!("doubled : {k}; half : REAL;")),
        lit(1)
    );
    let _ = writeln!(
        src,
        "FUNCTION Pick : {k}\nVAR_INPUT {} END_VAR\nVAR_OUTPUT {} END_VAR\nPick := count;\nIF weight < REAL#0.0 THEN\n  Pick := {};\nEND_IF;\nIF flag THEN\n  Pick := Pick + {};\nEND_IF;\nEND_FUNCTION\n",
        ins(en_first, &format!("count : {k}; weight : REAL; flag : BOOL;")),
        outs(eno_first, ""),
        lit(0),
        lit(1)
    );
    let _ = writeln!(
        src,
        "FUNCTION_BLOCK Scale\nVAR_INPUT {} END_VAR\nVAR_OUTPUT {} END_VAR\nVAR calls : {k}; END_VAR\ncalls := (calls + {}) MOD {};\noutv := offset * REAL#2.0;\ncnt := gain;\nEND_FUNCTION_BLOCK\n",
        ins(en_first, &format!("gain : {k}; offset : REAL;")),
        outs(eno_first, &format!("outv : REAL; cnt : {k};")),
        lit(1),
        lit(50)
    );
    let _ = writeln!(
        src,
        "PROGRAM P\nVAR\n  enable : BOOL := TRUE; g : {k} := {}; o : REAL := REAL#0.5; fl : BOOL := TRUE;\n  res : {k}; d2 : {k}; h2 : REAL; ok1 : BOOL; ok2 : BOOL; picked : {k}; picked2 : {k};\n  scaled : REAL; scaled2 : REAL; n1 : {k}; n2 : {k}; sc : Scale; sc2 : Scale; cyc : {k};\nEND_VAR",
        lit(3)
    );
    let stmts = [
        "res := Dbl(EN := enable, x := g, w := o, doubled => d2, half => h2, ENO => ok1);".to_string(),
        "res := Dbl(EN := enable, x := g, w := o, doubled => d2);".to_string(),
        "res := Dbl(x := g, w := o, half => h2);".to_string(),
        "res := Dbl(EN := NOT enable, x := g, w := o, half => h2, doubled => d2);".to_string(),
        "picked := Pick(g, o, fl);".to_string(),
        "picked2 := Pick(EN := enable, count := g, weight := o, flag := fl, ENO => ok2);".to_string(),
        "sc(g, o, scaled, n1);".to_string(),
        "sc2(EN := enable, gain := g, offset := o, outv => scaled2, cnt => n2, ENO => ok2);".to_string(),
        "sc2(gain := g, offset := o, outv => scaled2);".to_string(),
        "sc(EN := NOT enable, gain := g, offset := o, cnt => n1);".to_string(),
    ];
    let n = 4 + rng.below(5);
    for _ in 0..n {
        let _ = writeln!(src, "{}", rng.pick(&stmts));
    }
    let _ = writeln!(src, "enable := NOT enable;\ncyc := (cyc + {}) MOD {};\nEND_PROGRAM", lit(1), lit(50));
    let mut decls: Vec<(String, String)> = Vec::new();
    for (s, t) in [
        ("enable", "Bool"), ("g", tag), ("o", "Real"), ("fl", "Bool"), ("res", tag), ("d2", tag), ("h2", "Real"), ("ok1", "Bool"),
        ("ok2", "Bool"), ("picked", tag), ("picked2", tag), ("scaled", "Real"), ("scaled2", "Real"), ("n1", tag), ("n2", tag), ("cyc", tag),
    ] {
        decls.push((format!("P.{s}"), t.to_string()));
    }
    for fb in ["sc", "sc2"] {
        for (s, t) in [("EN", "Bool"), ("gain", tag), ("offset", "Real"), ("ENO", "Bool"), ("outv", "Real"), ("cnt", tag), ("calls", tag)] {
            decls.push((format!("P.{fb}.{s}"), t.to_string()));
        }
    }
    (src, decls)
}

/// Generic runner of an oracle-only case over `cycles` cycles of the single PROGRAM `P`.
pub fn emit_cycles_case(
    out: &mut Out,
    n: u64,
    tags: &str,
    source: &str,
    decls: &[(String, String)],
    cycles: usize,
    expectations: &[String],
    counter: &str,
) {
    emit_head(out, n, tags, source, decls);
    let compiled = std::panic::catch_unwind(|| TestHarness::from_source(source));
    match compiled {
        Err(_) => {
            out.line("obs panic frames=0");
            out.line("impl seen");
        }
        Ok(Err(e)) => {
            out.line(format!("# rejected: {}", e.to_string().replace('\n', " | ")));
            out.line("obs Rejected frames=0");
            out.line("impl seen");
            out.count(&format!("{counter}-rejected"));
        }
        Ok(Ok(mut h)) => {
            let mut any_ok = false;
            for c in 0..cycles {
                let step = std::panic::catch_unwind(std::panic::AssertUnwindSafe(|| {
                    let outcome = run_cycle(&mut h);
                    format!("{outcome} {}", dump_programs(&h, &["P"]))
                }));
                if let Some(e) = expectations.get(c) {
                    out.line(format!("oexp {e}"));
                }
                match step {
                    Ok(line) => {
                        if line.starts_with("ok ") {
                            any_ok = true;
                        }
                        out.count(&format!("{counter}-outcome-{}", line.split(' ').next().unwrap_or("")));
                        out.line(format!("obs {line}"));
                        out.line("impl seen");
                    }
                    Err(_) => {
                        out.line("obs panic frames=0");
                        out.line("impl seen");
                        break;
                    }
                }
            }
            if any_ok {
                out.line("tag nontrivial");
            }
        }
    }
    out.line("end");
}

pub fn emit_eno_case(out: &mut Out, seed: u64, n: u64, cycles: usize) {
    let mut rng = Rng::for_case(seed, n);
    let (source, decls) = eno_program(&mut rng);
    emit_cycles_case(out, n, "stream-eno", &source, &decls, cycles.max(3), &[], "eno");
}

pub fn emit_mdim_case(_out: &mut Out, _seed: u64, _n: u64) {}
pub fn emit_stdlib_case(_out: &mut Out, _seed: u64, _n: u64) {}
