//! More oracle-only streams (see `obs.rs` for the conventions): execution budget, explicit EN/ENO,
//! multi-dimensional arrays, standard functions.

use super::obs::{dump_programs, emit_head, run_cycle};
use crate::rng::Rng;
use crate::util::Out;
use std::fmt::Write as _;
use trust_runtime::harness::TestHarness;

pub const DEADLINE_BASE: u64 = 3_200_000;
pub const ENO_BASE: u64 = 3_300_000;
pub const MDIM_BASE: u64 = 3_400_000;
pub const STDLIB_BASE: u64 = 3_500_000;
pub const DEBUG_BASE: u64 = 3_600_000;
pub const AOFF_BASE: u64 = 3_700_000;

// ------------------------------------------------------------------------------------------
// Stream 3: the execution budget — "each scan cycle terminates"
// ------------------------------------------------------------------------------------------

/// Programs that cannot finish within any reasonable time: loops of every kind with empty bodies,
/// bodies of `;` only, and bodies with statements, over near-full-range bounds, directly in the
/// PROGRAM, in a FUNCTION and in a FUNCTION_BLOCK.  With an execution deadline set the cycle must
/// come back with `ExecutionTimeout`; it runs in a CHILD PROCESS that is killed after a wall-clock
/// limit — a hang is the observable `hang`.
pub fn deadline_programs() -> Vec<(&'static str, String)> {
    let wrap = |decls: &str, body: &str| format!("PROGRAM P\nVAR\n  x : DINT; {decls}\nEND_VAR\n{body}\nEND_PROGRAM\n");
    let mut v: Vec<(&'static str, String)> = Vec::new();
    v.push(("for-lint-empty", wrap("i : LINT;", "FOR i := LINT#0 TO LINT#9223372036854775806 DO\nEND_FOR;")));
    v.push(("for-lint-down-semicolons", wrap("i : LINT;", "FOR i := LINT#9223372036854775806 TO LINT#0 BY LINT#-1 DO\n  ;\n  ;\nEND_FOR;")));
    v.push(("for-dint-empty", wrap("d : DINT;", "FOR d := DINT#-2147483647 TO DINT#2147483646 DO\nEND_FOR;")));
    v.push(("for-ulint-empty", wrap("u : ULINT;", "FOR u := ULINT#0 TO ULINT#9223372036854775806 DO\nEND_FOR;")));
    v.push(("for-lint-body", wrap("i : LINT;", "FOR i := LINT#0 TO LINT#9223372036854775806 DO\n  x := (x + 1) MOD 100;\nEND_FOR;")));
    v.push(("for-nested-empty", wrap("i : LINT; j : LINT;", "FOR i := LINT#0 TO LINT#3 DO\n  FOR j := LINT#0 TO LINT#9223372036854775806 DO\n  END_FOR;\nEND_FOR;")));
    v.push(("for-if-empty", wrap("i : LINT;", "FOR i := LINT#0 TO LINT#9223372036854775806 DO\n  IF x > 5 THEN\n  END_IF;\nEND_FOR;")));
    v.push(("while-true-empty", wrap("", "WHILE TRUE DO\nEND_WHILE;")));
    v.push(("while-true-semicolon", wrap("", "WHILE TRUE DO\n  ;\nEND_WHILE;")));
    v.push(("while-body", wrap("", "WHILE x >= 0 DO\n  x := (x + 1) MOD 100;\nEND_WHILE;")));
    v.push(("repeat-empty", wrap("", "REPEAT\nUNTIL FALSE\nEND_REPEAT;")));
    v.push(("repeat-semicolon", wrap("", "REPEAT\n  ;\nUNTIL x < 0\nEND_REPEAT;")));
    v.push((
        "for-empty-in-function",
        "FUNCTION Spin : DINT\nVAR_INPUT a : DINT; END_VAR\nVAR i : LINT; END_VAR\nFOR i := LINT#0 TO LINT#9223372036854775806 DO\nEND_FOR;\nSpin := a;\nEND_FUNCTION\n\nPROGRAM P\nVAR\n  x : DINT;\nEND_VAR\nx := Spin(a := 1);\nEND_PROGRAM\n".to_string(),
    ));
    v.push((
        "for-empty-in-fb",
        "FUNCTION_BLOCK Spinner\nVAR i : LINT; END_VAR\nFOR i := LINT#9223372036854775806 TO LINT#0 BY LINT#-1 DO\nEND_FOR;\nEND_FUNCTION_BLOCK\n\nPROGRAM P\nVAR\n  x : DINT; s : Spinner;\nEND_VAR\ns();\nEND_PROGRAM\n".to_string(),
    ));
    v
}

/// Child side: `vharness c01 --deadline-src file --budget-ms n`.
pub fn deadline_child(path: &str, budget_ms: u64) -> i32 {
    let source = std::fs::read_to_string(path).expect("deadline-src");
    let mut h = match TestHarness::from_source(&source) {
        Ok(h) => h,
        Err(e) => {
            println!("Rejected frames=0 # {}", e.to_string().replace('\n', " | "));
            return 0;
        }
    };
    h.runtime_mut()
        .set_execution_deadline(Some(std::time::Instant::now() + std::time::Duration::from_millis(budget_ms)));
    let r = h.cycle();
    let outcome = match r.errors.first() {
        None => "ok".to_string(),
        Some(e) => {
            let s = format!("{e:?}");
            s.chars().take_while(|c| c.is_alphanumeric()).collect()
        }
    };
    println!("{outcome} frames={}", h.runtime().storage().frames().len());
    0
}

pub fn emit_deadline_case(out: &mut Out, n: u64) {
    let progs = deadline_programs();
    let Some((id, source)) = progs.get((n - DEADLINE_BASE) as usize) else { return };
    emit_head(out, n, &format!("stream-deadline dl-{id}"), source, &[]);
    let path = std::env::temp_dir().join(format!("vharness_c01_deadline_{}_{n}.st", std::process::id()));
    let obs = match std::fs::write(&path, source) {
        Err(e) => format!("cannot-write-{}", e.kind() as u8),
        Ok(()) => {
            let exe = std::env::current_exe().expect("current exe");
            let child = std::process::Command::new(exe)
                .args(["c01", "--deadline-src", path.to_str().unwrap_or(""), "--budget-ms", "150"])
                .stdout(std::process::Stdio::piped())
                .stderr(std::process::Stdio::null())
                .spawn();
            match child {
                Err(_) => "cannot-spawn frames=0".to_string(),
                Ok(mut child) => {
                    let start = std::time::Instant::now();
                    let limit = std::time::Duration::from_secs(6);
                    let mut result = None;
                    loop {
                        match child.try_wait() {
                            Ok(Some(_)) => {
                                let mut s = String::new();
                                if let Some(mut o) = child.stdout.take() {
                                    use std::io::Read;
                                    let _ = o.read_to_string(&mut s);
                                }
                                let first = s.lines().next().unwrap_or("").split(" # ").next().unwrap_or("").to_string();
                                result = Some(if first.is_empty() { "child-died frames=0".to_string() } else { first });
                                break;
                            }
                            Ok(None) => {
                                if start.elapsed() > limit {
                                    let _ = child.kill();
                                    let _ = child.wait();
                                    break;
                                }
                                std::thread::sleep(std::time::Duration::from_millis(10));
                            }
                            Err(_) => break,
                        }
                    }
                    // the cycle was still running 6 s after a 150 ms budget expired
                    result.unwrap_or_else(|| "hang frames=0".to_string())
                }
            }
        }
    };
    let _ = std::fs::remove_file(&path);
    out.count(&format!("deadline-{}", obs.split(' ').next().unwrap_or("")));
    out.line("oexp ExecutionTimeout");
    out.line(format!("obs {obs}"));
    out.line("impl seen");
    out.line("tag nontrivial");
    out.line("end");
}

// ------------------------------------------------------------------------------------------
// Stream 4: explicit EN / ENO
// ------------------------------------------------------------------------------------------

const EN_KINDS: [(&str, &str); 6] =
    [("INT", "Int"), ("DINT", "DInt"), ("LINT", "LInt"), ("UINT", "UInt"), ("UDINT", "UDInt"), ("SINT", "SInt")];

/// FUNCTIONs and FUNCTION_BLOCKs that declare EN / ENO explicitly, with further inputs and
/// outputs of DIFFERENT types around them (an integer kind next to REAL next to BOOL), called
/// formally with `=>` connections (EN toggling from cycle to cycle), formally without EN, and
/// positionally (EN / ENO take no argument).
pub fn eno_program(rng: &mut Rng) -> (String, Vec<(String, String)>) {
    let (k, tag) = *rng.pick(&EN_KINDS);
    let lit = |n: u64| format!("{k}#{n}");
    let mut src = String::new();
    // the position of EN / ENO inside their sections varies
    let en_first = rng.bool();
    let eno_first = rng.bool();
    let ins = |en_first: bool, rest: &str| if en_first { format!("EN : BOOL; {rest}") } else { format!("{rest} EN : BOOL;") };
    let outs = |eno_first: bool, rest: &str| if eno_first { format!("ENO : BOOL; {rest}") } else { format!("{rest} ENO : BOOL;") };
    let _ = writeln!(
        src,
        "FUNCTION Dbl : {k}\nVAR_INPUT {} END_VAR\nVAR_OUTPUT {} END_VAR\ndoubled := x + x;\nhalf := w / REAL#2.0;\nDbl := x + {};\nEND_FUNCTION\n",
        ins(en_first, &format!("x : {k}; w : REAL;")),
        outs(eno_first, &format!("doubled : {k}; half : REAL;")),
        lit(1)
    );
    let _ = writeln!(
        src,
        "FUNCTION Pick : {k}\nVAR_INPUT {} END_VAR\nVAR_OUTPUT {} END_VAR\nPick := count;\nIF weight < REAL#0.0 THEN\n  Pick := {};\nEND_IF;\nIF flag THEN\n  Pick := Pick + {};\nEND_IF;\nEND_FUNCTION\n",
        ins(en_first, &format!("count : {k}; weight : REAL; flag : BOOL;")),
        outs(eno_first, ""),
        lit(0),
        lit(1)
    );
    let _ = writeln!(
        src,
        "FUNCTION_BLOCK Scale\nVAR_INPUT {} END_VAR\nVAR_OUTPUT {} END_VAR\nVAR calls : {k}; END_VAR\ncalls := (calls + {}) MOD {};\noutv := offset * REAL#2.0;\ncnt := gain;\nEND_FUNCTION_BLOCK\n",
        ins(en_first, &format!("gain : {k}; offset : REAL;")),
        outs(eno_first, &format!("outv : REAL; cnt : {k};")),
        lit(1),
        lit(50)
    );
    let _ = writeln!(
        src,
        "PROGRAM P\nVAR\n  enable : BOOL := TRUE; g : {k} := {}; o : REAL := REAL#0.5; fl : BOOL := TRUE;\n  res : {k}; d2 : {k}; h2 : REAL; ok1 : BOOL; ok2 : BOOL; picked : {k}; picked2 : {k};\n  scaled : REAL; scaled2 : REAL; n1 : {k}; n2 : {k}; sc : Scale; sc2 : Scale; cyc : {k};\nEND_VAR",
        lit(3)
    );
    let stmts = [
        "res := Dbl(EN := enable, x := g, w := o, doubled => d2, half => h2, ENO => ok1);".to_string(),
        "res := Dbl(EN := enable, x := g, w := o, doubled => d2);".to_string(),
        "res := Dbl(x := g, w := o, half => h2);".to_string(),
        "res := Dbl(EN := NOT enable, x := g, w := o, half => h2, doubled => d2);".to_string(),
        "picked := Pick(g, o, fl);".to_string(),
        "picked2 := Pick(EN := enable, count := g, weight := o, flag := fl, ENO => ok2);".to_string(),
        "sc(g, o, scaled, n1);".to_string(),
        "sc2(EN := enable, gain := g, offset := o, outv => scaled2, cnt => n2, ENO => ok2);".to_string(),
        "sc2(gain := g, offset := o, outv => scaled2);".to_string(),
        "sc(EN := NOT enable, gain := g, offset := o, cnt => n1);".to_string(),
    ];
    let n = 4 + rng.below(5);
    for _ in 0..n {
        let _ = writeln!(src, "{}", rng.pick(&stmts));
    }
    let _ = writeln!(src, "enable := NOT enable;\ncyc := (cyc + {}) MOD {};\nEND_PROGRAM", lit(1), lit(50));
    let mut decls: Vec<(String, String)> = Vec::new();
    for (s, t) in [
        ("enable", "Bool"), ("g", tag), ("o", "Real"), ("fl", "Bool"), ("res", tag), ("d2", tag), ("h2", "Real"), ("ok1", "Bool"),
        ("ok2", "Bool"), ("picked", tag), ("picked2", tag), ("scaled", "Real"), ("scaled2", "Real"), ("n1", tag), ("n2", tag), ("cyc", tag),
    ] {
        decls.push((format!("P.{s}"), t.to_string()));
    }
    for fb in ["sc", "sc2"] {
        for (s, t) in [("EN", "Bool"), ("gain", tag), ("offset", "Real"), ("ENO", "Bool"), ("outv", "Real"), ("cnt", tag), ("calls", tag)] {
            decls.push((format!("P.{fb}.{s}"), t.to_string()));
        }
    }
    (src, decls)
}

/// Generic runner of an oracle-only case over `cycles` cycles of the single PROGRAM `P`.
pub fn emit_cycles_case(
    out: &mut Out,
    n: u64,
    tags: &str,
    source: &str,
    decls: &[(String, String)],
    cycles: usize,
    expectations: &[String],
    counter: &str,
) {
    emit_head(out, n, tags, source, decls);
    let compiled = std::panic::catch_unwind(|| TestHarness::from_source(source));
    match compiled {
        Err(_) => {
            out.line("obs panic frames=0");
            out.line("impl seen");
        }
        Ok(Err(e)) => {
            out.line(format!("# rejected: {}", e.to_string().replace('\n', " | ")));
            out.line("obs Rejected frames=0");
            out.line("impl seen");
            out.count(&format!("{counter}-rejected"));
        }
        Ok(Ok(mut h)) => {
            let mut any_ok = false;
            for c in 0..cycles {
                let step = std::panic::catch_unwind(std::panic::AssertUnwindSafe(|| {
                    let outcome = run_cycle(&mut h);
                    format!("{outcome} {}", dump_programs(&h, &["P"]))
                }));
                if let Some(e) = expectations.get(c) {
                    out.line(format!("oexp {e}"));
                }
                match step {
                    Ok(line) => {
                        if line.starts_with("ok ") {
                            any_ok = true;
                        }
                        out.count(&format!("{counter}-outcome-{}", line.split(' ').next().unwrap_or("")));
                        out.line(format!("obs {line}"));
                        out.line("impl seen");
                    }
                    Err(_) => {
                        out.line("obs panic frames=0");
                        out.line("impl seen");
                        break;
                    }
                }
            }
            if any_ok {
                out.line("tag nontrivial");
            }
        }
    }
    out.line("end");
}

pub fn emit_eno_case(out: &mut Out, seed: u64, n: u64, cycles: usize) {
    let mut rng = Rng::for_case(seed, n);
    let (source, decls) = eno_program(&mut rng);
    emit_cycles_case(out, n, "stream-eno", &source, &decls, cycles.max(3), &[], "eno");
}

// ------------------------------------------------------------------------------------------
// Stream 5: multi-dimensional arrays, with the generator's own expectation of every element
// ------------------------------------------------------------------------------------------

/// A straight-line program over a 2-D or 3-D array whose dimensions differ (negative lower bounds
/// included): constant subscripts at every corner, variable subscripts, read-backs into scalars and,
/// in a third of the cases, one subscript that is outside ITS OWN dimension (but inside another
/// one).  The generator evaluates the program itself on a map keyed by the subscript tuple —
/// independent of any storage layout — and states the expected outcome and the expected value of
/// every element and scalar (`oexp`).
pub fn mdim_program(rng: &mut Rng) -> (String, Vec<(String, String)>, String) {
    use std::collections::BTreeMap;
    let (k, tag) = *rng.pick(&[("INT", "Int"), ("DINT", "DInt"), ("UINT", "UInt"), ("LINT", "LInt")]);
    let shapes: [&[(i64, i64)]; 8] = [
        &[(0, 1), (0, 3)], &[(0, 3), (0, 1)], &[(-1, 1), (2, 3)], &[(1, 2), (-2, 2)], &[(0, 0), (0, 2)],
        &[(0, 1), (0, 2), (0, 3)], &[(-1, 0), (1, 3), (0, 1)], &[(0, 2), (0, 0), (-1, 1)],
    ];
    let dims: Vec<(i64, i64)> = rng.pick(&shapes).to_vec();
    let nd = dims.len();
    let dim_src: Vec<String> = dims.iter().map(|(l, u)| format!("{l}..{u}")).collect();
    let mut src = format!(
        "PROGRAM P\nVAR\n  m : ARRAY[{}] OF {k};\n  r0 : {k}; r1 : {k}; r2 : {k}; r3 : {k};\n  i0 : DINT; i1 : DINT; i2 : DINT;\nEND_VAR\n",
        dim_src.join(", ")
    );
    let mut elems: BTreeMap<Vec<i64>, i64> = BTreeMap::new();
    // every element exists with the default 0
    let mut all: Vec<Vec<i64>> = vec![Vec::new()];
    for (l, u) in &dims {
        let mut next = Vec::new();
        for p in &all {
            for x in *l..=*u {
                let mut q = p.clone();
                q.push(x);
                next.push(q);
            }
        }
        all = next;
    }
    for p in &all {
        elems.insert(p.clone(), 0);
    }
    let mut scal = [0i64; 4];
    let mut ivars = [0i64; 3];
    let subs_src = |p: &[i64]| p.iter().map(|x| x.to_string()).collect::<Vec<_>>().join(", ");
    let mut outcome = "ok".to_string();
    let mut counter = 1i64;
    // corners first
    let mut corners: Vec<Vec<i64>> = vec![Vec::new()];
    for (l, u) in &dims {
        let mut next = Vec::new();
        for p in &corners {
            for x in [*l, *u] {
                let mut q = p.clone();
                q.push(x);
                if !next.contains(&q) {
                    next.push(q);
                }
            }
        }
        corners = next;
    }
    let bad_at = if rng.chance(1, 3) { Some(rng.below(6) as usize) } else { None };
    let mut steps: Vec<u64> = Vec::new();
    for _ in 0..corners.len() {
        steps.push(0);
    }
    for _ in 0..6 {
        steps.push(1 + rng.below(3));
    }
    let mut corner_i = 0;
    let mut var_step = 0usize;
    for st in steps {
        if outcome != "ok" {
            break;
        }
        match st {
            0 => {
                let p = corners[corner_i].clone();
                corner_i += 1;
                counter += 1;
                let _ = writeln!(src, "m[{}] := {k}#{counter};", subs_src(&p));
                elems.insert(p, counter);
            }
            _ => {
                // subscripts through variables; possibly one of them outside its own dimension
                let mut p: Vec<i64> = dims.iter().map(|(l, u)| rng.range(*l, *u)).collect();
                let mut bad = false;
                if bad_at == Some(var_step) {
                    // pick a dimension and a value outside it that lies inside ANOTHER dimension if possible
                    let d = rng.below(nd as u64) as usize;
                    let (l, u) = dims[d];
                    let mut cands: Vec<i64> = Vec::new();
                    for (e, (l2, u2)) in dims.iter().enumerate() {
                        if e != d {
                            for x in *l2..=*u2 {
                                if x < l || x > u {
                                    cands.push(x);
                                }
                            }
                        }
                    }
                    if cands.is_empty() {
                        cands.push(u + 1);
                    }
                    p[d] = *rng.pick(&cands);
                    bad = true;
                }
                var_step += 1;
                for (d, x) in p.iter().enumerate() {
                    let _ = writeln!(src, "i{d} := DINT#{x};");
                    ivars[d] = *x;
                }
                let ix: Vec<String> = (0..nd).map(|d| format!("i{d}")).collect();
                let slot = rng.below(4) as usize;
                if st == 1 {
                    counter += 1;
                    let _ = writeln!(src, "m[{}] := {k}#{counter};", ix.join(", "));
                    if bad {
                        outcome = "IndexOutOfBounds".into();
                    } else {
                        elems.insert(p, counter);
                    }
                } else if st == 2 {
                    let _ = writeln!(src, "r{slot} := m[{}];", ix.join(", "));
                    if bad {
                        outcome = "IndexOutOfBounds".into();
                    } else {
                        scal[slot] = elems[&p];
                    }
                } else {
                    // element to element through a scalar expression
                    let q = rng.pick(&all).clone();
                    let _ = writeln!(src, "m[{}] := m[{}] + {k}#1;", subs_src(&q), ix.join(", "));
                    if bad {
                        outcome = "IndexOutOfBounds".into();
                    } else {
                        let v = elems[&p] + 1;
                        elems.insert(q, v);
                    }
                }
            }
        }
    }
    src.push_str("END_PROGRAM\n");
    let mut decls: Vec<(String, String)> = Vec::new();
    let mut exp = outcome.clone();
    for (p, v) in &elems {
        let name = format!("P.m[{}]", p.iter().map(|x| x.to_string()).collect::<Vec<_>>().join(","));
        decls.push((name.clone(), tag.to_string()));
        let _ = write!(exp, " {name}={tag}:{v}");
    }
    for (j, v) in scal.iter().enumerate() {
        decls.push((format!("P.r{j}"), tag.to_string()));
        let _ = write!(exp, " P.r{j}={tag}:{v}");
    }
    for (j, v) in ivars.iter().enumerate() {
        decls.push((format!("P.i{j}"), "DInt".to_string()));
        let _ = write!(exp, " P.i{j}=DInt:{v}");
    }
    (src, decls, exp)
}

pub fn emit_mdim_case(out: &mut Out, seed: u64, n: u64) {
    let mut rng = Rng::for_case(seed, n);
    let (source, decls, exp) = mdim_program(&mut rng);
    emit_cycles_case(out, n, "stream-mdim", &source, &decls, 1, &[exp], "mdim");
}

// ------------------------------------------------------------------------------------------
// Stream 6: standard functions with arguments of different widths of one family
// ------------------------------------------------------------------------------------------

#[derive(Clone, Copy)]
struct STy {
    name: &'static str,
    tag: &'static str,
    fam: u8, // 0 signed, 1 unsigned, 2 bit string, 3 real
}

const STYPES: [STy; 14] = [
    STy { name: "SINT", tag: "SInt", fam: 0 }, STy { name: "INT", tag: "Int", fam: 0 },
    STy { name: "DINT", tag: "DInt", fam: 0 }, STy { name: "LINT", tag: "LInt", fam: 0 },
    STy { name: "USINT", tag: "USInt", fam: 1 }, STy { name: "UINT", tag: "UInt", fam: 1 },
    STy { name: "UDINT", tag: "UDInt", fam: 1 }, STy { name: "ULINT", tag: "ULInt", fam: 1 },
    STy { name: "BYTE", tag: "Byte", fam: 2 }, STy { name: "WORD", tag: "Word", fam: 2 },
    STy { name: "DWORD", tag: "DWord", fam: 2 }, STy { name: "LWORD", tag: "LWord", fam: 2 },
    STy { name: "REAL", tag: "Real", fam: 3 }, STy { name: "LREAL", tag: "LReal", fam: 3 },
];

impl STy {
    fn lit(self, n: i64) -> String {
        match self.fam {
            3 => format!("{}#{}.5", self.name, n),
            2 | 1 => format!("{}#{}", self.name, n.abs()),
            _ => format!("{}#{}", self.name, n),
        }
    }
}

/// The whole space: (id, source, declared tags).  One call per program; `g` / `k` alternate from
/// cycle to cycle so that both the narrower and the wider input are selected.  The result is
/// stored in a variable of the call's static type — the wider input type for the extensible
/// functions, the input type for MOVE / ABS / NOT / shifts, the target type for conversions, BOOL
/// for the comparison functions.
pub fn stdlib_space() -> Vec<(String, String, Vec<(String, String)>)> {
    let mut out = Vec::new();
    for (ni, n) in STYPES.iter().enumerate() {
        for (wi, w) in STYPES.iter().enumerate() {
            if n.fam != w.fam || wi < ni {
                continue;
            }
            let (n, w) = (*n, *w);
            // (call, result type)
            let mut calls: Vec<(String, STy)> = Vec::new();
            let boolty = STy { name: "BOOL", tag: "Bool", fam: 9 };
            for (x, y) in [("a", "b"), ("b", "a")] {
                calls.push((format!("SEL(g, {x}, {y})"), w));
                calls.push((format!("SEL(G := g, IN0 := {x}, IN1 := {y})"), w));
                calls.push((format!("MUX(k, {x}, {y})"), w));
                calls.push((format!("MUX(k, {x}, {y}, {x})"), w));
                calls.push((format!("MAX({x}, {y})"), w));
                calls.push((format!("MIN({x}, {y})"), w));
                calls.push((format!("LIMIT({x}, {y}, {y})"), w));
                calls.push((format!("LIMIT(MN := {x}, IN := {x}, MX := {y})"), w));
                if n.fam != 2 {
                    calls.push((format!("ADD({x}, {y})"), w));
                    calls.push((format!("MUL({x}, {y})"), w));
                    calls.push((format!("ADD({x}, {y}, {x})"), w));
                    calls.push((format!("GT({x}, {y})"), boolty));
                    calls.push((format!("LE({x}, {y})"), boolty));
                    calls.push((format!("{x} + {y}"), w));
                    calls.push((format!("{x} * {y}"), w));
                } else {
                    calls.push((format!("AND({x}, {y})"), w));
                    calls.push((format!("OR({x}, {y})"), w));
                    calls.push((format!("XOR({x}, {y})"), w));
                }
                calls.push((format!("EQ({x}, {y})"), boolty));
                calls.push((format!("NE({x}, {y})"), boolty));
            }
            if n.fam != 2 {
                calls.push(("SUB(b, a)".into(), w));
                calls.push(("DIV(b, a)".into(), w));
                calls.push(("b - a".into(), w));
                calls.push(("b / a".into(), w));
                if n.fam != 3 {
                    calls.push(("MOD(b, a)".into(), w));
                    calls.push(("b MOD a".into(), w));
                }
                if n.fam != 1 {
                    calls.push(("ABS(a)".into(), n));
                    calls.push(("ABS(b)".into(), w));
                }
                calls.push(("EXPT(b, a)".into(), w));
            } else {
                calls.push(("NOT(a)".into(), n));
                for f in ["SHL", "SHR", "ROL", "ROR"] {
                    calls.push((format!("{f}(a, 1)"), n));
                    calls.push((format!("{f}(IN := b, N := 2)"), w));
                }
            }
            calls.push(("MOVE(a)".into(), n));
            calls.push(("MOVE(b)".into(), w));
            if n.name != w.name {
                calls.push((format!("{}_TO_{}(a)", n.name, w.name), w));
                calls.push((format!("{}_TO_{}(b)", w.name, n.name), n));
            }
            for (ci, (call, rt)) in calls.iter().enumerate() {
                let src = format!(
                    "PROGRAM P\nVAR\n  g : BOOL; k : INT; a : {} := {}; b : {} := {}; r : {};\nEND_VAR\nr := {call};\ng := NOT g;\nk := INT#1 - k;\nEND_PROGRAM\n",
                    n.name, n.lit(if n.fam == 0 { -3 } else { 3 }), w.name, w.lit(5), rt.name
                );
                let decls = vec![
                    ("P.g".to_string(), "Bool".to_string()), ("P.k".to_string(), "Int".to_string()),
                    ("P.a".to_string(), n.tag.to_string()), ("P.b".to_string(), w.tag.to_string()), ("P.r".to_string(), rt.tag.to_string()),
                ];
                out.push((format!("{}-{}-{ci}", n.name, w.name), src, decls));
            }
        }
    }
    out
}

pub fn emit_stdlib_case(out: &mut Out, seed: u64, n: u64) {
    let space = stdlib_space();
    let mut rng = Rng::for_case(seed, n);
    // `--stdlib-all 1` walks the space in order (exploration), otherwise a seeded sample
    let idx = (rng.below(space.len() as u64)) as usize;
    let (id, source, decls) = &space[idx];
    emit_head(out, n, &format!("stream-stdlib sl-{id}"), source, decls);
    let compiled = std::panic::catch_unwind(|| TestHarness::from_source(source));
    match compiled {
        Err(_) => {
            out.line("obst panic frames=0");
            out.line("impl seen");
        }
        Ok(Err(e)) => {
            // not every combination is in the language (e.g. a conversion that does not exist):
            // a rejection is not a failure of this stream
            out.line(format!("# rejected: {}", e.to_string().replace('\n', " | ")));
            out.count("stdlib-rejected");
        }
        Ok(Ok(mut h)) => {
            for _ in 0..2 {
                let step = std::panic::catch_unwind(std::panic::AssertUnwindSafe(|| {
                    let outcome = run_cycle(&mut h);
                    format!("{outcome} {}", dump_programs(&h, &["P"]))
                }));
                match step {
                    Ok(line) => {
                        out.count(&format!("stdlib-outcome-{}", line.split(' ').next().unwrap_or("")));
                        out.line(format!("obst {line}"));
                        out.line("impl seen");
                    }
                    Err(_) => {
                        out.line("obst panic frames=0");
                        out.line("impl seen");
                        break;
                    }
                }
            }
            out.line("tag nontrivial");
        }
    }
    out.line("end");
}

// ------------------------------------------------------------------------------------------
// Stream 7: debugger writes against same-named variables of different types in different scopes
// ------------------------------------------------------------------------------------------

#[derive(Clone, Copy, PartialEq)]
struct DTy {
    name: &'static str,
    tag: &'static str,
}

const DTYPES: [DTy; 8] = [
    DTy { name: "BOOL", tag: "Bool" }, DTy { name: "SINT", tag: "SInt" }, DTy { name: "INT", tag: "Int" },
    DTy { name: "DINT", tag: "DInt" }, DTy { name: "UINT", tag: "UInt" }, DTy { name: "LINT", tag: "LInt" },
    DTy { name: "REAL", tag: "Real" }, DTy { name: "LREAL", tag: "LReal" },
];

impl DTy {
    fn lit(self, n: i64) -> String {
        match self.name {
            "BOOL" => if n % 2 == 1 { "TRUE".into() } else { "FALSE".into() },
            "REAL" | "LREAL" => format!("{}#{}.5", self.name, n),
            _ => format!("{}#{}", self.name, n),
        }
    }
    fn value(self, n: i64) -> trust_runtime::value::Value {
        use trust_runtime::value::Value;
        match self.name {
            "BOOL" => Value::Bool(n % 2 == 1),
            "SINT" => Value::SInt(n as i8),
            "INT" => Value::Int(n as i16),
            "DINT" => Value::DInt(n as i32),
            "UINT" => Value::UInt(n as u16),
            "LINT" => Value::LInt(n),
            "REAL" => Value::Real(n as f32 + 0.5),
            _ => Value::LReal(n as f64 + 0.5),
        }
    }
    fn update(self, x: &str) -> String {
        match self.name {
            "BOOL" => format!("{x} := NOT {x};"),
            "REAL" | "LREAL" => format!("{x} := {x} + {};", self.lit(1)),
            _ => format!("{x} := ({x} + {}) MOD {};", self.lit(1), self.lit(100)),
        }
    }
}

/// The same variable names (`level`, `count`, `mode`) are declared with DIFFERENT types as
/// configuration globals, as variables of a FUNCTION_BLOCK, as locals of a FUNCTION and as
/// variables of the PROGRAM.  A debugger write is always prepared the way the debug adapter does
/// it: the value has the type of the variable the target resolves to in the scope it was prepared
/// for — a frame (by id; frames of earlier cycles have returned), the resource scope, a global, an
/// instance variable.  After every event every variable of every scope must still carry its
/// declared tag.
pub fn emit_debug_case(out: &mut Out, seed: u64, n: u64) {
    use trust_runtime::eval::expr::LValue;
    use trust_runtime::memory::FrameId;
    use trust_runtime::value::Value;
    let mut rng = Rng::for_case(seed, n);
    let names = ["level", "count", "mode"];
    let pick_distinct = |rng: &mut Rng, not: &[DTy]| -> DTy {
        loop {
            let t = *rng.pick(&DTYPES);
            if !not.contains(&t) {
                return t;
            }
        }
    };
    // per name: global type, FB type, function-local type, program type — pairwise different
    let mut tys: Vec<[DTy; 4]> = Vec::new();
    for _ in 0..names.len() {
        let g = pick_distinct(&mut rng, &[]);
        let f = pick_distinct(&mut rng, &[g]);
        let l = pick_distinct(&mut rng, &[g, f]);
        let p = pick_distinct(&mut rng, &[g, f, l]);
        tys.push([g, f, l, p]);
    }
    // which scopes declare which name (a global always exists for names 0 and 1)
    let prog_has = [false, rng.bool(), true];
    let glob_has = [true, true, rng.bool()];
    let mut src = String::from("CONFIGURATION Plant\nVAR_GLOBAL\n");
    let mut decls: Vec<(String, String)> = Vec::new();
    for (i, nm) in names.iter().enumerate() {
        if glob_has[i] {
            let _ = writeln!(src, "  {nm} : {} := {};", tys[i][0].name, tys[i][0].lit(1));
            decls.push((format!("G.{nm}"), tys[i][0].tag.to_string()));
        }
    }
    src.push_str("END_VAR\nPROGRAM Line : Line;\nEND_CONFIGURATION\n\nFUNCTION_BLOCK Tank\nVAR\n");
    for (i, nm) in names.iter().enumerate() {
        let _ = writeln!(src, "  {nm} : {} := {};", tys[i][1].name, tys[i][1].lit(2));
    }
    src.push_str("END_VAR\n");
    for (i, nm) in names.iter().enumerate() {
        let _ = writeln!(src, "{}", tys[i][1].update(nm));
    }
    src.push_str("END_FUNCTION_BLOCK\n\nFUNCTION Helper : DINT\nVAR_INPUT a : DINT; END_VAR\nVAR\n");
    for (i, nm) in names.iter().enumerate() {
        let _ = writeln!(src, "  {nm} : {} := {};", tys[i][2].name, tys[i][2].lit(3));
    }
    src.push_str("END_VAR\n");
    let _ = writeln!(src, "{}", tys[0][2].update(names[0]));
    src.push_str("Helper := a + DINT#1;\nEND_FUNCTION\n\nPROGRAM Line\nVAR\n  tank : Tank; tank2 : Tank; hv : DINT;\n");
    for (i, nm) in names.iter().enumerate() {
        if prog_has[i] {
            let _ = writeln!(src, "  {nm} : {} := {};", tys[i][3].name, tys[i][3].lit(4));
            decls.push((format!("Line.{nm}"), tys[i][3].tag.to_string()));
        }
    }
    src.push_str("END_VAR\ntank();\ntank2();\nhv := Helper(a := hv) MOD DINT#100;\n");
    for (i, nm) in names.iter().enumerate() {
        // the PROGRAM updates its own variable, or else the global of that name
        if prog_has[i] {
            let _ = writeln!(src, "{}", tys[i][3].update(nm));
        } else if glob_has[i] {
            let _ = writeln!(src, "{}", tys[i][0].update(nm));
        }
    }
    src.push_str("END_PROGRAM\n");
    decls.push(("Line.hv".to_string(), "DInt".to_string()));
    for t in ["tank", "tank2"] {
        for (i, nm) in names.iter().enumerate() {
            decls.push((format!("Line.{t}.{nm}"), tys[i][1].tag.to_string()));
        }
    }
    emit_head(out, n, "stream-debug-writes", &src, &decls);
    let compiled = std::panic::catch_unwind(|| TestHarness::from_source(&src));
    let mut h = match compiled {
        Err(_) => {
            out.line("obst panic frames=0");
            out.line("impl seen");
            out.line("end");
            return;
        }
        Ok(Err(e)) => {
            out.line(format!("# rejected: {}", e.to_string().replace('\n', " | ")));
            out.line("obst Rejected frames=0");
            out.line("impl seen");
            out.count("debug-rejected");
            out.line("end");
            return;
        }
        Ok(Ok(h)) => h,
    };
    let debug = h.runtime_mut().enable_debug();
    let dump = |h: &TestHarness| -> String {
        let storage = h.runtime().storage();
        let mut s = dump_programs(h, &["Line"]);
        for (name, value) in storage.globals().iter() {
            if !matches!(value, Value::Instance(_)) {
                let shown = {
                    let t = format!("{value:?}");
                    let head: String = t.chars().take_while(|c| c.is_alphanumeric()).collect();
                    match value {
                        Value::Bool(b) => format!("Bool:{}", *b as u8),
                        Value::SInt(x) => format!("SInt:{x}"),
                        Value::Int(x) => format!("Int:{x}"),
                        Value::DInt(x) => format!("DInt:{x}"),
                        Value::LInt(x) => format!("LInt:{x}"),
                        Value::UInt(x) => format!("UInt:{x}"),
                        _ => format!("{head}:0"),
                    }
                };
                let _ = write!(s, " G.{name}={shown}");
            }
        }
        s
    };
    let events = 7 + rng.below(6);
    let mut any_ok = false;
    for e in 0..events {
        let roll = if e == 0 { 0 } else { rng.below(10) };
        let i = rng.below(names.len() as u64) as usize;
        let nm = names[i];
        let val = rng.range(1, 90);
        let step = std::panic::catch_unwind(std::panic::AssertUnwindSafe(|| -> (String, String) {
            match roll {
                0..=3 => ("cycle".to_string(), run_cycle(&mut h)),
                4 | 5 => {
                    // prepared while paused in a frame of an earlier cycle (Tank body: FB type;
                    // Helper body: local type); the frame has returned
                    let in_helper = rng.chance(1, 3);
                    let t = if in_helper { tys[i][2] } else { tys[i][1] };
                    let fid = rng.below(12) as u32;
                    debug.enqueue_lvalue_write(Some(FrameId(fid)), Vec::new(), LValue::Name(nm.into()), t.value(val));
                    (format!("lvalue-write frame={fid} {nm} := {:?}", t.value(val)), "ok".to_string())
                }
                6 => {
                    let fid = rng.below(12) as u32;
                    let t = tys[i][2];
                    debug.enqueue_local_write(FrameId(fid), nm, t.value(val));
                    (format!("local-write frame={fid} {nm} := {:?}", t.value(val)), "ok".to_string())
                }
                7 if glob_has[i] => {
                    // resource scope: the target resolves to the global
                    let t = tys[i][0];
                    if rng.bool() {
                        debug.enqueue_lvalue_write(None, Vec::new(), LValue::Name(nm.into()), t.value(val));
                    } else {
                        debug.enqueue_global_write(nm, t.value(val));
                    }
                    (format!("global-write {nm} := {:?}", t.value(val)), "ok".to_string())
                }
                8 => {
                    // an instance variable of one of the blocks
                    let t = tys[i][1];
                    let storage = h.runtime().storage();
                    let inst = match storage.get_global("Line") {
                        Some(Value::Instance(p)) => match storage.get_instance_var(*p, if rng.bool() { "tank" } else { "tank2" }) {
                            Some(Value::Instance(t)) => Some(*t),
                            _ => None,
                        },
                        _ => None,
                    };
                    if let Some(id) = inst {
                        debug.enqueue_instance_write(id, nm, t.value(val));
                    }
                    (format!("instance-write {nm} := {:?}", t.value(val)), "ok".to_string())
                }
                _ => ("cycle".to_string(), run_cycle(&mut h)),
            }
        }));
        match step {
            Ok((what, outcome)) => {
                if what == "cycle" && outcome == "ok" {
                    any_ok = true;
                }
                out.count(&format!("debug-{}", what.split(' ').next().unwrap_or("")));
                out.line(format!("# event {what}"));
                out.line(format!("obst {outcome} {}", dump(&h)));
                out.line("impl seen");
            }
            Err(_) => {
                out.line("obst panic frames=0");
                out.line("impl seen");
                break;
            }
        }
    }
    // the writes are applied at a cycle boundary: two closing cycles
    for _ in 0..2 {
        let outcome = run_cycle(&mut h);
        out.line("# event cycle");
        out.line(format!("obst {outcome} {}", dump(&h)));
        out.line("impl seen");
    }
    if any_ok {
        out.line("tag nontrivial");
    }
    out.line("end");
}

// ------------------------------------------------------------------------------------------
// `array_offset` against its Lean model (Model/StArray.lean)
// ------------------------------------------------------------------------------------------

/// Where does element `[subs]` of `ARRAY[dims] OF DINT` live?  A marker is written through
/// variable subscripts and looked up in the array value.
fn observe_offset(dims: &[(i64, i64)], subs: &[i64]) -> String {
    use trust_runtime::value::Value;
    let dim_src: Vec<String> = dims.iter().map(|(l, u)| format!("{l}..{u}")).collect();
    let mut src = format!("PROGRAM P\nVAR\n  m : ARRAY[{}] OF DINT;\n", dim_src.join(", "));
    for (d, s) in subs.iter().enumerate() {
        let _ = writeln!(src, "  i{d} : LINT := LINT#{s};");
    }
    let ix: Vec<String> = (0..subs.len()).map(|d| format!("i{d}")).collect();
    let _ = write!(src, "END_VAR\nm[{}] := DINT#77;\nEND_PROGRAM\n", ix.join(", "));
    let compiled = std::panic::catch_unwind(|| TestHarness::from_source(&src));
    let mut h = match compiled {
        Ok(Ok(h)) => h,
        Ok(Err(e)) => return format!("Rejected:{}", e.to_string().split_whitespace().next().unwrap_or("")),
        Err(_) => return "compile-panic".to_string(),
    };
    let r = match std::panic::catch_unwind(std::panic::AssertUnwindSafe(|| h.cycle())) {
        Ok(r) => r,
        Err(_) => return "panic".to_string(),
    };
    if let Some(e) = r.errors.first() {
        let s = format!("{e:?}");
        let head: String = s.chars().take_while(|c| c.is_alphanumeric()).collect();
        // `IndexOutOfBounds { index: 2, lower: 0, upper: 1 }` -> IndexOutOfBounds:2:0:1
        let nums: Vec<String> = s
            .split(|c: char| !(c.is_ascii_digit() || c == '-'))
            .filter(|t| !t.is_empty() && t.chars().any(|c| c.is_ascii_digit()))
            .map(|t| t.to_string())
            .collect();
        return if nums.is_empty() { head } else { format!("{head}:{}", nums.join(":")) };
    }
    let storage = h.runtime().storage();
    if let Some(Value::Instance(id)) = storage.get_global("P") {
        if let Some(Value::Array(arr)) = storage.get_instance_var(*id, "m") {
            let hits: Vec<usize> = arr
                .elements
                .iter()
                .enumerate()
                .filter(|(_, v)| matches!(v, Value::DInt(77)))
                .map(|(i, _)| i)
                .collect();
            return match hits.as_slice() {
                [one] => format!("ok {one}"),
                [] => "marker-lost".to_string(),
                _ => "marker-duplicated".to_string(),
            };
        }
    }
    "no-array".to_string()
}

pub fn emit_aoff_case(out: &mut Out, seed: u64, n: u64) {
    let mut rng = Rng::for_case(seed, n);
    let nd = 1 + rng.below(3) as usize;
    let dims: Vec<(i64, i64)> = (0..nd)
        .map(|_| {
            let lo = rng.range(-3, 3);
            (lo, lo + rng.range(0, 4))
        })
        .collect();
    out.line(format!("case {n}"));
    out.line("tag stream-aoff");
    for q in 0..4 {
        // corners, interior points, and — every fourth query — one subscript just outside its own
        // dimension (inside a neighbouring one where the shapes allow it)
        let mut subs: Vec<i64> = dims
            .iter()
            .map(|(l, u)| match rng.below(3) {
                0 => *l,
                1 => *u,
                _ => rng.range(*l, *u),
            })
            .collect();
        if q == 3 || rng.chance(1, 6) {
            let d = rng.below(nd as u64) as usize;
            subs[d] = if rng.bool() { dims[d].1 + 1 + rng.range(0, 2) } else { dims[d].0 - 1 - rng.range(0, 2) };
            if rng.chance(1, 3) && nd > 1 {
                let e = (d + 1) % nd;
                subs[e] = if rng.bool() { dims[e].1 + 1 } else { dims[e].0 - 1 };
            }
        }
        let mut line = format!("aoff {nd}");
        for (l, u) in &dims {
            let _ = write!(line, " {l} {u}");
        }
        for s in &subs {
            let _ = write!(line, " {s}");
        }
        out.line(line);
        let obs = observe_offset(&dims, &subs);
        out.count(&format!("aoff-{}", obs.split([' ', ':']).next().unwrap_or("")));
        out.line(format!("impl {obs}"));
    }
    out.line("tag nontrivial");
    out.line("end");
}
