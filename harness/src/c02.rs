//! C02 — same ST-core machinery as C01 (`c01.rs`), generator mix biased towards programs the
//! IEC reference accepts (strict + natural profiles).
pub fn run(args: &crate::Args) -> i32 {
    crate::c01::run_focus(args, crate::c01::Focus::C02)
}
