//! C03 — same ST-core machinery as C01 (`c01.rs`), generator mix biased towards tag-stable
//! programs and more input writes between cycles.
pub fn run(args: &crate::Args) -> i32 {
    crate::c01::run_focus(args, crate::c01::Focus::C03)
}
