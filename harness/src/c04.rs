//! C04 — standard function blocks.  Runs the REAL code on generated traces through three routes:
//!
//! * **S**: the pub structs `Ton/Tof/Tp/Ctu/Ctd/Ctud/RTrig/FTrig/Sr/Rs::step` (one of each per case,
//!   calls interleaved);
//! * **X**: `stdlib::fbs::execute_builtin` (the `exec_*` wrappers) on instances of a bare
//!   `VariableStorage`, with an arbitrary `EvalContext.now` per call — reaches all eight integer
//!   kinds, unset instance variables, clock steps of any size and direction;
//! * **P**: generated ST programs with several FB instances (typed counter variants, `_LTIME`
//!   timers, alias names), several call sites per instance guarded by enable flags, run by
//!   `TestHarness` with `advance_time`; outputs are read from the bound output variables of every
//!   executed call site and from the instance variables of every instance after every cycle.
//!
//! The line protocol is described in `lean/TrustVerif/Drv/C04.lean`.

use crate::rng::Rng;
use crate::util::Out;
use crate::Args;
use std::panic::{catch_unwind, AssertUnwindSafe};
use trust_hir::types::TypeRegistry;
use trust_runtime::eval::EvalContext;
use trust_runtime::harness::TestHarness;
use trust_runtime::memory::{InstanceId, VariableStorage};
use trust_runtime::stdlib::fbs::{
    execute_builtin, BuiltinFbKind, Ctd, Ctu, Ctud, FTrig, RTrig, Rs, Sr, Tof, Ton, Tp,
};
use trust_runtime::value::{DateTimeProfile, Duration, Value};

// ------------------------------------------------------------------------------------------
// kinds
// ------------------------------------------------------------------------------------------

#[derive(Clone, Copy, Debug, PartialEq, Eq)]
pub enum Kind {
    Ton,
    Tof,
    Tp,
    Ctu,
    Ctd,
    Ctud,
    RTrig,
    FTrig,
    Sr,
    Rs,
}

const KINDS: [Kind; 10] = [
    Kind::Ton,
    Kind::Tof,
    Kind::Tp,
    Kind::Ctu,
    Kind::Ctd,
    Kind::Ctud,
    Kind::RTrig,
    Kind::FTrig,
    Kind::Sr,
    Kind::Rs,
];

impl Kind {
    fn name(self) -> &'static str {
        match self {
            Kind::Ton => "ton",
            Kind::Tof => "tof",
            Kind::Tp => "tp",
            Kind::Ctu => "ctu",
            Kind::Ctd => "ctd",
            Kind::Ctud => "ctud",
            Kind::RTrig => "rtrig",
            Kind::FTrig => "ftrig",
            Kind::Sr => "sr",
            Kind::Rs => "rs",
        }
    }
    fn builtin(self) -> BuiltinFbKind {
        match self {
            Kind::Ton => BuiltinFbKind::Ton,
            Kind::Tof => BuiltinFbKind::Tof,
            Kind::Tp => BuiltinFbKind::Tp,
            Kind::Ctu => BuiltinFbKind::Ctu,
            Kind::Ctd => BuiltinFbKind::Ctd,
            Kind::Ctud => BuiltinFbKind::Ctud,
            Kind::RTrig => BuiltinFbKind::RTrig,
            Kind::FTrig => BuiltinFbKind::FTrig,
            Kind::Sr => BuiltinFbKind::Sr,
            Kind::Rs => BuiltinFbKind::Rs,
        }
    }
    fn is_timer(self) -> bool {
        matches!(self, Kind::Ton | Kind::Tof | Kind::Tp)
    }
    fn is_counter(self) -> bool {
        matches!(self, Kind::Ctu | Kind::Ctd | Kind::Ctud)
    }
}

#[derive(Clone, Copy, Debug, PartialEq, Eq)]
pub enum IntK {
    SInt,
    Int,
    DInt,
    LInt,
    USInt,
    UInt,
    UDInt,
    ULInt,
}

const INTKS: [IntK; 8] = [
    IntK::SInt,
    IntK::Int,
    IntK::DInt,
    IntK::LInt,
    IntK::USInt,
    IntK::UInt,
    IntK::UDInt,
    IntK::ULInt,
];

impl IntK {
    fn name(self) -> &'static str {
        match self {
            IntK::SInt => "sint",
            IntK::Int => "int",
            IntK::DInt => "dint",
            IntK::LInt => "lint",
            IntK::USInt => "usint",
            IntK::UInt => "uint",
            IntK::UDInt => "udint",
            IntK::ULInt => "ulint",
        }
    }
    fn st_name(self) -> &'static str {
        match self {
            IntK::SInt => "SINT",
            IntK::Int => "INT",
            IntK::DInt => "DINT",
            IntK::LInt => "LINT",
            IntK::USInt => "USINT",
            IntK::UInt => "UINT",
            IntK::UDInt => "UDINT",
            IntK::ULInt => "ULINT",
        }
    }
    fn lo(self) -> i128 {
        match self {
            IntK::SInt => i8::MIN as i128,
            IntK::Int => i16::MIN as i128,
            IntK::DInt => i32::MIN as i128,
            IntK::LInt => i64::MIN as i128,
            _ => 0,
        }
    }
    fn hi(self) -> i128 {
        match self {
            IntK::SInt => i8::MAX as i128,
            IntK::Int => i16::MAX as i128,
            IntK::DInt => i32::MAX as i128,
            IntK::LInt => i64::MAX as i128,
            IntK::USInt => u8::MAX as i128,
            IntK::UInt => u16::MAX as i128,
            IntK::UDInt => u32::MAX as i128,
            IntK::ULInt => u64::MAX as i128,
        }
    }
    fn value(self, v: i128) -> Value {
        match self {
            IntK::SInt => Value::SInt(v as i8),
            IntK::Int => Value::Int(v as i16),
            IntK::DInt => Value::DInt(v as i32),
            IntK::LInt => Value::LInt(v as i64),
            IntK::USInt => Value::USInt(v as u8),
            IntK::UInt => Value::UInt(v as u16),
            IntK::UDInt => Value::UDInt(v as u32),
            IntK::ULInt => Value::ULInt(v as u64),
        }
    }
}

fn b(x: bool) -> char {
    if x {
        '1'
    } else {
        '0'
    }
}

// ------------------------------------------------------------------------------------------
// input generators (shared by the three routes)
// ------------------------------------------------------------------------------------------

fn draw_pt(rng: &mut Rng) -> i64 {
    match rng.below(100) {
        0..=7 => 0,
        8..=11 => -1,
        12..=13 => -rng.range(2, 1000),
        14 => i64::MIN,
        15..=19 => 1,
        20..=69 => rng.range(2, 60),
        70..=79 => rng.range(1000, 100_000),
        80..=84 => i64::MAX,
        85..=87 => i64::MAX - 1,
        _ => rng.range(2, 12),
    }
}

/// Generator state of one timer instance; `last_et/last_q` feed back the implementation's answer so
/// that the next delta can land exactly on (or one nanosecond around) PT.
#[derive(Clone, Debug)]
struct TimerGen {
    inp: bool,
    pt: i64,
    last_et: i64,
    last_q: bool,
    prev_in: bool,
    flip: u64,
}

impl TimerGen {
    fn new(rng: &mut Rng) -> Self {
        TimerGen {
            inp: rng.chance(1, 4),
            pt: draw_pt(rng),
            last_et: 0,
            last_q: false,
            prev_in: false,
            flip: [10, 25, 25, 40, 60][rng.below(5) as usize],
        }
    }
    /// Next (IN, PT, dt).  `extreme` allows deltas that overflow an i64 accumulator.
    fn next(&mut self, rng: &mut Rng, extreme: bool, out: &mut Out) -> (bool, i64, i64) {
        self.prev_in = self.inp;
        if rng.chance(self.flip, 100) {
            self.inp = !self.inp;
        }
        if rng.chance(7, 100) {
            let old = self.pt;
            self.pt = match rng.below(6) {
                0 => draw_pt(rng),
                1 => self.pt.saturating_add(1),
                2 => self.pt.saturating_sub(1),
                3 => self.last_et,
                4 => self.last_et.saturating_add(rng.range(-2, 2)),
                _ => self.pt.saturating_mul(2),
            };
            if self.pt != old {
                out.count("timer_pt_changed");
                if self.last_et > 0 {
                    out.count("timer_pt_changed_while_timing");
                }
            }
        }
        let ptn = self.pt.max(0);
        let remaining = ptn.saturating_sub(self.last_et);
        let dt = match rng.below(100) {
            0..=13 => 0,
            14..=22 => 1,
            23..=52 => rng.range(1, (ptn / 3).clamp(1, 1000)),
            53..=67 => {
                if remaining > 0 {
                    out.count("timer_dt_exactly_remaining");
                    remaining
                } else {
                    rng.range(0, 5)
                }
            }
            68..=73 => (remaining - 1).max(0),
            74..=79 => remaining.saturating_add(1),
            80..=91 => rng.range(0, 20),
            92..=95 => ptn.saturating_mul(2).min(1 << 40),
            96..=97 => ptn,
            _ => {
                if extreme {
                    out.count("timer_dt_extreme");
                    *rng.pick(&[i64::MAX, i64::MAX / 2 + 1, 1 << 62, -3, -1])
                } else {
                    rng.range(0, 100)
                }
            }
        };
        if dt == 0 {
            out.count("timer_dt_zero");
        }
        (self.inp, self.pt, dt)
    }
    fn feed(&mut self, kind: Kind, q: bool, et: i64, out: &mut Out) -> bool {
        let mut interesting = false;
        if q != self.last_q {
            interesting = true;
            out.count("timer_q_changed");
        }
        if et != 0 && et == self.pt.max(0) {
            out.count("timer_et_reached_pt");
        }
        if kind == Kind::Tp && self.last_q && self.inp && !self.prev_in {
            out.count("tp_rising_edge_inside_pulse");
        }
        self.last_q = q;
        self.last_et = et;
        interesting
    }
}

fn draw_pv(rng: &mut Rng, k: IntK) -> i128 {
    let (lo, hi) = (k.lo(), k.hi());
    let v = match rng.below(100) {
        0..=7 => lo,
        8..=12 => lo + 1,
        13..=17 => -1,
        18..=27 => 0,
        28..=37 => 1,
        38..=52 => rng.range(2, 5) as i128,
        53..=60 => hi,
        61..=68 => hi - 1,
        69..=72 => hi - 2,
        73..=77 => lo + 2,
        _ => rng.range(-6, 12) as i128,
    };
    v.clamp(lo, hi)
}

#[derive(Clone, Debug)]
struct CounterGen {
    k: IntK,
    pv: i128,
    cu: bool,
    cd: bool,
    last_cv: i128,
}

impl CounterGen {
    fn new(rng: &mut Rng, k: IntK) -> Self {
        CounterGen {
            k,
            pv: draw_pv(rng, k),
            cu: false,
            cd: false,
            last_cv: 0,
        }
    }
    /// Next (CU, CD, R, LD, PV).
    fn next(&mut self, rng: &mut Rng) -> (bool, bool, bool, bool, i128) {
        if rng.chance(55, 100) {
            self.cu = !self.cu;
        }
        if rng.chance(45, 100) {
            self.cd = !self.cd;
        }
        if rng.chance(12, 100) {
            self.pv = draw_pv(rng, self.k);
        }
        let r = rng.chance(6, 100);
        let ld = rng.chance(9, 100);
        (self.cu, self.cd, r, ld, self.pv)
    }
    fn feed(&mut self, cv: i128, out: &mut Out) -> bool {
        let mut interesting = false;
        if cv == self.k.hi() {
            out.count("counter_at_max");
            interesting = true;
        }
        if cv == self.k.lo() && self.k.lo() != 0 {
            out.count("counter_at_min");
            interesting = true;
        }
        if cv == 0 && self.last_cv == 0 && self.k.lo() == 0 {
            out.count("unsigned_counter_held_at_zero");
        }
        if cv != self.last_cv {
            interesting = true;
        }
        self.last_cv = cv;
        interesting
    }
}

// ------------------------------------------------------------------------------------------
// route S: pub structs
// ------------------------------------------------------------------------------------------

/// Runs one call of the code under test; a panic is an observation (`impl panic`).
fn guard<T>(f: impl FnOnce() -> T) -> Option<T> {
    catch_unwind(AssertUnwindSafe(f)).ok()
}

fn timer_answer(res: std::thread::Result<(bool, i64)>) -> (String, Option<(bool, i64)>) {
    match res {
        Ok((q, et)) => (format!("q{}e{}", b(q), et), Some((q, et))),
        Err(_) => ("panic".to_string(), None),
    }
}

fn run_s(rng: &mut Rng, steps: usize, out: &mut Out) -> bool {
    let mut nontrivial = false;
    let mut ton = Ton::new();
    let mut tof = Tof::new();
    let mut tp = Tp::new();
    let mut ctu = Ctu::new();
    let mut ctd = Ctd::new();
    let mut ctud = Ctud::new();
    let mut rtrig = RTrig::new();
    let mut ftrig = FTrig::new();
    let mut sr = Sr::new();
    let mut rs = Rs::new();
    let mut tg: Vec<TimerGen> = (0..3).map(|_| TimerGen::new(rng)).collect();
    let mut cg: Vec<CounterGen> = (0..3).map(|_| CounterGen::new(rng, IntK::Int)).collect();
    let mut clk = [false; 2];
    let mut dead = [false; 3];
    // a case concentrates on a few kinds so that each sees a long trace
    let nfocus = 1 + rng.below(4) as usize;
    let focus: Vec<Kind> = (0..nfocus).map(|_| *rng.pick(&KINDS)).collect();
    let extreme = rng.chance(1, 12);
    if rng.chance(1, 15) {
        // saturation of the i16 up-counters needs 32767 pulses: one burst op
        let n = rng.range(32_765, 32_770);
        let pv = draw_pv(rng, IntK::Int) as i16;
        if rng.bool() {
            out.line(format!("sburst ctu {n} {pv}"));
            let res = guard(|| {
                let mut last = None;
                for _ in 0..n {
                    ctu.step(true, false, pv);
                    last = Some(ctu.step(false, false, pv));
                }
                last.unwrap()
            });
            match res {
                Some(o) => {
                    out.line(format!("impl q{}v{}", b(o.q), o.cv));
                    cg[0].feed(o.cv as i128, out);
                }
                None => {
                    out.line("impl panic");
                    return true;
                }
            }
        } else {
            out.line(format!("sburst ctud {n} {pv}"));
            let res = guard(|| {
                let mut last = None;
                for _ in 0..n {
                    ctud.step(true, false, false, false, pv);
                    last = Some(ctud.step(false, false, false, false, pv));
                }
                last.unwrap()
            });
            match res {
                Some(o) => {
                    out.line(format!("impl u{}d{}v{}", b(o.qu), b(o.qd), o.cv));
                    cg[2].feed(o.cv as i128, out);
                }
                None => {
                    out.line("impl panic");
                    return true;
                }
            }
        }
        out.count("s_burst");
        nontrivial = true;
    }
    for _ in 0..steps {
        let kind = *rng.pick(&focus);
        out.count(&format!("s_call_{}", kind.name()));
        match kind {
            Kind::Ton | Kind::Tof | Kind::Tp => {
                let i = match kind {
                    Kind::Ton => 0,
                    Kind::Tof => 1,
                    _ => 2,
                };
                if dead[i] {
                    continue;
                }
                let (inp, pt, dt) = tg[i].next(rng, extreme, out);
                out.line(format!("s {} {} {} {}", kind.name(), b(inp), pt, dt));
                let (ptd, dtd) = (Duration::from_nanos(pt), Duration::from_nanos(dt));
                let res = catch_unwind(AssertUnwindSafe(|| {
                    let o = match kind {
                        Kind::Ton => ton.step(inp, ptd, dtd),
                        Kind::Tof => tof.step(inp, ptd, dtd),
                        _ => tp.step(inp, ptd, dtd),
                    };
                    (o.q, o.et.as_nanos())
                }));
                let (text, val) = timer_answer(res);
                out.line(format!("impl {text}"));
                match val {
                    Some((q, et)) => nontrivial |= tg[i].feed(kind, q, et, out),
                    None => {
                        // the struct may be half-updated after a panic: stop using it
                        dead[i] = true;
                        out.count("s_timer_panic");
                    }
                }
            }
            Kind::Ctu => {
                let (cu, _, r, _, pv) = cg[0].next(rng);
                out.line(format!("s ctu {} {} {}", b(cu), b(r), pv));
                match guard(|| ctu.step(cu, r, pv as i16)) {
                    Some(o) => {
                        out.line(format!("impl q{}v{}", b(o.q), o.cv));
                        nontrivial |= cg[0].feed(o.cv as i128, out);
                    }
                    None => {
                        out.line("impl panic");
                        return true;
                    }
                }
            }
            Kind::Ctd => {
                let (_, cd, _, ld, pv) = cg[1].next(rng);
                out.line(format!("s ctd {} {} {}", b(cd), b(ld), pv));
                match guard(|| ctd.step(cd, ld, pv as i16)) {
                    Some(o) => {
                        out.line(format!("impl q{}v{}", b(o.q), o.cv));
                        nontrivial |= cg[1].feed(o.cv as i128, out);
                    }
                    None => {
                        out.line("impl panic");
                        return true;
                    }
                }
            }
            Kind::Ctud => {
                let (cu, cd, r, ld, pv) = cg[2].next(rng);
                out.line(format!("s ctud {} {} {} {} {}", b(cu), b(cd), b(r), b(ld), pv));
                match guard(|| ctud.step(cu, cd, r, ld, pv as i16)) {
                    Some(o) => {
                        out.line(format!("impl u{}d{}v{}", b(o.qu), b(o.qd), o.cv));
                        nontrivial |= cg[2].feed(o.cv as i128, out);
                    }
                    None => {
                        out.line("impl panic");
                        return true;
                    }
                }
            }
            Kind::RTrig | Kind::FTrig => {
                let i = (kind == Kind::FTrig) as usize;
                if rng.chance(45, 100) {
                    clk[i] = !clk[i];
                }
                out.line(format!("s {} {}", kind.name(), b(clk[i])));
                let c = clk[i];
                match guard(|| if i == 0 { rtrig.step(c) } else { ftrig.step(c) }) {
                    Some(q) => {
                        out.line(format!("impl q{}", b(q)));
                        nontrivial |= q;
                    }
                    None => {
                        out.line("impl panic");
                        return true;
                    }
                }
            }
            Kind::Sr | Kind::Rs => {
                let (s, r) = (rng.chance(35, 100), rng.chance(35, 100));
                out.line(format!("s {} {} {}", kind.name(), b(s), b(r)));
                match guard(|| if kind == Kind::Sr { sr.step(s, r) } else { rs.step(s, r) }) {
                    Some(q) => {
                        out.line(format!("impl q{}", b(q)));
                        nontrivial |= s && r;
                    }
                    None => {
                        out.line("impl panic");
                        return true;
                    }
                }
            }
        }
    }
    nontrivial
}

// ------------------------------------------------------------------------------------------
// route X: execute_builtin on a bare VariableStorage
// ------------------------------------------------------------------------------------------

fn make_ctx<'a>(storage: &'a mut VariableStorage, registry: &'a TypeRegistry, now: i64) -> EvalContext<'a> {
    EvalContext {
        storage,
        registry,
        profile: DateTimeProfile::default(),
        now: Duration::from_nanos(now),
        debug: None,
        call_depth: 0,
        functions: None,
        stdlib: None,
        function_blocks: None,
        classes: None,
        using: None,
        access: None,
        current_instance: None,
        return_name: None,
        loop_depth: 0,
        pause_requested: false,
        execution_deadline: None,
    }
}

fn var_bool(st: &VariableStorage, id: InstanceId, name: &str) -> Result<bool, String> {
    match st.get_instance_var(id, name) {
        Some(Value::Bool(v)) => Ok(*v),
        // an unset output reads as the type's default, as the wrappers themselves do
        None | Some(Value::Null) => Ok(false),
        other => Err(format!("{name}={other:?}")),
    }
}

fn var_time(st: &VariableStorage, id: InstanceId, name: &str) -> Result<i64, String> {
    match st.get_instance_var(id, name) {
        Some(Value::Time(v)) | Some(Value::LTime(v)) => Ok(v.as_nanos()),
        None | Some(Value::Null) => Ok(0),
        other => Err(format!("{name}={other:?}")),
    }
}

fn value_int(v: Option<&Value>) -> Result<i128, String> {
    match v {
        Some(Value::SInt(v)) => Ok(*v as i128),
        Some(Value::Int(v)) => Ok(*v as i128),
        Some(Value::DInt(v)) => Ok(*v as i128),
        Some(Value::LInt(v)) => Ok(*v as i128),
        Some(Value::USInt(v)) => Ok(*v as i128),
        Some(Value::UInt(v)) => Ok(*v as i128),
        Some(Value::UDInt(v)) => Ok(*v as i128),
        Some(Value::ULInt(v)) => Ok(*v as i128),
        None | Some(Value::Null) => Ok(0),
        other => Err(format!("{other:?}")),
    }
}

/// Stored outputs of an instance, in the canonical form of the protocol.
fn dump_instance(st: &VariableStorage, id: InstanceId, kind: Kind) -> String {
    let r: Result<String, String> = (|| {
        Ok(match kind {
            Kind::Ton | Kind::Tof | Kind::Tp => {
                format!("q{}e{}", b(var_bool(st, id, "Q")?), var_time(st, id, "ET")?)
            }
            Kind::Ctu | Kind::Ctd => format!(
                "q{}v{}",
                b(var_bool(st, id, "Q")?),
                value_int(st.get_instance_var(id, "CV"))?
            ),
            Kind::Ctud => format!(
                "u{}d{}v{}",
                b(var_bool(st, id, "QU")?),
                b(var_bool(st, id, "QD")?),
                value_int(st.get_instance_var(id, "CV"))?
            ),
            Kind::RTrig | Kind::FTrig => format!("q{}", b(var_bool(st, id, "Q")?)),
            Kind::Sr | Kind::Rs => format!("q{}", b(var_bool(st, id, "Q1")?)),
        })
    })();
    r.unwrap_or_else(|e| format!("bad:{e}"))
}

/// What a generated instance is: kind, integer kind (counters), LTIME flavour (timers), and the
/// generator state of its inputs.
struct InstGen {
    kind: Kind,
    ik: IntK,
    ltime: bool,
    tg: Option<TimerGen>,
    cg: Option<CounterGen>,
    clk: bool,
    dead: bool,
}

impl InstGen {
    fn new(rng: &mut Rng, kind: Kind, ik: IntK) -> Self {
        InstGen {
            kind,
            ik,
            ltime: rng.chance(1, 3),
            tg: kind.is_timer().then(|| TimerGen::new(rng)),
            cg: kind.is_counter().then(|| CounterGen::new(rng, ik)),
            clk: false,
            dead: false,
        }
    }
    fn decl(&self) -> String {
        format!(
            "inst {} {}",
            self.kind.name(),
            if self.kind.is_counter() { self.ik.name() } else { "-" }
        )
    }
}

/// Generated inputs of one call: protocol text and the values to store in the instance / program.
struct CallInputs {
    text: String,
    vars: Vec<(&'static str, Value)>,
    dt: i64,
}

fn gen_inputs(rng: &mut Rng, g: &mut InstGen, extreme: bool, out: &mut Out) -> CallInputs {
    match g.kind {
        Kind::Ton | Kind::Tof | Kind::Tp => {
            let (inp, pt, dt) = g.tg.as_mut().unwrap().next(rng, extreme, out);
            let ptv = if g.ltime {
                Value::LTime(Duration::from_nanos(pt))
            } else {
                Value::Time(Duration::from_nanos(pt))
            };
            CallInputs {
                text: format!("{} {}", b(inp), pt),
                vars: vec![("IN", Value::Bool(inp)), ("PT", ptv)],
                dt,
            }
        }
        Kind::Ctu => {
            let (cu, _, r, _, pv) = g.cg.as_mut().unwrap().next(rng);
            CallInputs {
                text: format!("{} {} {}", b(cu), b(r), pv),
                vars: vec![("CU", Value::Bool(cu)), ("R", Value::Bool(r)), ("PV", g.ik.value(pv))],
                dt: rng.range(0, 5),
            }
        }
        Kind::Ctd => {
            let (_, cd, _, ld, pv) = g.cg.as_mut().unwrap().next(rng);
            CallInputs {
                text: format!("{} {} {}", b(cd), b(ld), pv),
                vars: vec![("CD", Value::Bool(cd)), ("LD", Value::Bool(ld)), ("PV", g.ik.value(pv))],
                dt: rng.range(0, 5),
            }
        }
        Kind::Ctud => {
            let (cu, cd, r, ld, pv) = g.cg.as_mut().unwrap().next(rng);
            CallInputs {
                text: format!("{} {} {} {} {}", b(cu), b(cd), b(r), b(ld), pv),
                vars: vec![
                    ("CU", Value::Bool(cu)),
                    ("CD", Value::Bool(cd)),
                    ("R", Value::Bool(r)),
                    ("LD", Value::Bool(ld)),
                    ("PV", g.ik.value(pv)),
                ],
                dt: rng.range(0, 5),
            }
        }
        Kind::RTrig | Kind::FTrig => {
            if rng.chance(45, 100) {
                g.clk = !g.clk;
            }
            CallInputs {
                text: format!("{}", b(g.clk)),
                vars: vec![("CLK", Value::Bool(g.clk))],
                dt: rng.range(0, 5),
            }
        }
        Kind::Sr => {
            let (s, r) = (rng.chance(35, 100), rng.chance(35, 100));
            CallInputs {
                text: format!("{} {}", b(s), b(r)),
                vars: vec![("S1", Value::Bool(s)), ("R", Value::Bool(r))],
                dt: rng.range(0, 5),
            }
        }
        Kind::Rs => {
            let (s, r) = (rng.chance(35, 100), rng.chance(35, 100));
            CallInputs {
                text: format!("{} {}", b(s), b(r)),
                vars: vec![("S", Value::Bool(s)), ("R1", Value::Bool(r))],
                dt: rng.range(0, 5),
            }
        }
    }
}

/// Feeds an answer token (`q1e5`, `q0v3`, `u1d0v2`, `q1`) back into the instance's generator.
fn feed_answer(g: &mut InstGen, token: &str, out: &mut Out) -> bool {
    match g.kind {
        Kind::Ton | Kind::Tof | Kind::Tp => {
            if let Some((q, et)) = token.strip_prefix('q').and_then(|t| {
                let (q, et) = t.split_once('e')?;
                Some((q == "1", et.parse::<i64>().ok()?))
            }) {
                return g.tg.as_mut().unwrap().feed(g.kind, q, et, out);
            }
            false
        }
        Kind::Ctu | Kind::Ctd | Kind::Ctud => {
            if let Some(cv) = token.rsplit_once('v').and_then(|(_, v)| v.parse::<i128>().ok()) {
                return g.cg.as_mut().unwrap().feed(cv, out);
            }
            false
        }
        Kind::RTrig | Kind::FTrig => token == "q1",
        Kind::Sr | Kind::Rs => false,
    }
}

fn preset_cv(rng: &mut Rng, k: IntK) -> i128 {
    let (lo, hi) = (k.lo(), k.hi());
    *rng.pick(&[hi, hi - 1, hi - 2, hi - 3, lo, lo + 1, lo + 2, lo + 3, 1, 2])
}

fn run_x(rng: &mut Rng, steps: usize, out: &mut Out) -> bool {
    let mut nontrivial = false;
    let registry = TypeRegistry::new();
    let mut storage = VariableStorage::new();
    let n = 1 + rng.below(5) as usize;
    let mut gens: Vec<InstGen> = Vec::new();
    let mut ids: Vec<InstanceId> = Vec::new();
    for _ in 0..n {
        let kind = *rng.pick(&KINDS);
        let ik = *rng.pick(&INTKS);
        let g = InstGen::new(rng, kind, ik);
        out.line(g.decl());
        out.count(&format!("x_inst_{}", kind.name()));
        if kind.is_counter() {
            out.count(&format!("x_counter_kind_{}", ik.name()));
        }
        ids.push(storage.create_instance(kind.name().to_ascii_uppercase()));
        gens.push(g);
    }
    for (i, g) in gens.iter_mut().enumerate() {
        if g.kind.is_counter() && rng.chance(45, 100) {
            let v = preset_cv(rng, g.ik);
            storage.set_instance_var(ids[i], "CV", g.ik.value(v));
            out.line(format!("setcv {i} {v}"));
            g.cg.as_mut().unwrap().last_cv = v;
            out.count("x_preset_cv");
        }
    }
    // the clock: arbitrary origin (also negative / close to the i64 limits), rare backward steps
    let mut now: i64 = match rng.below(10) {
        0 => 0,
        1 => rng.range(-1_000_000, -1),
        2 => i64::MAX - rng.range(0, 5000),
        3 => i64::MIN + rng.range(0, 5000),
        _ => rng.range(0, 1_000_000_000),
    };
    let wild_clock = rng.chance(1, 10);
    for step in 0..steps {
        let i = rng.below(n as u64) as usize;
        if gens[i].dead {
            continue;
        }
        let kind = gens[i].kind;
        let inputs = gen_inputs(rng, &mut gens[i], false, out);
        // advance the shared clock by the delta the instance's generator asked for
        let mut dt = inputs.dt;
        if wild_clock && rng.chance(1, 6) {
            dt = *rng.pick(&[-1, -1000, i64::MIN / 2, i64::MAX / 2, i64::MAX]);
            out.count("x_wild_clock_step");
        } else if rng.chance(2, 100) {
            dt = -rng.range(1, 50);
            out.count("x_clock_step_back");
        }
        now = now.saturating_add(dt);
        for (name, v) in &inputs.vars {
            storage.set_instance_var(ids[i], *name, v.clone());
        }
        out.line(format!("call {i} {now} {}", inputs.text));
        out.count(&format!("x_call_{}", kind.name()));
        let res = catch_unwind(AssertUnwindSafe(|| {
            let mut ctx = make_ctx(&mut storage, &registry, now);
            execute_builtin(&mut ctx, ids[i], kind.builtin())
        }));
        match res {
            Ok(Ok(())) => {
                let token = dump_instance(&storage, ids[i], kind);
                out.line(format!("impl {token}"));
                nontrivial |= feed_answer(&mut gens[i], &token, out);
            }
            Ok(Err(e)) => {
                out.line(format!("impl error:{e:?}"));
                out.count("x_error");
            }
            Err(_) => {
                out.line("impl panic");
                out.count("x_panic");
                gens[i].dead = true;
            }
        }
        if step % 4 == 3 || step + 1 == steps {
            out.line("obs");
            let dumps: Vec<String> = (0..n).map(|j| dump_instance(&storage, ids[j], gens[j].kind)).collect();
            out.line(format!("impl - | {}", dumps.join(" ")));
        }
    }
    nontrivial
}

// ------------------------------------------------------------------------------------------
// route P: ST programs through TestHarness
// ------------------------------------------------------------------------------------------

/// FB type name used in the ST source for an instance (aliases and typed variants included).
fn st_type(rng: &mut Rng, g: &InstGen) -> String {
    match g.kind {
        Kind::Ton | Kind::Tof | Kind::Tp => {
            let base = g.kind.name().to_ascii_uppercase();
            if g.ltime {
                format!("{base}_LTIME")
            } else {
                base
            }
        }
        Kind::Ctu | Kind::Ctd | Kind::Ctud => {
            let base = g.kind.name().to_ascii_uppercase();
            // the generic block accepts INT/DINT/LINT/UDINT/ULINT; the typed variants fix the type
            if rng.bool() {
                base
            } else {
                format!("{base}_{}", g.ik.st_name())
            }
        }
        Kind::RTrig => (*rng.pick(&["R_TRIG", "R_TRIG", "DIFU"])).to_string(),
        Kind::FTrig => (*rng.pick(&["F_TRIG", "F_TRIG", "DIFD"])).to_string(),
        Kind::Sr => "SR".into(),
        Kind::Rs => "RS".into(),
    }
}

/// ST types of the inputs / outputs of a kind: (parameter, variable prefix, ST type).
fn st_params(g: &InstGen) -> (Vec<(&'static str, String)>, Vec<(&'static str, String)>) {
    let t = |s: &str| s.to_string();
    let time = if g.ltime { t("LTIME") } else { t("TIME") };
    let int = t(g.ik.st_name());
    match g.kind {
        Kind::Ton | Kind::Tof | Kind::Tp => (
            vec![("IN", t("BOOL")), ("PT", time.clone())],
            vec![("Q", t("BOOL")), ("ET", time)],
        ),
        Kind::Ctu => (
            vec![("CU", t("BOOL")), ("R", t("BOOL")), ("PV", int.clone())],
            vec![("Q", t("BOOL")), ("CV", int)],
        ),
        Kind::Ctd => (
            vec![("CD", t("BOOL")), ("LD", t("BOOL")), ("PV", int.clone())],
            vec![("Q", t("BOOL")), ("CV", int)],
        ),
        Kind::Ctud => (
            vec![
                ("CU", t("BOOL")),
                ("CD", t("BOOL")),
                ("R", t("BOOL")),
                ("LD", t("BOOL")),
                ("PV", int.clone()),
            ],
            vec![("QU", t("BOOL")), ("QD", t("BOOL")), ("CV", int)],
        ),
        Kind::RTrig | Kind::FTrig => (vec![("CLK", t("BOOL"))], vec![("Q", t("BOOL"))]),
        Kind::Sr => (vec![("S1", t("BOOL")), ("R", t("BOOL"))], vec![("Q1", t("BOOL"))]),
        Kind::Rs => (vec![("S", t("BOOL")), ("R1", t("BOOL"))], vec![("Q1", t("BOOL"))]),
    }
}

/// The answer of a call as bound to the call site's output variables.
fn site_answer(st: &VariableStorage, pid: InstanceId, site: usize, kind: Kind) -> String {
    let r: Result<String, String> = (|| {
        let q = |p: &str| var_bool(st, pid, &format!("o{site}_{p}"));
        Ok(match kind {
            Kind::Ton | Kind::Tof | Kind::Tp => {
                format!("q{}e{}", b(q("Q")?), var_time(st, pid, &format!("o{site}_ET"))?)
            }
            Kind::Ctu | Kind::Ctd => format!(
                "q{}v{}",
                b(q("Q")?),
                value_int(st.get_instance_var(pid, &format!("o{site}_CV")))?
            ),
            Kind::Ctud => format!(
                "u{}d{}v{}",
                b(q("QU")?),
                b(q("QD")?),
                value_int(st.get_instance_var(pid, &format!("o{site}_CV")))?
            ),
            Kind::RTrig | Kind::FTrig => format!("q{}", b(q("Q")?)),
            Kind::Sr | Kind::Rs => format!("q{}", b(q("Q1")?)),
        })
    })();
    r.unwrap_or_else(|e| format!("bad:{e}"))
}

const P_INTKS: [IntK; 5] = [IntK::Int, IntK::DInt, IntK::LInt, IntK::UDInt, IntK::ULInt];

fn run_p(rng: &mut Rng, cycles: usize, out: &mut Out) -> Result<bool, String> {
    let mut nontrivial = false;
    let n = 2 + rng.below(5) as usize;
    let mut gens: Vec<InstGen> = Vec::new();
    let mut types: Vec<String> = Vec::new();
    for _ in 0..n {
        let kind = *rng.pick(&KINDS);
        let ik = *rng.pick(&P_INTKS);
        let g = InstGen::new(rng, kind, ik);
        types.push(st_type(rng, &g));
        gens.push(g);
    }
    // call sites: every instance at least once, some twice, in shuffled program order
    let mut sites: Vec<usize> = (0..n).collect();
    for i in 0..n {
        if rng.chance(1, 3) {
            sites.push(i);
        }
    }
    for i in (1..sites.len()).rev() {
        let j = rng.below(i as u64 + 1) as usize;
        sites.swap(i, j);
    }
    // some instances live inside a user-defined wrapper FUNCTION_BLOCK (one wrapper type per FB type,
    // shared by all wrapped instances of that type), so that nested instance storage is exercised too
    let wrapped: Vec<bool> = (0..n).map(|_| rng.chance(1, 3)).collect();
    let mut wrappers: std::collections::BTreeMap<String, String> = Default::default();
    let mut decl_types: Vec<String> = Vec::new();
    for i in 0..n {
        if !wrapped[i] {
            decl_types.push(types[i].clone());
            continue;
        }
        let (ins, outs) = st_params(&gens[i]);
        let sig: String = ins.iter().chain(outs.iter()).map(|(_, ty)| &ty[..2]).collect();
        let wname = format!("W_{}_{}", types[i], sig);
        if !wrappers.contains_key(&wname) {
            let mut w = format!("FUNCTION_BLOCK {wname}\nVAR_INPUT\n");
            for (p, ty) in &ins {
                w.push_str(&format!("  a_{p} : {ty};\n"));
            }
            w.push_str("END_VAR\nVAR_OUTPUT\n");
            for (p, ty) in &outs {
                w.push_str(&format!("  b_{p} : {ty};\n"));
            }
            w.push_str(&format!("END_VAR\nVAR\n  f : {};\nEND_VAR\n", types[i]));
            let mut args: Vec<String> = ins.iter().map(|(p, _)| format!("{p} := a_{p}")).collect();
            args.extend(outs.iter().map(|(p, _)| format!("{p} => b_{p}")));
            w.push_str(&format!("f({});\nEND_FUNCTION_BLOCK\n\n", args.join(", ")));
            wrappers.insert(wname.clone(), w);
        }
        decl_types.push(wname);
        out.count("p_wrapped_instance");
    }
    let mut src: String = wrappers.values().cloned().collect();
    src.push_str("PROGRAM P\nVAR\n");
    for (i, t) in decl_types.iter().enumerate() {
        src.push_str(&format!("  f{i} : {t};\n"));
    }
    for (s, &i) in sites.iter().enumerate() {
        let (ins, outs) = st_params(&gens[i]);
        src.push_str(&format!("  g{s} : BOOL;\n"));
        for (p, ty) in &ins {
            src.push_str(&format!("  i{s}_{p} : {ty};\n"));
        }
        for (p, ty) in &outs {
            src.push_str(&format!("  o{s}_{p} : {ty};\n"));
        }
    }
    src.push_str("END_VAR\n");
    for (s, &i) in sites.iter().enumerate() {
        let (ins, outs) = st_params(&gens[i]);
        let (pi, po) = if wrapped[i] { ("a_", "b_") } else { ("", "") };
        let mut args: Vec<String> = ins.iter().map(|(p, _)| format!("{pi}{p} := i{s}_{p}")).collect();
        args.extend(outs.iter().map(|(p, _)| format!("{po}{p} => o{s}_{p}")));
        src.push_str(&format!("IF g{s} THEN f{i}({}); END_IF;\n", args.join(", ")));
    }
    src.push_str("END_PROGRAM\n");
    let mut h = TestHarness::from_source(&src).map_err(|e| format!("compile: {e}\n{src}"))?;
    let pid = match h.runtime().storage().get_global("P") {
        Some(Value::Instance(id)) => *id,
        other => return Err(format!("program instance: {other:?}")),
    };
    let mut ids = Vec::new();
    for i in 0..n {
        let outer = match h.runtime().storage().get_instance_var(pid, &format!("f{i}")) {
            Some(Value::Instance(id)) => *id,
            other => return Err(format!("fb instance f{i}: {other:?}")),
        };
        if wrapped[i] {
            match h.runtime().storage().get_instance_var(outer, "f") {
                Some(Value::Instance(id)) => ids.push(*id),
                other => return Err(format!("nested fb instance f{i}.f: {other:?}")),
            }
        } else {
            ids.push(outer);
        }
    }
    for (g, t) in gens.iter().zip(&types) {
        out.line(g.decl());
        out.count(&format!("p_inst_{t}"));
    }
    for (i, g) in gens.iter_mut().enumerate() {
        if g.kind.is_counter() && rng.chance(45, 100) {
            let v = preset_cv(rng, g.ik);
            h.runtime_mut().storage_mut().set_instance_var(ids[i], "CV", g.ik.value(v));
            out.line(format!("setcv {i} {v}"));
            g.cg.as_mut().unwrap().last_cv = v;
            out.count("p_preset_cv");
        }
    }
    // start the runtime clock somewhere (possibly close to the i64 limit)
    let start: i64 = match rng.below(8) {
        0 => 0,
        1 => i64::MAX - rng.range(100_000, 200_000),
        _ => rng.range(0, 1_000_000_000),
    };
    h.advance_time(Duration::from_nanos(start));
    for _ in 0..cycles {
        // inputs of the enabled sites; the cycle's clock step is the delta wanted by one of them
        let mut wanted: Vec<i64> = Vec::new();
        let mut calls: Vec<(usize, usize, String)> = Vec::new();
        for (s, &i) in sites.iter().enumerate() {
            let enabled = rng.chance(75, 100);
            h.runtime_mut()
                .storage_mut()
                .set_instance_var(pid, format!("g{s}"), Value::Bool(enabled));
            if !enabled {
                continue;
            }
            let inputs = gen_inputs(rng, &mut gens[i], false, out);
            for (p, v) in &inputs.vars {
                h.runtime_mut()
                    .storage_mut()
                    .set_instance_var(pid, format!("i{s}_{p}"), v.clone());
            }
            wanted.push(inputs.dt);
            calls.push((s, i, inputs.text));
        }
        let now0 = h.runtime().current_time().as_nanos();
        let mut dt = if wanted.is_empty() { rng.range(0, 10) } else { *rng.pick(&wanted) };
        dt = dt.clamp(0, i64::MAX - now0);
        h.advance_time(Duration::from_nanos(dt));
        let now = h.runtime().current_time().as_nanos();
        for (_, i, text) in &calls {
            out.line(format!("qcall {i} {now} {text}"));
            out.count(&format!("p_call_{}", gens[*i].kind.name()));
        }
        out.line("obs");
        let res = match guard(|| h.cycle()) {
            Some(res) => res,
            None => {
                // a panic inside the scan cycle: report it and stop the case (the runtime may be half-updated)
                out.line("impl panic");
                out.count("p_cycle_panic");
                return Ok(true);
            }
        };
        if !res.errors.is_empty() {
            out.line(format!("impl error:{:?}", res.errors));
            out.count("p_cycle_error");
            continue;
        }
        let st = h.runtime().storage();
        let mut answers: Vec<String> = Vec::new();
        for (s, i, _) in &calls {
            let token = site_answer(st, pid, *s, gens[*i].kind);
            answers.push(token);
        }
        let dumps: Vec<String> = (0..n).map(|j| dump_instance(st, ids[j], gens[j].kind)).collect();
        out.line(format!(
            "impl {} | {}",
            if answers.is_empty() { "-".to_string() } else { answers.join(" ") },
            dumps.join(" ")
        ));
        for ((_, i, _), token) in calls.iter().zip(&answers) {
            nontrivial |= feed_answer(&mut gens[*i], token, out);
        }
        out.count("p_cycles");
    }
    Ok(nontrivial)
}

// ------------------------------------------------------------------------------------------
// the recorded witness of the repaired finding C04-tp-retrigger (TP restarted on a rising edge inside a
// pulse before /repo commit b46c61d), kept in the corpus so that a regression is reported
// ------------------------------------------------------------------------------------------

/// (IN, dt) with PT = 10: the pulse accepted at call 1 has accumulated 12 >= PT at call 4, so IEC
/// (non-retriggerable) demands ET = 8 at call 3 and Q = FALSE at call 4; the old code restarted ET at
/// call 3 (ET = 4) and still answered Q = TRUE at call 4.
pub const TP_WITNESS: [(bool, i64); 6] = [(true, 0), (false, 4), (true, 4), (true, 4), (true, 4), (true, 4)];
pub const TP_WITNESS_PT: i64 = 10;

fn run_witness(out: &mut Out) -> Result<(), String> {
    // route S
    out.line("case w-tp-struct");
    out.line("tag witness tp-retrigger-struct");
    let mut tp = Tp::new();
    for (inp, dt) in TP_WITNESS {
        out.line(format!("s tp {} {} {}", b(inp), TP_WITNESS_PT, dt));
        let o = tp.step(inp, Duration::from_nanos(TP_WITNESS_PT), Duration::from_nanos(dt));
        out.line(format!("impl q{}e{}", b(o.q), o.et.as_nanos()));
    }
    out.line("end");
    // route P: the same trace through an ST program
    out.line("case w-tp-program");
    out.line("tag witness tp-retrigger-program");
    let src = "PROGRAM P\nVAR\n  f0 : TP;\n  a : BOOL;\n  pt : TIME;\n  q : BOOL;\n  et : TIME;\nEND_VAR\nf0(IN := a, PT := pt, Q => q, ET => et);\nEND_PROGRAM\n";
    let mut h = TestHarness::from_source(src).map_err(|e| format!("witness compile: {e}"))?;
    out.line("inst tp -");
    h.set_input("pt", Value::Time(Duration::from_nanos(TP_WITNESS_PT)));
    for (inp, dt) in TP_WITNESS {
        h.set_input("a", Value::Bool(inp));
        h.advance_time(Duration::from_nanos(dt));
        let now = h.runtime().current_time().as_nanos();
        out.line(format!("call 0 {now} {} {}", b(inp), TP_WITNESS_PT));
        let res = h.cycle();
        if !res.errors.is_empty() {
            out.line(format!("impl error:{:?}", res.errors));
            continue;
        }
        let q = matches!(h.get_output("q"), Some(Value::Bool(true)));
        let et = match h.get_output("et") {
            Some(Value::Time(d)) | Some(Value::LTime(d)) => d.as_nanos(),
            _ => -1,
        };
        out.line(format!("impl q{}e{}", b(q), et));
    }
    out.line("end");
    Ok(())
}

// ------------------------------------------------------------------------------------------

pub fn run(args: &Args) -> i32 {
    // panics of the code under test are observations (`impl panic`), not noise on stderr
    std::panic::set_hook(Box::new(|_| {}));
    let mut out = Out::new();
    let steps = args.extra_usize("steps", 40);
    for n in args.case_numbers() {
        let mut rng = Rng::for_case(args.seed, n);
        out.line(format!("case {n}"));
        let nontrivial = match n % 10 {
            0..=3 => {
                out.count("cases_route_S_structs");
                run_s(&mut rng, steps, &mut out)
            }
            4..=7 => {
                out.count("cases_route_X_execute_builtin");
                run_x(&mut rng, steps, &mut out)
            }
            _ => {
                out.count("cases_route_P_st_program");
                match run_p(&mut rng, steps, &mut out) {
                    Ok(v) => v,
                    Err(e) => {
                        eprintln!("case {n}: {e}");
                        return 3;
                    }
                }
            }
        };
        if nontrivial {
            out.line("tag nontrivial");
        }
        out.line("end");
        out.count("cases");
    }
    if let Err(e) = run_witness(&mut out) {
        eprintln!("{e}");
        return 3;
    }
    out.finish(&args.out);
    0
}
