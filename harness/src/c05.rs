//! C05 — deterministic, reproducible compilation and execution.
//!
//! Parent mode (`vharness c05 --seed S --cases N --out F [--children K] [--cycles C]`): for every
//! case a multi-file ST project and an input/clock trace are generated; the project is compiled and
//! the trace is run (a) in this process and (b) in K freshly spawned child processes (this binary
//! re-executed through `std::env::current_exe`), each of which has its own `RandomState` keys, its
//! own address-space layout, a different heap pre-fill, a different thread for the work and a
//! different wall-clock pacing.  The container bytes and the per-cycle dumps (variables, I/O
//! images, faults, runtime events) of all processes are written as digests; the Lean driver applies
//! the property's statement (`agree`) to them.  The decoded container of the parent additionally
//! feeds the model-vs-implementation ops (`pouindex`, `strtab`).
//!
//! Child mode (`vharness c05 --child k --in FILE`): reads the case (sources + trace), observes, and
//! prints the raw observations on stdout.

use crate::rng::Rng;
use crate::util::{hex, join, unhex, Out};
use crate::Args;
use std::fmt::Write as _;
use std::io::Write as _;
use trust_runtime::bytecode::{BytecodeModule, PouKind, SectionData, SectionId};
use trust_runtime::harness::{CompileSession, SourceFile};
use trust_runtime::value::{Duration, Value};
use trust_runtime::Runtime;

#[path = "c05/gen.rs"]
pub mod gen;
#[path = "c05/gen_order.rs"]
pub mod gen_order;

// ------------------------------------------------------------------------------------------------
// Case description shared by parent and children
// ------------------------------------------------------------------------------------------------

#[derive(Clone, Debug)]
pub struct Step {
    pub dt_ns: i64,
    pub bools: Vec<bool>,
    pub ints: Vec<i32>,
    /// 0 = none, 1 = warm restart before the cycle, 2 = cold restart before the cycle
    pub restart: u8,
}

#[derive(Clone, Debug)]
pub struct CaseInput {
    pub with_paths: bool,
    /// which additional public compile entry point every observer uses (0..=2)
    pub entry_variant: u8,
    pub files: Vec<(String, String)>,
    /// names of the BOOL / DINT input globals written before every cycle
    pub bool_inputs: Vec<String>,
    pub int_inputs: Vec<String>,
    /// direct input addresses (BOOL) written before every cycle with the same values as bool_inputs
    pub direct_inputs: Vec<String>,
    /// direct output addresses (BOOL) read back after every cycle
    pub direct_outputs: Vec<String>,
    /// (area letter Q|M, first byte, length): image bytes bound only to never-assigned variables
    pub const_ranges: Vec<(char, usize, usize)>,
    pub trace: Vec<Step>,
    /// what the generator put into the case (histogram only; not part of the case's operation lines)
    pub tags: Vec<String>,
}

impl CaseInput {
    /// The operation lines of the case (also the child's input file).
    pub fn lines(&self) -> Vec<String> {
        let mut v = Vec::new();
        v.push(format!("opts {} {}", if self.with_paths { 1 } else { 0 }, self.entry_variant));
        v.push(format!(
            "inputs {} | {} | {} | {} | {}",
            join(self.bool_inputs.iter(), " "),
            join(self.int_inputs.iter(), " "),
            join(self.direct_inputs.iter(), " "),
            join(self.direct_outputs.iter(), " "),
            join(self.const_ranges.iter().map(|(a, b, l)| format!("{a}{b}+{l}")), " ")
        ));
        for (p, t) in &self.files {
            v.push(format!("src {} {}", hex(p.as_bytes()), hex(t.as_bytes())));
        }
        for s in &self.trace {
            v.push(format!(
                "trace {} {} {} {}",
                s.restart,
                s.dt_ns,
                if s.bools.is_empty() {
                    "-".to_string()
                } else {
                    s.bools.iter().map(|b| if *b { '1' } else { '0' }).collect::<String>()
                },
                if s.ints.is_empty() { "-".to_string() } else { join(s.ints.iter(), ",") }
            ));
        }
        v
    }

    pub fn parse(text: &str) -> Result<CaseInput, String> {
        let mut c = CaseInput {
            with_paths: false,
            entry_variant: 0,
            files: Vec::new(),
            bool_inputs: Vec::new(),
            int_inputs: Vec::new(),
            direct_inputs: Vec::new(),
            direct_outputs: Vec::new(),
            const_ranges: Vec::new(),
            trace: Vec::new(),
            tags: Vec::new(),
        };
        for line in text.lines() {
            let ws: Vec<&str> = line.split_whitespace().collect();
            match ws.first().copied() {
                Some("opts") => {
                    c.with_paths = ws.get(1) == Some(&"1");
                    c.entry_variant = ws.get(2).and_then(|v| v.parse().ok()).unwrap_or(0);
                }
                Some("inputs") => {
                    let rest = line["inputs".len()..].to_string();
                    let parts: Vec<&str> = rest.split('|').collect();
                    if parts.len() != 5 {
                        return Err("inputs line".into());
                    }
                    let names = |s: &str| s.split_whitespace().map(|x| x.to_string()).collect::<Vec<_>>();
                    c.bool_inputs = names(parts[0]);
                    c.int_inputs = names(parts[1]);
                    c.direct_inputs = names(parts[2]);
                    c.direct_outputs = names(parts[3]);
                    for r in names(parts[4]) {
                        let area = r.chars().next().ok_or("range")?;
                        let (b, l) = r[1..].split_once('+').ok_or("range")?;
                        c.const_ranges.push((area, b.parse().map_err(|_| "range")?, l.parse().map_err(|_| "range")?));
                    }
                }
                Some("src") => {
                    let p = String::from_utf8(unhex(ws[1])).map_err(|e| e.to_string())?;
                    let t = String::from_utf8(unhex(ws[2])).map_err(|e| e.to_string())?;
                    c.files.push((p, t));
                }
                Some("trace") => {
                    if ws.len() != 5 {
                        return Err("trace line".into());
                    }
                    let restart: u8 = ws[1].parse().map_err(|_| "restart")?;
                    let dt: i64 = ws[2].parse().map_err(|_| "dt")?;
                    let bools = if ws[3] == "-" { Vec::new() } else { ws[3].chars().map(|ch| ch == '1').collect() };
                    let ints = if ws[4] == "-" {
                        Vec::new()
                    } else {
                        ws[4].split(',').map(|x| x.parse::<i32>().map_err(|_| "int")).collect::<Result<_, _>>()?
                    };
                    c.trace.push(Step { dt_ns: dt, bools, ints, restart });
                }
                _ => {}
            }
        }
        Ok(c)
    }

    fn session(&self) -> CompileSession {
        let files = self
            .files
            .iter()
            .map(|(p, t)| {
                if self.with_paths {
                    SourceFile::with_path(p.clone(), t.clone())
                } else {
                    SourceFile::new(t.clone())
                }
            })
            .collect::<Vec<_>>();
        CompileSession::from_sources(files)
    }
}

// ------------------------------------------------------------------------------------------------
// Observation of the real code
// ------------------------------------------------------------------------------------------------

#[derive(Clone, Debug, Default, PartialEq, Eq)]
pub struct Observation {
    /// registry lines for the model ops (only when `Conditions::model_lines`)
    pub model_lines: Vec<String>,
    /// containers obtained through the other public compile entry points: (entry point, result)
    pub extra_compiles: Vec<(String, Result<Vec<u8>, String>)>,
    /// per cycle: (cycle ran Ok and no fault/restart so far, hex of the constant image ranges)
    pub const_images: Vec<(bool, String)>,
    /// self-test: iteration order of a 32-key std HashMap in the observing process/thread
    pub hash_order: String,
    /// `Ok(container bytes)` or `Err(message)`
    pub compile: Option<Result<Vec<u8>, String>>,
    /// `Err(message)` if the runtime could not be built
    pub build_error: Option<String>,
    /// canonical dump after every cycle
    pub cycles: Vec<String>,
}

fn dump_cycle(
    rt: &Runtime,
    case: &CaseInput,
    pre: &str,
    result: &Result<(), trust_runtime::error::RuntimeError>,
    events: &[String],
) -> String {
    let mut s = String::new();
    s.push_str(pre);
    let _ = writeln!(
        s,
        "time={} cycle={} faulted={} last_fault={:?}",
        rt.current_time().as_nanos(),
        rt.cycle_counter(),
        rt.faulted(),
        rt.last_fault().map(|e| e.to_string())
    );
    let _ = writeln!(s, "result={:?}", result.as_ref().map_err(|e| e.to_string()));
    for ev in events {
        let _ = writeln!(s, "ev {ev}");
    }
    // IndexMap order is itself part of the observable state: not sorted
    for (k, v) in rt.storage().globals() {
        let _ = writeln!(s, "g {k}={v:?}");
    }
    for (k, v) in rt.storage().retain() {
        let _ = writeln!(s, "r {k}={v:?}");
    }
    // FxHashMap: canonicalised by instance id
    let mut ids: Vec<_> = rt.storage().instances().keys().copied().collect();
    ids.sort_by_key(|id| id.0);
    for id in ids {
        let inst = &rt.storage().instances()[&id];
        let _ = writeln!(s, "i {} type={} parent={:?}", id.0, inst.type_name, inst.parent.map(|p| p.0));
        for (k, v) in &inst.variables {
            let _ = writeln!(s, "  {k}={v:?}");
        }
    }
    let _ = writeln!(s, "frames={}", rt.storage().frames().len());
    let _ = writeln!(
        s,
        "in={} out={} mem={}",
        hex(rt.io().inputs()),
        hex(rt.io().outputs()),
        hex(rt.io().memory())
    );
    for addr in case.direct_inputs.iter().chain(case.direct_outputs.iter()) {
        if let Ok(a) = trust_runtime::io::IoAddress::parse(addr) {
            let _ = writeln!(s, "io {addr}={:?}", rt.io().read(&a).map_err(|e| e.to_string()));
        }
    }
    for t in rt.tasks() {
        let _ = writeln!(s, "ovr {}={:?}", t.name, rt.task_overrun_count(t.name.as_str()));
    }
    s
}

/// Compile and run one case in this process.  `pace_us > 0` sleeps between cycles so that the wall
/// clock of the process is unrelated to the simulated clock.
fn hash_order_probe() -> String {
    let mut m = std::collections::HashMap::new();
    for i in 0..32u32 {
        m.insert(i, ());
    }
    join(m.keys(), ".")
}

/// Conditions of one observation that must not matter: wall-clock pacing, earlier work in the same
/// thread (compile + run of an unrelated project that also uses labels and JMP), unrelated live
/// allocations taken between the cycles.
#[derive(Clone, Copy, Debug, Default)]
pub struct Conditions {
    /// skip the additional compile entry points (second in-process observation)
    pub skip_extra: bool,
    /// collect the registry lines for the model ops (parent only)
    pub model_lines: bool,
    pub pace_us: u64,
    pub warmups: usize,
    pub busy_heap: bool,
}

/// An unrelated project with labelled blocks of 3..8 statements (label names and positions differ
/// from what the generator produces), compiled, run for three cycles and dropped.
fn warm_up(round: usize) {
    let mut src = String::new();
    let mut conf = String::from("CONFIGURATION WarmCfg\nTASK WarmT (INTERVAL := T#1ms, PRIORITY := 0);\n");
    for len in 3..=8usize {
        for variant in 0..2usize {
            let name = format!("Warm{len}v{variant}r{round}");
            let label = if variant == 0 { "Skip" } else { "Done" };
            let jump_at = (variant + round) % (len - 2);
            let label_at = jump_at + 1 + (round + variant) % (len - jump_at - 1);
            let _ = writeln!(src, "PROGRAM {name}\nVAR\n    n : DINT := 0;\nEND_VAR");
            for i in 0..len {
                if i == jump_at {
                    let _ = writeln!(src, "JMP {label};");
                } else if i == label_at {
                    let _ = writeln!(src, "{label}: n := n + 1;");
                } else {
                    let _ = writeln!(src, "n := n + {};", 2 + i);
                }
            }
            let _ = writeln!(src, "END_PROGRAM\n");
            if variant == 0 {
                let _ = writeln!(conf, "PROGRAM I{name} WITH WarmT : {name};");
            } else {
                let _ = writeln!(conf, "PROGRAM I{name} : {name};");
            }
        }
    }
    conf.push_str("END_CONFIGURATION\n");
    src.push_str(&conf);
    let session = CompileSession::from_source(src);
    if let Ok(mut rt) = session.build_runtime() {
        for _ in 0..3 {
            rt.advance_time(Duration::from_millis(1));
            let _ = rt.execute_cycle();
        }
    }
}

/// `observe_inner` under `catch_unwind`: a panic of the real code is an observation ("panic"), the
/// same in every process if it is deterministic.
pub fn observe(case: &CaseInput, cond: Conditions) -> Observation {
    match std::panic::catch_unwind(std::panic::AssertUnwindSafe(|| observe_inner(case, cond))) {
        Ok(o) => o,
        Err(_) => Observation {
            model_lines: Vec::new(),
            extra_compiles: Vec::new(),
            const_images: Vec::new(),
            hash_order: hash_order_probe(),
            compile: None,
            build_error: Some("panic".into()),
            cycles: Vec::new(),
        },
    }
}

/// The other public compile entry points of `trust_runtime::harness`, on the same sources.
fn extra_compiles(case: &CaseInput) -> Vec<(String, Result<Vec<u8>, String>)> {
    use trust_runtime::harness as h;
    let texts: Vec<&str> = case.files.iter().map(|(_, t)| t.as_str()).collect();
    let paths: Vec<&str> = case.files.iter().map(|(p, _)| p.as_str()).collect();
    let enc = |m: Result<BytecodeModule, h::CompileError>| -> Result<Vec<u8>, String> {
        m.map_err(|e| e.to_string())?.encode().map_err(|e| e.to_string())
    };
    let single = texts.len() == 1;
    let mut v = Vec::new();
    // always: the path-labelled function API (debug map labelled with the caller's paths)
    if single {
        v.push(("bytes_from_source_with_path".to_string(), h::bytecode_bytes_from_source_with_path(texts[0], paths[0]).map_err(|e| e.to_string())));
    } else {
        v.push(("bytes_from_sources_with_paths".to_string(), h::bytecode_bytes_from_sources_with_paths(&texts, &paths).map_err(|e| e.to_string())));
    }
    match (case.entry_variant, single) {
        (0, true) => v.push(("bytes_from_source".to_string(), h::bytecode_bytes_from_source(texts[0]).map_err(|e| e.to_string()))),
        (0, false) => v.push(("bytes_from_sources".to_string(), h::bytecode_bytes_from_sources(&texts).map_err(|e| e.to_string()))),
        (1, true) => v.push(("module_from_source_with_path".to_string(), enc(h::bytecode_module_from_source_with_path(texts[0], paths[0])))),
        (1, false) => v.push(("module_from_sources_with_paths".to_string(), enc(h::bytecode_module_from_sources_with_paths(&texts, &paths)))),
        (_, true) => v.push(("module_from_source".to_string(), enc(h::bytecode_module_from_source(texts[0])))),
        (_, false) => v.push(("module_from_sources".to_string(), enc(h::bytecode_module_from_sources(&texts)))),
    }
    v
}

fn observe_inner(case: &CaseInput, cond: Conditions) -> Observation {
    let pace_us = cond.pace_us;
    for round in 0..cond.warmups {
        warm_up(round);
    }
    let mut obs = Observation::default();
    obs.hash_order = hash_order_probe();
    let session = case.session();
    obs.compile = Some(session.build_bytecode_bytes().map_err(|e| e.to_string()));
    if !cond.skip_extra {
        obs.extra_compiles = extra_compiles(case);
    }
    let mut busy: Vec<Vec<u8>> = Vec::new();
    let mut rt = match session.build_runtime() {
        Ok(rt) => rt,
        Err(e) => {
            obs.build_error = Some(e.to_string());
            return obs;
        }
    };
    if cond.model_lines {
        obs.model_lines = registry_lines(&rt);
    }
    let control = rt.enable_debug();
    let _ = control.drain_runtime_events();
    let mut steady = true;
    for step in &case.trace {
        let mut pre = String::new();
        if step.restart != 0 {
            let mode = if step.restart == 1 { trust_runtime::RestartMode::Warm } else { trust_runtime::RestartMode::Cold };
            let r = rt.restart(mode);
            let _ = writeln!(pre, "restart {:?} -> {:?}", step.restart, r.map_err(|e| e.to_string()));
        }
        rt.advance_time(Duration::from_nanos(step.dt_ns));
        for (i, name) in case.bool_inputs.iter().enumerate() {
            let v = step.bools.get(i).copied().unwrap_or(false);
            rt.storage_mut().set_global(name.as_str(), Value::Bool(v));
        }
        for (i, name) in case.int_inputs.iter().enumerate() {
            let v = step.ints.get(i).copied().unwrap_or(0);
            rt.storage_mut().set_global(name.as_str(), Value::DInt(v));
        }
        for (i, addr) in case.direct_inputs.iter().enumerate() {
            let v = step.bools.get(i % step.bools.len().max(1)).copied().unwrap_or(false);
            if let Ok(a) = trust_runtime::io::IoAddress::parse(addr) {
                let _ = rt.io_mut().write(&a, Value::Bool(v));
            }
        }
        let result = rt.execute_cycle();
        let events: Vec<String> = control.drain_runtime_events().iter().map(|e| format!("{e:?}")).collect();
        let mut dump = dump_cycle(&rt, case, &pre, &result, &events);
        // publishing the same variable state again must give the same images (the output flush is a
        // function of the state, not of a hash seed): three more flushes, images recorded
        if result.is_ok() {
            let storage = rt.storage().clone();
            for round in 0..3 {
                let r = rt.io_mut().write_outputs(&storage);
                let _ = writeln!(
                    dump,
                    "republish {round} {:?} out={} mem={}",
                    r.map_err(|e| e.to_string()),
                    hex(rt.io().outputs()),
                    hex(rt.io().memory())
                );
            }
        }
        steady = steady && result.is_ok() && step.restart == 0 && !rt.faulted();
        let mut ranges = String::new();
        for (area, start, len) in &case.const_ranges {
            let img = if *area == 'Q' { rt.io().outputs() } else { rt.io().memory() };
            let bytes: Vec<u8> = (*start..*start + *len).map(|i| img.get(i).copied().unwrap_or(0)).collect();
            let _ = write!(ranges, "{area}{start}:{};", hex(&bytes));
        }
        obs.const_images.push((steady, ranges));
        obs.cycles.push(dump);
        if pace_us > 0 {
            std::thread::sleep(std::time::Duration::from_micros(pace_us));
        }
        if cond.busy_heap {
            // unrelated allocations of assorted sizes, kept alive: they only change which addresses
            // the allocator hands out next
            for j in 0..24usize {
                busy.push(vec![j as u8; 16 + (obs.cycles.len() * 53 + j * 29) % 700]);
            }
            if busy.len() > 96 {
                busy.drain(0..40);
            }
        }
    }
    obs
}

fn fnv(bytes: &[u8], mut h: u64) -> u64 {
    for b in bytes {
        h ^= u64::from(*b);
        h = h.wrapping_mul(0x0000_0100_0000_01B3);
    }
    h
}

/// 128-bit digest + length: equality of digests stands for equality of the observation.
pub fn digest(bytes: &[u8]) -> String {
    format!(
        "{:016x}{:016x}.{}",
        fnv(bytes, 0xcbf2_9ce4_8422_2325),
        fnv(bytes, 0x6c62_272e_07bb_0142),
        bytes.len()
    )
}

fn compile_digest(c: &Option<Result<Vec<u8>, String>>) -> String {
    match c {
        Some(Ok(bytes)) => format!("ok:{}", digest(bytes)),
        // the property speaks about containers: a failed compilation is compared by class only
        Some(Err(_)) => "err".to_string(),
        None => "none".to_string(),
    }
}

// ------------------------------------------------------------------------------------------------
// Child process
// ------------------------------------------------------------------------------------------------

fn child_main(args: &Args, k: usize) -> i32 {
    let path = match args.extra.get("in") {
        Some(p) => p.clone(),
        None => {
            eprintln!("child: --in missing");
            return 2;
        }
    };
    let text = match std::fs::read_to_string(&path) {
        Ok(t) => t,
        Err(e) => {
            eprintln!("child: {e}");
            return 2;
        }
    };
    let case = match CaseInput::parse(&text) {
        Ok(c) => c,
        Err(e) => {
            eprintln!("child: bad case file: {e}");
            return 2;
        }
    };
    // perturb the heap so that allocation addresses differ from the parent's beyond ASLR
    let mut junk: Vec<Vec<u8>> = Vec::new();
    for i in 0..(k * 37 % 101) {
        junk.push(vec![i as u8; 24 + (i * 131 + k * 17) % 4000]);
    }
    // warm up RandomState so that the per-thread key counter differs
    for _ in 0..k {
        let _ = std::collections::HashMap::<u32, u32>::new();
    }
    let cond = Conditions {
        skip_extra: false,
        model_lines: false,
        pace_us: if k % 3 == 1 { 300 } else { 0 },
        warmups: args.extra_usize("warm", 0),
        busy_heap: args.extra_usize("busy", 0) == 1,
    };
    let obs = if k % 2 == 0 {
        // run on a secondary thread: other thread-local hash keys, other stack
        let case2 = case.clone();
        std::thread::Builder::new()
            .stack_size(64 * 1024 * 1024)
            .spawn(move || observe(&case2, cond))
            .expect("spawn")
            .join()
            .unwrap_or_default()
    } else {
        observe(&case, cond)
    };
    drop(junk);
    let stdout = std::io::stdout();
    let mut w = stdout.lock();
    match &obs.compile {
        Some(Ok(b)) => {
            let _ = writeln!(w, "C ok {}", hex(b));
        }
        Some(Err(e)) => {
            let _ = writeln!(w, "C err {}", hex(e.as_bytes()));
        }
        None => {
            let _ = writeln!(w, "C none -");
        }
    }
    for (label, r) in &obs.extra_compiles {
        match r {
            Ok(b) => {
                let _ = writeln!(w, "X {label} ok {}", hex(b));
            }
            Err(e) => {
                let _ = writeln!(w, "X {label} err {}", hex(e.as_bytes()));
            }
        }
    }
    if let Some(e) = &obs.build_error {
        let _ = writeln!(w, "B {}", hex(e.as_bytes()));
    }
    let _ = writeln!(w, "H {}", obs.hash_order);
    for (i, d) in obs.cycles.iter().enumerate() {
        let _ = writeln!(w, "Y {i} {}", hex(d.as_bytes()));
    }
    let _ = writeln!(w, "DONE");
    0
}

fn parse_child_output(text: &str) -> Result<Observation, String> {
    let mut obs = Observation::default();
    let mut done = false;
    for line in text.lines() {
        let ws: Vec<&str> = line.split_whitespace().collect();
        match ws.first().copied() {
            Some("C") => {
                obs.compile = match ws[1] {
                    "ok" => Some(Ok(unhex(ws[2]))),
                    "err" => Some(Err(String::from_utf8_lossy(&unhex(ws[2])).to_string())),
                    _ => None,
                }
            }
            Some("X") => {
                let r = match ws[2] {
                    "ok" => Ok(unhex(ws[3])),
                    _ => Err(String::from_utf8_lossy(&unhex(ws[3])).to_string()),
                };
                obs.extra_compiles.push((ws[1].to_string(), r));
            }
            Some("B") => obs.build_error = Some(String::from_utf8_lossy(&unhex(ws[1])).to_string()),
            Some("H") => obs.hash_order = ws.get(1).map(|s| s.to_string()).unwrap_or_default(),
            Some("Y") => obs.cycles.push(String::from_utf8_lossy(&unhex(ws[2])).to_string()),
            Some("DONE") => done = true,
            _ => {}
        }
    }
    if done {
        Ok(obs)
    } else {
        Err("child output incomplete".into())
    }
}

// ------------------------------------------------------------------------------------------------
// Parent
// ------------------------------------------------------------------------------------------------

fn first_diff(a: &str, b: &str) -> String {
    for (i, (x, y)) in a.lines().zip(b.lines()).enumerate() {
        if x != y {
            return format!("line {i}: `{x}` vs `{y}`");
        }
    }
    format!("length {} vs {}", a.lines().count(), b.lines().count())
}

fn section_diff(a: &[u8], b: &[u8]) -> String {
    match (BytecodeModule::decode(a), BytecodeModule::decode(b)) {
        (Ok(ma), Ok(mb)) => {
            for (sa, sb) in ma.sections.iter().zip(mb.sections.iter()) {
                if sa != sb {
                    return format!("section id {} differs", sa.id);
                }
            }
            format!("{} vs {} sections", ma.sections.len(), mb.sections.len())
        }
        _ => "undecodable".into(),
    }
}

struct ModelOps {
    lines: Vec<String>,
    strings: usize,
    pous: usize,
    /// (section name, number of entries) of the decoded container
    sections: Vec<(&'static str, usize)>,
}

/// The model-vs-implementation operations derived from the parent's runtime and decoded container.
/// The runtime's registries as seen through its public API (input of the PouIdMap / vtable models).
fn registry_lines(rt: &Runtime) -> Vec<String> {
    let hx = |s: &str| hex(s.as_bytes());
    let mut lines = Vec::new();
    lines.push(format!("names program {}", join(rt.programs().keys().map(|k| hx(k)), " ")));
    lines.push(format!("names function {}", join(rt.functions().keys().map(|k| hx(k)), " ")));
    for (k, fb) in rt.function_blocks() {
        lines.push(format!("owner fb {} {}", hx(k), join(fb.methods.iter().map(|m| hx(&m.name)), " ")));
    }
    for (k, c) in rt.classes() {
        lines.push(format!("owner class {} {}", hx(k), join(c.methods.iter().map(|m| hx(&m.name)), " ")));
    }
    for (k, fb) in rt.function_blocks() {
        if let Some(base) = &fb.base {
            let b = match base {
                trust_runtime::eval::FunctionBlockBase::FunctionBlock(n) | trust_runtime::eval::FunctionBlockBase::Class(n) => n,
            };
            lines.push(format!("base {} {}", hx(k), hx(b)));
        }
    }
    for (k, c) in rt.classes() {
        if let Some(b) = &c.base {
            lines.push(format!("base {} {}", hx(k), hx(b)));
        }
    }
    lines
}

fn model_ops(names: &[String], bytes: &[u8]) -> Result<ModelOps, String> {
    let module = BytecodeModule::decode(bytes).map_err(|e| e.to_string())?;
    let strings = match module.section(SectionId::StringTable) {
        Some(SectionData::StringTable(t)) => t.entries.clone(),
        _ => return Err("no string table".into()),
    };
    let index = match module.section(SectionId::PouIndex) {
        Some(SectionData::PouIndex(i)) => i.clone(),
        _ => return Err("no pou index".into()),
    };
    let hx = |s: &str| hex(s.as_bytes());
    let mut lines = names.to_vec();
    lines.push("pouindex".into());
    let rows: Vec<String> = index
        .entries
        .iter()
        .map(|e| {
            let kind = match e.kind {
                PouKind::Program => 0,
                PouKind::FunctionBlock => 1,
                PouKind::Function => 2,
                PouKind::Class => 3,
                PouKind::Method => 4,
            };
            // the model is given the registry keys; the container holds the declared names: compare
            // case-insensitively through the normalised form the encoder itself uses
            let name = strings.get(e.name_idx as usize).map(|s| s.to_string()).unwrap_or_else(|| "<bad name_idx>".into());
            format!(
                "{kind}:{}:{}:{}",
                hx(&name.to_ascii_uppercase()),
                e.id,
                e.owner_pou_id.map(|o| o.to_string()).unwrap_or_else(|| "-".into())
            )
        })
        .collect();
    lines.push(format!("impl {}", rows.join(",")));
    // method tables (vtables) of all class-like POUs, in index order
    lines.push("vtables".into());
    let name_of = |idx: u32| strings.get(idx as usize).map(|s| s.to_ascii_uppercase()).unwrap_or_else(|| "<bad name_idx>".into());
    let tables: Vec<String> = index
        .entries
        .iter()
        .filter_map(|e| e.class_meta.as_ref().map(|m| (e, m)))
        .map(|(e, m)| {
            format!(
                "{}={}",
                hx(&name_of(e.name_idx)),
                m.methods
                    .iter()
                    .map(|me| format!("{}:{}:{}", hx(&name_of(me.name_idx)), me.pou_id, me.vtable_slot))
                    .collect::<Vec<_>>()
                    .join(";")
            )
        })
        .collect();
    lines.push(format!("impl {}", tables.join(",")));
    lines.push(format!("strtab {}", join(strings.iter().map(|s| hx(s)), " ")));
    lines.push(format!("impl {}", strings.len()));
    let mut sections: Vec<(&'static str, usize)> = Vec::new();
    for sec in &module.sections {
        match &sec.data {
            SectionData::StringTable(t) => sections.push(("strings", t.entries.len())),
            SectionData::DebugStringTable(t) => sections.push(("debug_strings", t.entries.len())),
            SectionData::TypeTable(t) => sections.push(("types", t.entries.len())),
            SectionData::ConstPool(t) => sections.push(("consts", t.entries.len())),
            SectionData::RefTable(t) => sections.push(("refs", t.entries.len())),
            SectionData::PouIndex(t) => sections.push(("pous", t.entries.len())),
            SectionData::ResourceMeta(t) => {
                sections.push(("tasks", t.resources.iter().map(|r| r.tasks.len()).sum()));
                sections.push((
                    "task_programs",
                    t.resources.iter().flat_map(|r| r.tasks.iter()).map(|t| t.program_name_idx.len()).max().unwrap_or(0),
                ));
            }
            SectionData::IoMap(t) => sections.push(("io_bindings", t.bindings.len())),
            SectionData::DebugMap(t) => sections.push(("debug_entries", t.entries.len())),
            SectionData::VarMeta(t) => sections.push(("var_meta", t.entries.len())),
            SectionData::RetainInit(t) => sections.push(("retain_init", t.entries.len())),
            _ => {}
        }
    }
    Ok(ModelOps { lines, strings: strings.len(), pous: index.entries.len(), sections })
}

/// Everything that differs between the children and must not matter: working directory (with the
/// labelled source files present, present with other contents, absent, reached through a symlinked
/// directory), HOME/TMPDIR/LANG/TZ, argv[0], allocator tuning, environment size, earlier work in
/// the observing thread, unrelated live allocations.
fn child_command(exe: &std::path::Path, file: &str, i: usize, dirs: &[std::path::PathBuf]) -> std::process::Command {
    use std::os::unix::process::CommandExt as _;
    let mut cmd = std::process::Command::new(exe);
    cmd.arg0(["vharness", "/usr/bin/trust-runtime", "./a.out", "x", "vharness-child"][i % 5])
        .arg("c05")
        .arg("--child")
        .arg(i.to_string())
        .arg("--in")
        .arg(file)
        .arg("--warm")
        .arg((i % 3).to_string())
        .arg("--busy")
        .arg(if i % 2 == 1 { "1" } else { "0" })
        // different environment size => different initial stack layout
        .env("VERIF_C05_PAD", "x".repeat(i * 97 % 1500))
        .env("LANG", ["C", "de_DE.UTF-8", "tr_TR.UTF-8", "en_US.UTF-8", "ja_JP.UTF-8"][i % 5])
        .env("LC_ALL", ["C", "de_DE.UTF-8", "tr_TR.UTF-8", "en_US.UTF-8", "POSIX"][i % 5])
        .env("TZ", ["UTC", "Asia/Kathmandu", "America/St_Johns", "Pacific/Chatham", "Europe/Berlin"][i % 5])
        .env("MALLOC_PERTURB_", (i * 37 % 255).to_string())
        .stdin(std::process::Stdio::null())
        .stdout(std::process::Stdio::piped())
        .stderr(std::process::Stdio::piped());
    match i % 4 {
        1 => {
            cmd.env("GLIBC_TUNABLES", "glibc.malloc.tcache_count=0");
        }
        2 => {
            cmd.env("GLIBC_TUNABLES", "glibc.malloc.tcache_count=0:glibc.malloc.mxfast=0");
            cmd.env("MALLOC_ARENA_MAX", "1");
        }
        3 => {
            cmd.env("MALLOC_ARENA_MAX", "8");
            cmd.env("MALLOC_TOP_PAD_", "4096");
        }
        _ => {}
    }
    if !dirs.is_empty() {
        let d = &dirs[(i - 1) % dirs.len()];
        cmd.current_dir(d);
        cmd.env("HOME", d);
        cmd.env("TMPDIR", d);
        cmd.env("PWD", d);
    }
    cmd
}

/// Directory layout for one case: `a/` holds the labelled files, `b/` holds files of the same
/// names with other contents, `c/` is empty, `d` is a symlink to `a`, `e/` reaches the files of `a`
/// through symlinked sub-directories.
fn prepare_dirs(root: &std::path::Path, case: &CaseInput) -> Vec<std::path::PathBuf> {
    let mk = |sub: &str| root.join(sub);
    let mut dirs = Vec::new();
    for sub in ["a", "b", "c", "e"] {
        let _ = std::fs::create_dir_all(mk(sub));
    }
    for (p, t) in &case.files {
        for (sub, text) in [("a", t.clone()), ("b", format!("(* other contents *)\n{}", t.len()))] {
            let full = mk(sub).join(p);
            if let Some(parent) = full.parent() {
                let _ = std::fs::create_dir_all(parent);
            }
            let _ = std::fs::write(&full, text);
        }
    }
    let _ = std::os::unix::fs::symlink(mk("a"), mk("d"));
    // e/<top-level entry> -> ../a/<top-level entry>
    if let Ok(rd) = std::fs::read_dir(mk("a")) {
        for ent in rd.flatten() {
            let _ = std::os::unix::fs::symlink(ent.path(), mk("e").join(ent.file_name()));
        }
    }
    for sub in ["a", "b", "c", "d", "e"] {
        dirs.push(mk(sub));
    }
    dirs
}

/// Upper bound for one child (a case takes about a second; the bound only guards against a hang).
const CHILD_TIMEOUT_S: u64 = 45;
/// Upper bound for one in-process observation; a thread that exceeds it is abandoned (it cannot be
/// killed) and the observation is recorded as `hang`.
const PARENT_TIMEOUT_S: u64 = 45;

fn collect_child(p: std::io::Result<std::process::Child>) -> Result<Observation, String> {
    use std::io::Read as _;
    let mut child = match p {
        Err(e) => return Err(format!("spawn: {e}")),
        Ok(c) => c,
    };
    let mut stdout = child.stdout.take().ok_or("no stdout")?;
    let mut stderr = child.stderr.take().ok_or("no stderr")?;
    let out_reader = std::thread::spawn(move || {
        let mut buf = Vec::new();
        let _ = stdout.read_to_end(&mut buf);
        buf
    });
    let err_reader = std::thread::spawn(move || {
        let mut buf = Vec::new();
        let _ = stderr.read_to_end(&mut buf);
        buf
    });
    let deadline = std::time::Instant::now() + std::time::Duration::from_secs(CHILD_TIMEOUT_S);
    let status = loop {
        match child.try_wait() {
            Ok(Some(st)) => break Ok(st),
            Ok(None) => {
                if std::time::Instant::now() >= deadline {
                    let _ = child.kill();
                    let _ = child.wait();
                    let _ = out_reader.join();
                    let _ = err_reader.join();
                    // a run that never finishes is an observation of its own (not retried)
                    return Ok(Observation {
                        model_lines: Vec::new(),
                        extra_compiles: Vec::new(),
                        const_images: Vec::new(),
                        hash_order: String::new(),
                        compile: None,
                        build_error: Some("hang".into()),
                        cycles: Vec::new(),
                    });
                }
                std::thread::sleep(std::time::Duration::from_millis(3));
            }
            Err(e) => break Err(format!("wait: {e}")),
        }
    };
    let out = out_reader.join().unwrap_or_default();
    let err = err_reader.join().unwrap_or_default();
    let status = status?;
    if !status.success() {
        return Err(format!(
            "child exited {:?}: {}",
            status.code(),
            String::from_utf8_lossy(&err).chars().take(300).collect::<String>()
        ));
    }
    parse_child_output(&String::from_utf8_lossy(&out))
}

fn spawn_children(exe: &std::path::Path, file: &str, k: usize, dirs: &[std::path::PathBuf]) -> Vec<Result<Observation, String>> {
    let procs: Vec<_> = (1..=k).map(|i| child_command(exe, file, i, dirs).spawn()).collect();
    procs
        .into_iter()
        .enumerate()
        .map(|(idx, p)| {
            let mut r = collect_child(p);
            // an environmental failure (fork/pipe under load, OOM kill) must not look like
            // nondeterminism of the code under test: a failed child is re-run twice, alone; a child
            // that fails three times in a row is reported (real code panics are caught inside the
            // child and are ordinary observations)
            let mut attempts = 0;
            while r.is_err() && attempts < 2 {
                attempts += 1;
                std::thread::sleep(std::time::Duration::from_millis(200 * attempts));
                r = collect_child(child_command(exe, file, idx + 1, dirs).spawn());
            }
            r
        })
        .collect()
}

/// Runs `observe` on a thread of its own and gives up after `PARENT_TIMEOUT_S`: an execution that
/// never finishes (e.g. a jump that goes backwards for ever) is an observation, not a reason for the
/// whole check to stall.  `hung` counts abandoned threads (each keeps a core busy until exit).
fn observe_guarded(case: &CaseInput, cond: Conditions, hung: &std::sync::atomic::AtomicUsize) -> Observation {
    let (tx, rx) = std::sync::mpsc::channel();
    let case2 = case.clone();
    let spawned = std::thread::Builder::new().stack_size(64 * 1024 * 1024).spawn(move || {
        let _ = tx.send(observe(&case2, cond));
    });
    if spawned.is_err() {
        return observe(case, cond);
    }
    match rx.recv_timeout(std::time::Duration::from_secs(PARENT_TIMEOUT_S)) {
        Ok(o) => o,
        Err(_) => {
            hung.fetch_add(1, std::sync::atomic::Ordering::SeqCst);
            Observation {
                model_lines: Vec::new(),
                extra_compiles: Vec::new(),
                const_images: Vec::new(),
                hash_order: hash_order_probe(),
                compile: None,
                build_error: Some("hang".into()),
                cycles: Vec::new(),
            }
        }
    }
}

static HUNG_THREADS: std::sync::atomic::AtomicUsize = std::sync::atomic::AtomicUsize::new(0);

pub fn run_case(n: u64, case: &CaseInput, children: usize, tmp_dir: &std::path::Path, out: &mut Out) -> Result<(), String> {
    let exe = std::env::current_exe().map_err(|e| e.to_string())?;
    let lines = case.lines();
    let file = tmp_dir.join(format!("case_{n}.txt"));
    std::fs::write(&file, lines.join("\n") + "\n").map_err(|e| e.to_string())?;
    let file_s = file.to_string_lossy().to_string();
    // children first (they run in parallel with the parent's own observation)
    let exe2 = exe.clone();
    let file2 = file_s.clone();
    let case_root = tmp_dir.join(format!("case_{n}.d"));
    let dirs = prepare_dirs(&case_root, case);
    let handle = std::thread::spawn(move || spawn_children(&exe2, &file2, children, &dirs));
    let parent = observe_guarded(case, Conditions { model_lines: true, ..Conditions::default() }, &HUNG_THREADS);
    // the same process, a second time ("in the same or in different processes"): strictly after the
    // first (the property does not speak about concurrent compilations inside one process), but on
    // another thread, i.e. with other thread-local RandomState keys and another stack
    let parent2 = observe_guarded(
        case,
        Conditions { skip_extra: true, model_lines: false, pace_us: 0, warmups: 1, busy_heap: true },
        &HUNG_THREADS,
    );
    let kids = handle.join().map_err(|_| "child thread panicked".to_string())?;
    let _ = std::fs::remove_file(&file);
    let _ = std::fs::remove_dir_all(&case_root);

    if std::env::var_os("VERIF_C05_SHOW").is_some() {
        // development aid: the parent's last dump
        eprintln!("---- case {n}: build_error={:?}\n{}", parent.build_error, parent.cycles.last().cloned().unwrap_or_default());
    }
    out.line(format!("case {n}"));
    for l in &lines {
        out.line(l);
    }
    for (who, o) in [("parent", &parent), ("parent-2nd", &parent2)] {
        if o.build_error.as_deref() == Some("hang") {
            out.line(format!("# {who}: the observation did not finish within {PARENT_TIMEOUT_S} s (abandoned)"));
            out.count("in_process_hang");
        }
    }
    let mut all: Vec<(String, Observation)> = vec![("parent-2nd".to_string(), parent2)];
    for (i, k) in kids.into_iter().enumerate() {
        match k {
            Ok(o) => all.push((format!("child-{}", i + 1), o)),
            Err(e) => {
                out.line(format!("# child-{} failed: {}", i + 1, e.replace('\n', " ")));
                out.count("child_failed");
                all.push((
                    format!("child-{}", i + 1),
                    Observation {
                        model_lines: Vec::new(),
                        extra_compiles: Vec::new(),
                        const_images: Vec::new(),
                        hash_order: String::new(),
                        compile: None,
                        build_error: Some(e),
                        cycles: Vec::new(),
                    },
                ));
            }
        }
    }
    // self-test of the experiment: the processes really iterate std hash maps in different orders
    let mut orders: Vec<&str> = all.iter().map(|(_, o)| o.hash_order.as_str()).filter(|s| !s.is_empty()).collect();
    orders.push(parent.hash_order.as_str());
    orders.sort();
    orders.dedup();
    out.line(format!("# selftest: {} distinct std::HashMap iteration orders among {} observations", orders.len(), all.len() + 1));
    if orders.len() >= 3 {
        out.count("selftest_cases_with_3plus_hash_orders");
    }
    // model-vs-implementation ops on the parent's container
    let mut strings = 0;
    let mut pous = 0;
    if let Some(Ok(bytes)) = &parent.compile {
        match model_ops(&parent.model_lines, bytes) {
            Ok(m) => {
                for l in &m.lines {
                    out.line(l);
                }
                strings = m.strings;
                pous = m.pous;
                out.add("strings_interned", m.strings as u64);
                out.add("pous", m.pous as u64);
                // how well the sections of the container are populated (several entries each)
                for (name, n) in &m.sections {
                    out.add(&format!("sec_{name}_entries"), *n as u64);
                    if *n >= 2 {
                        out.count(&format!("sec_{name}_cases_with_2plus"));
                    }
                }
            }
            Err(e) => out.line(format!("# model ops unavailable: {e}")),
        }
        out.count("compiled_ok");
    } else {
        out.count("compile_error");
        if let Some(Err(e)) = &parent.compile {
            out.line(format!("# compile error: {}", e.replace('\n', " | ").chars().take(400).collect::<String>()));
        }
    }
    // cross-process: container bytes
    let pd = compile_digest(&parent.compile);
    out.line(format!("xcompile {}", join(all.iter().map(|(_, o)| compile_digest(&o.compile)), " ")));
    out.line(format!("impl {pd}"));
    for (who, o) in &all {
        if compile_digest(&o.compile) != pd {
            let detail = match (&parent.compile, &o.compile) {
                (Some(Ok(a)), Some(Ok(b))) => section_diff(a, b),
                _ => "ok/err class differs".into(),
            };
            out.line(format!("# diverge xcompile parent vs {who}: {detail}"));
            out.count("diverge_compile");
        }
        // diagnostics text is outside the property; measured only
        if let (Some(Err(a)), Some(Err(b))) = (&parent.compile, &o.compile) {
            if a != b {
                out.count("diagnostics_text_differs");
            }
        }
    }
    // the other public compile entry points, each compared across the processes
    for (k, (label, pr)) in parent.extra_compiles.iter().enumerate() {
        let dg = |r: Option<&(String, Result<Vec<u8>, String>)>| match r {
            Some((_, Ok(b))) => format!("ok:{}", digest(b)),
            Some((_, Err(_))) => "err".to_string(),
            None => "none".to_string(),
        };
        let pdg = dg(Some(&(label.clone(), pr.clone())));
        let others: Vec<&(String, Observation)> = all.iter().filter(|(w, _)| w != "parent-2nd").collect();
        out.line(format!("xentry {label} {}", join(others.iter().map(|(_, o)| dg(o.extra_compiles.get(k))), " ")));
        out.line(format!("impl {pdg}"));
        for (who, o) in others {
            if dg(o.extra_compiles.get(k)) != pdg {
                let detail = match (pr, o.extra_compiles.get(k)) {
                    (Ok(a), Some((_, Ok(b)))) => section_diff(a, b),
                    _ => "ok/err class differs".into(),
                };
                out.line(format!("# diverge xentry {label} parent vs {who}: {detail}"));
                out.count("diverge_entry");
            }
        }
        out.count(&format!("entry_{label}"));
    }
    // cross-process: per-cycle dumps
    let ncycles = parent.cycles.len();
    let mut all_ran = ncycles;
    for (_, o) in &all {
        all_ran = all_ran.min(o.cycles.len());
    }
    for i in 0..case.trace.len() {
        let d = |o: &Observation| match o.cycles.get(i) {
            Some(s) => digest(s.as_bytes()),
            None => match &o.build_error {
                Some(_) => "nobuild".to_string(),
                None => "missing".to_string(),
            },
        };
        let pdg = d(&parent);
        out.line(format!("xcycle {i} {}", join(all.iter().map(|(_, o)| d(o)), " ")));
        out.line(format!("impl {pdg}"));
        for (who, o) in &all {
            if d(o) != pdg {
                let detail = match (parent.cycles.get(i), o.cycles.get(i)) {
                    (Some(a), Some(b)) => first_diff(a, b),
                    _ => "one side did not run".into(),
                };
                out.line(format!("# diverge xcycle {i} parent vs {who}: {}", detail.chars().take(300).collect::<String>()));
                out.count("diverge_cycle");
                break;
            }
        }
    }
    // within ONE process, across cycles: image bytes bound only to never-assigned variables, and the
    // republished images of every cycle, must not change (parent's first observation)
    let steady: Vec<&str> = parent.const_images.iter().filter(|(ok, _)| *ok).map(|(_, s)| s.as_str()).collect();
    if !case.const_ranges.is_empty() && steady.len() >= 2 {
        out.line(format!("xconst {}", join(steady.iter().skip(1).map(|s| digest(s.as_bytes())), " ")));
        out.line(format!("impl {}", digest(steady[0].as_bytes())));
        if steady.iter().any(|s| *s != steady[0]) {
            out.line(format!("# diverge xconst: constant image ranges changed between cycles: {}", steady.join(" | ").chars().take(300).collect::<String>()));
            out.count("diverge_const");
        }
        out.count("cases_with_const_ranges");
    }
    for (i, c) in parent.cycles.iter().enumerate() {
        let rep: Vec<&str> = c.lines().filter(|l| l.starts_with("republish ")).map(|l| l.splitn(3, ' ').nth(2).unwrap_or("")).collect();
        if rep.len() >= 2 {
            let first_img = c.lines().find(|l| l.starts_with("in=")).map(|l| l.splitn(2, ' ').nth(1).unwrap_or("").to_string()).unwrap_or_default();
            let mut all_imgs: Vec<String> = vec![first_img];
            all_imgs.extend(rep.iter().map(|r| r.splitn(2, ' ').nth(1).unwrap_or("").to_string()));
            out.line(format!("xrepub {i} {}", join(all_imgs.iter().skip(1).map(|s| digest(s.as_bytes())), " ")));
            out.line(format!("impl {}", digest(all_imgs[0].as_bytes())));
            if all_imgs.iter().any(|s| *s != all_imgs[0]) {
                out.line(format!("# diverge xrepub {i}: republishing the same state changed the images: {}", all_imgs.join(" | ").chars().take(300).collect::<String>()));
                out.count("diverge_republish");
            }
        }
    }
    out.add("cycles_compared", ncycles as u64);
    out.add("processes", (all.len() + 1) as u64);
    if parent.cycles.iter().any(|c| c.contains("faulted=true")) {
        out.count("cases_with_fault");
        out.line("tag fault");
    }
    if case.trace.iter().any(|s| s.restart != 0) {
        out.count("cases_with_restart");
    }
    for t in &case.tags {
        out.line(format!("tag {t}"));
        out.count(&format!("gen_{}", t.replace('-', "_")));
    }
    out.count(&format!("files_{}", case.files.len().min(3)));
    if case.with_paths {
        out.count("cases_with_paths");
    }
    if strings >= 24 && pous >= 6 && all_ran >= 8 {
        out.line("tag nontrivial");
    }
    out.line("end");
    Ok(())
}

pub fn run(args: &Args) -> i32 {
    if let Some(k) = args.extra.get("child") {
        return child_main(args, k.parse().unwrap_or(1));
    }
    if let Some(path) = args.extra.get("probe") {
        // development aid: compile and run one ST file, print errors / the last dump
        let text = std::fs::read_to_string(path).expect("probe file");
        let case = CaseInput {
            with_paths: false,
            entry_variant: 0,
            files: vec![("probe.st".into(), text)],
            bool_inputs: vec![],
            int_inputs: vec![],
            direct_inputs: vec![],
            direct_outputs: vec![],
            const_ranges: vec![],
            tags: vec![],
            trace: (0..3).map(|_| Step { dt_ns: 10_000_000, bools: vec![], ints: vec![], restart: 0 }).collect(),
        };
        let obs = observe(&case, Conditions::default());
        match &obs.compile {
            Some(Ok(b)) => println!("compile ok: {} bytes", b.len()),
            Some(Err(e)) => println!("compile error: {e}"),
            None => {}
        }
        if let Some(e) = &obs.build_error {
            println!("build error: {e}");
        }
        if let Some(last) = obs.cycles.last() {
            println!("{last}");
        }
        return 0;
    }
    let children = args.extra_usize("children", 4);
    let cycles = args.extra_usize("cycles", 10);
    let tmp_dir = std::env::temp_dir().join(format!("vharness-c05-{}", std::process::id()));
    if let Err(e) = std::fs::create_dir_all(&tmp_dir) {
        eprintln!("tmp dir: {e}");
        return 3;
    }
    let mut out = Out::new();
    let started = std::time::Instant::now();
    if args.extra.contains_key("dump-sources") {
        for n in args.case_numbers() {
            let mut rng = Rng::for_case(args.seed, n);
            let case = gen::gen_case(&mut rng, cycles);
            for (p, t) in &case.files {
                println!("(* ---- case {n} file {p} ---- *)\n{t}");
            }
        }
        return 0;
    }
    for n in args.case_numbers() {
        let mut rng = Rng::for_case(args.seed, n);
        let case = gen::gen_case(&mut rng, cycles);
        if let Err(e) = run_case(n, &case, children, &tmp_dir, &mut out) {
            eprintln!("case {n}: {e}");
            let _ = std::fs::remove_dir_all(&tmp_dir);
            return 3;
        }
        out.count("cases");
        if HUNG_THREADS.load(std::sync::atomic::Ordering::SeqCst) >= 3 {
            // every abandoned thread keeps a core busy: stop generating, report what was seen
            out.count("stopped_after_hangs");
            break;
        }
    }
    let _ = std::fs::remove_dir_all(&tmp_dir);
    out.add("harness_wall_ms", started.elapsed().as_millis() as u64);
    out.finish(&args.out);
    0
}
