//! Generator of multi-file ST projects for C05: many identifiers and string literals, user types
//! (enums, structs, array aliases), functions, function blocks with methods and inheritance,
//! classes, interfaces, globals (plain, RETAIN, direct-addressed), several programs and an optional
//! CONFIGURATION with tasks.  Every random choice comes from the case's `Rng`; the generator uses
//! only `Vec`s (no hash containers), so the generated text is a function of the seed alone.

use super::{CaseInput, Step};
use crate::rng::Rng;
use std::fmt::Write as _;

const WORDS: &[&str] = &[
    "Pump", "Valve", "Tank", "Motor", "Axis", "Conv", "Heat", "Cool", "Mix", "Feed", "Drain", "Level", "Press",
    "Flow", "Temp", "Speed", "Pos", "Torque", "Alarm", "Limit", "Ramp", "Gate", "Lift", "Belt", "Fan", "Lamp",
    "Door", "Lock", "Scale", "Batch", "Stage", "Zone", "Cell", "Line", "Unit", "Node", "Link", "Port", "Slot",
];

pub(super) struct Names {
    pub(super) used: Vec<String>,
}

impl Names {
    pub(super) fn fresh(&mut self, rng: &mut Rng, prefix: &str) -> String {
        loop {
            let w1 = *rng.pick(WORDS);
            let name = match rng.below(4) {
                0 => format!("{prefix}{w1}{}", rng.below(1000)),
                1 => format!("{prefix}{w1}{}", rng.pick(WORDS)),
                2 => format!("{prefix}_{}_{}", w1.to_lowercase(), rng.below(100)),
                _ => format!("{prefix}{}{w1}", (b'A' + rng.below(26) as u8) as char),
            };
            let key = name.to_ascii_uppercase();
            if !self.used.contains(&key) {
                self.used.push(key);
                return name;
            }
        }
    }
}

#[derive(Clone)]
struct EnumT {
    name: String,
    variants: Vec<String>,
}

#[derive(Clone)]
struct StructT {
    name: String,
    /// (field, kind): kind 0 DINT, 1 BOOL, 2 STRING, 3 nested struct index, 4 enum index
    fields: Vec<(String, u8, usize)>,
}

#[derive(Clone)]
struct FuncT {
    name: String,
    nparams: usize,
}

#[derive(Clone)]
struct MethodT {
    name: String,
    /// name of the single DINT input (overrides and implementations must repeat the signature)
    param: String,
}

#[derive(Clone)]
struct FbT {
    name: String,
    derived: bool,
    methods: Vec<MethodT>,
    /// DINT fields visible to users of the FB (`VAR PUBLIC`/outputs)
    out_name: String,
    in_name: String,
}

#[derive(Clone)]
struct ClassT {
    name: String,
    methods: Vec<MethodT>,
    iface: Option<usize>,
}

#[derive(Clone)]
struct IfaceT {
    name: String,
    methods: Vec<MethodT>,
}

/// Variables in scope of a body, by type.
#[derive(Default, Clone)]
struct Scope {
    dints: Vec<String>,
    bools: Vec<String>,
    strings: Vec<String>,
    arrays: Vec<(String, usize)>,
    structs: Vec<(String, usize)>,
    enums: Vec<(String, usize)>,
    fbs: Vec<(String, usize)>,
    classes: Vec<(String, usize)>,
    ifaces: Vec<(String, usize)>,
    tons: Vec<String>,
    ctus: Vec<String>,
    trigs: Vec<String>,
    times: Vec<String>,
    /// assignable bit-string variables: (name, 0 BYTE | 1 WORD | 2 DWORD | 3 LWORD)
    bitstrs: Vec<(String, u8)>,
    reals: Vec<String>,
    /// read-only DINT expressions (inputs)
    ro_dints: Vec<String>,
    ro_bools: Vec<String>,
}

struct World {
    enums: Vec<EnumT>,
    structs: Vec<StructT>,
    arrays: Vec<(String, usize)>,
    /// subrange / alias / reference types (declared, used for declarations only)
    plain_types: Vec<String>,
    funcs: Vec<FuncT>,
    ifaces: Vec<IfaceT>,
    classes: Vec<ClassT>,
    fbs: Vec<FbT>,
    /// allow statements that can fault at run time (division by an input)
    risky: bool,
    /// inject semantic errors (the project must be rejected by every process)
    broken: bool,
    /// size factor (1 normally, 3 for the occasional large project with many keys per map)
    scale: u64,
    /// interface-typed variables are only assigned when everything is in one file (the checker does
    /// not relate a class to its interface across files)
    iface_refs: bool,
}

fn lit(rng: &mut Rng) -> String {
    let choices = [0i64, 1, 2, 3, 5, 7, 10, 42, 100, 255, 1000, -1, -7];
    if rng.chance(1, 2) {
        format!("{}", rng.pick(&choices))
    } else {
        format!("DINT#{}", rng.range(0, 999))
    }
}

fn str_lit(rng: &mut Rng) -> String {
    let w = rng.pick(WORDS);
    match rng.below(4) {
        0 => format!("'{}'", w.to_lowercase()),
        1 => format!("'{w}_{}'", rng.below(50)),
        2 => format!("'{} {}'", w, rng.pick(WORDS)),
        _ => format!("'s{}'", rng.below(400)),
    }
}

fn dint_atom(rng: &mut Rng, sc: &Scope) -> String {
    let total = sc.dints.len() + sc.ro_dints.len();
    if total == 0 || rng.chance(1, 4) {
        return lit(rng);
    }
    let i = rng.below(total as u64) as usize;
    if i < sc.dints.len() {
        sc.dints[i].clone()
    } else {
        sc.ro_dints[i - sc.dints.len()].clone()
    }
}

/// A DINT expression whose value stays far from the i32 range when variables are within +-1e6.
fn dint_expr(rng: &mut Rng, sc: &Scope, w: &World, depth: u32) -> String {
    if depth == 0 {
        return dint_atom(rng, sc);
    }
    match rng.below(12) {
        0 | 1 => format!("({} + {})", dint_expr(rng, sc, w, depth - 1), dint_atom(rng, sc)),
        2 => format!("({} - {})", dint_atom(rng, sc), dint_expr(rng, sc, w, depth - 1)),
        3 => format!("({} * {})", dint_atom(rng, sc), rng.range(2, 9)),
        4 => format!("({} / {})", dint_atom(rng, sc), rng.range(2, 9)),
        5 => format!("({} MOD {})", dint_expr(rng, sc, w, depth - 1), rng.range(2, 97)),
        6 if !w.funcs.is_empty() => {
            let f = rng.pick(&w.funcs).clone();
            let args: Vec<String> = (0..f.nparams).map(|_| dint_atom(rng, sc)).collect();
            format!("{}({})", f.name, args.join(", "))
        }
        7 => format!("ABS({})", dint_atom(rng, sc)),
        8 => format!("MAX({}, {})", dint_atom(rng, sc), dint_atom(rng, sc)),
        9 => format!("SEL({}, {}, {})", bool_expr(rng, sc, 0), dint_atom(rng, sc), dint_atom(rng, sc)),
        10 if !sc.arrays.is_empty() => {
            let (a, n) = rng.pick(&sc.arrays).clone();
            if rng.bool() {
                format!("{a}[{}]", rng.below(n as u64))
            } else {
                format!("{a}[ABS({}) MOD {n}]", dint_atom(rng, sc))
            }
        }
        11 if !sc.structs.is_empty() => {
            let (s, si) = rng.pick(&sc.structs).clone();
            struct_dint_path(rng, w, &s, si)
        }
        _ => dint_atom(rng, sc),
    }
}

fn struct_dint_path(rng: &mut Rng, w: &World, var: &str, si: usize) -> String {
    let st = &w.structs[si];
    let dfields: Vec<&(String, u8, usize)> = st.fields.iter().filter(|f| f.1 == 0).collect();
    let nested: Vec<&(String, u8, usize)> = st.fields.iter().filter(|f| f.1 == 3).collect();
    if !nested.is_empty() && rng.chance(1, 3) {
        let f = rng.pick(&nested);
        return struct_dint_path(rng, w, &format!("{var}.{}", f.0), f.2);
    }
    // every struct has at least one DINT field (generator invariant)
    let f = rng.pick(&dfields);
    format!("{var}.{}", f.0)
}

fn bool_expr(rng: &mut Rng, sc: &Scope, depth: u32) -> String {
    let atom = |rng: &mut Rng| -> String {
        let total = sc.bools.len() + sc.ro_bools.len();
        if total == 0 || rng.chance(1, 5) {
            return if rng.bool() { "TRUE".into() } else { "FALSE".into() };
        }
        let i = rng.below(total as u64) as usize;
        if i < sc.bools.len() {
            sc.bools[i].clone()
        } else {
            sc.ro_bools[i - sc.bools.len()].clone()
        }
    };
    if depth == 0 {
        return atom(rng);
    }
    match rng.below(7) {
        0 => format!("({} AND {})", atom(rng), bool_expr(rng, sc, depth - 1)),
        1 => format!("({} OR {})", bool_expr(rng, sc, depth - 1), atom(rng)),
        2 => format!("(NOT {})", atom(rng)),
        3 => format!("({} XOR {})", atom(rng), atom(rng)),
        4 => format!("({} > {})", dint_atom(rng, sc), dint_atom(rng, sc)),
        5 => format!("({} = {})", dint_atom(rng, sc), lit(rng)),
        _ => format!("({} <= {})", dint_atom(rng, sc), dint_atom(rng, sc)),
    }
}

fn indent(out: &mut String, level: usize) {
    for _ in 0..level {
        out.push_str("    ");
    }
}

/// Appends `n` statements to `out`.
fn stmts(rng: &mut Rng, sc: &Scope, w: &World, n: usize, depth: u32, level: usize, out: &mut String) {
    for _ in 0..n {
        stmt(rng, sc, w, depth, level, out);
    }
}

fn bounded_assign(rng: &mut Rng, sc: &Scope, w: &World, level: usize, out: &mut String) {
    if sc.dints.is_empty() {
        return;
    }
    let target = rng.pick(&sc.dints).clone();
    let e = dint_expr(rng, sc, w, 2);
    indent(out, level);
    let _ = writeln!(out, "{target} := ({e}) MOD 100000;");
}

fn stmt(rng: &mut Rng, sc: &Scope, w: &World, depth: u32, level: usize, out: &mut String) {
    let k = rng.below(22);
    match k {
        0..=4 => bounded_assign(rng, sc, w, level, out),
        5 if !sc.bools.is_empty() => {
            let t = rng.pick(&sc.bools).clone();
            indent(out, level);
            let _ = writeln!(out, "{t} := {};", bool_expr(rng, sc, 2));
        }
        6 if !sc.strings.is_empty() => {
            let t = rng.pick(&sc.strings).clone();
            indent(out, level);
            let _ = writeln!(out, "{t} := {};", str_lit(rng));
        }
        7 if depth > 0 => {
            indent(out, level);
            let _ = writeln!(out, "IF {} THEN", bool_expr(rng, sc, 2));
            let cnt = 1 + rng.below(2) as usize;
            stmts(rng, sc, w, cnt, depth - 1, level + 1, out);
            if rng.chance(1, 3) {
                indent(out, level);
                let _ = writeln!(out, "ELSIF {} THEN", bool_expr(rng, sc, 1));
                stmts(rng, sc, w, 1, depth - 1, level + 1, out);
            }
            if rng.chance(1, 2) {
                indent(out, level);
                out.push_str("ELSE\n");
                stmts(rng, sc, w, 1, depth - 1, level + 1, out);
            }
            indent(out, level);
            out.push_str("END_IF;\n");
        }
        8 if depth > 0 => {
            indent(out, level);
            let _ = writeln!(out, "CASE ABS({}) MOD 5 OF", dint_atom(rng, sc));
            indent(out, level + 1);
            out.push_str("0:\n");
            stmts(rng, sc, w, 1, depth - 1, level + 2, out);
            indent(out, level + 1);
            out.push_str("1, 2:\n");
            stmts(rng, sc, w, 1, depth - 1, level + 2, out);
            if rng.bool() {
                indent(out, level + 1);
                out.push_str("3..4:\n");
                stmts(rng, sc, w, 1, depth - 1, level + 2, out);
            }
            indent(out, level);
            out.push_str("ELSE\n");
            stmts(rng, sc, w, 1, depth - 1, level + 1, out);
            indent(out, level);
            out.push_str("END_CASE;\n");
        }
        9 if depth > 0 && sc.dints.len() >= 2 => {
            // FOR loops allocate the encoder's `__st_rt_for_end/step` temporaries
            let iv = sc.dints[0].clone();
            let mut inner = sc.clone();
            inner.dints.remove(0);
            indent(out, level);
            let _ = writeln!(out, "FOR {iv} := 0 TO {} DO", rng.below(4));
            let cnt = 1 + rng.below(2) as usize;
            stmts(rng, &inner, w, cnt, depth - 1, level + 1, out);
            indent(out, level);
            out.push_str("END_FOR;\n");
        }
        10 if depth > 0 && sc.dints.len() >= 2 => {
            let cv = sc.dints[0].clone();
            let mut inner = sc.clone();
            inner.dints.remove(0);
            indent(out, level);
            let _ = writeln!(out, "{cv} := 0;");
            indent(out, level);
            let _ = writeln!(out, "WHILE {cv} < {} DO", rng.below(4));
            stmts(rng, &inner, w, 1, depth - 1, level + 1, out);
            indent(out, level + 1);
            let _ = writeln!(out, "{cv} := {cv} + 1;");
            indent(out, level);
            out.push_str("END_WHILE;\n");
        }
        11 if !sc.arrays.is_empty() => {
            let (a, n) = rng.pick(&sc.arrays).clone();
            indent(out, level);
            let _ = writeln!(out, "{a}[{}] := ({}) MOD 1000;", rng.below(n as u64), dint_expr(rng, sc, w, 1));
        }
        12 if !sc.structs.is_empty() => {
            let (s, si) = rng.pick(&sc.structs).clone();
            // assignment targets: direct fields only (the lowering rejects nested field targets)
            let dfields: Vec<&(String, u8, usize)> = w.structs[si].fields.iter().filter(|f| f.1 == 0).collect();
            let path = format!("{s}.{}", rng.pick(&dfields).0);
            indent(out, level);
            let _ = writeln!(out, "{path} := ({}) MOD 1000;", dint_expr(rng, sc, w, 1));
            // BOOL / STRING / enum fields
            let st = &w.structs[si];
            for f in &st.fields {
                if rng.chance(1, 3) {
                    match f.1 {
                        1 => {
                            indent(out, level);
                            let _ = writeln!(out, "{s}.{} := {};", f.0, bool_expr(rng, sc, 1));
                        }
                        2 => {
                            indent(out, level);
                            let _ = writeln!(out, "{s}.{} := {};", f.0, str_lit(rng));
                        }
                        4 => {
                            let e = &w.enums[f.2];
                            indent(out, level);
                            let _ = writeln!(out, "{s}.{} := {}#{};", f.0, e.name, rng.pick(&e.variants));
                        }
                        _ => {}
                    }
                }
            }
        }
        13 if !sc.enums.is_empty() => {
            let (v, ei) = rng.pick(&sc.enums).clone();
            let e = &w.enums[ei];
            indent(out, level);
            if rng.bool() || sc.dints.is_empty() {
                let _ = writeln!(out, "{v} := {}#{};", e.name, rng.pick(&e.variants));
            } else {
                let t = rng.pick(&sc.dints).clone();
                let _ = writeln!(out, "IF {v} = {}#{} THEN", e.name, rng.pick(&e.variants));
                indent(out, level + 1);
                let _ = writeln!(out, "{t} := ({t} + 1) MOD 100000;");
                indent(out, level);
                out.push_str("END_IF;\n");
            }
        }
        14 | 15 if !sc.fbs.is_empty() => {
            let (v, fi) = rng.pick(&sc.fbs).clone();
            let fb = &w.fbs[fi];
            indent(out, level);
            if fb.derived {
                // the checker does not see inherited inputs in a call
                let _ = writeln!(out, "{v}();");
            } else {
                let _ = writeln!(out, "{v}({} := {});", fb.in_name, dint_expr(rng, sc, w, 1));
            }
            if !sc.dints.is_empty() {
                let t = rng.pick(&sc.dints).clone();
                indent(out, level);
                if !fb.methods.is_empty() && rng.bool() {
                    let m = rng.pick(&fb.methods);
                    let _ = writeln!(out, "{t} := {v}.{}({}) MOD 100000;", m.name, dint_atom(rng, sc));
                } else {
                    let _ = writeln!(out, "{t} := {v}.{} MOD 100000;", fb.out_name);
                }
            }
        }
        16 if !sc.classes.is_empty() && !sc.dints.is_empty() => {
            let (v, ci) = rng.pick(&sc.classes).clone();
            let c = &w.classes[ci];
            if !c.methods.is_empty() {
                let m = rng.pick(&c.methods);
                let t = rng.pick(&sc.dints).clone();
                indent(out, level);
                let _ = writeln!(out, "{t} := {v}.{}({}) MOD 100000;", m.name, dint_atom(rng, sc));
            }
        }
        17 if !sc.ifaces.is_empty() && !sc.dints.is_empty() => {
            let (v, ii) = rng.pick(&sc.ifaces).clone();
            // bind to an implementing class instance in scope, then call through the interface
            let impls: Vec<&(String, usize)> = sc.classes.iter().filter(|(_, ci)| w.classes[*ci].iface == Some(ii)).collect();
            if !impls.is_empty() {
                let (cv, _) = (*rng.pick(&impls)).clone();
                let m = rng.pick(&w.ifaces[ii].methods).clone();
                let t = rng.pick(&sc.dints).clone();
                indent(out, level);
                let _ = writeln!(out, "{v} := {cv};");
                indent(out, level);
                let _ = writeln!(out, "{t} := {v}.{}({}) MOD 100000;", m.name, dint_atom(rng, sc));
            }
        }
        18 if !sc.tons.is_empty() && !sc.bools.is_empty() => {
            let t = rng.pick(&sc.tons).clone();
            let b = rng.pick(&sc.bools).clone();
            indent(out, level);
            let _ = writeln!(out, "{t}(IN := {}, PT := T#{}ms);", bool_expr(rng, sc, 1), 5 * (1 + rng.below(8)));
            indent(out, level);
            let _ = writeln!(out, "{b} := {t}.Q;");
            if !sc.times.is_empty() {
                let tv = rng.pick(&sc.times).clone();
                indent(out, level);
                let _ = writeln!(out, "{tv} := {t}.ET;");
            }
        }
        19 if !sc.ctus.is_empty() && !sc.bools.is_empty() => {
            let c = rng.pick(&sc.ctus).clone();
            let b = rng.pick(&sc.bools).clone();
            indent(out, level);
            let _ = writeln!(out, "{c}(CU := {}, R := {}, PV := INT#{});", bool_expr(rng, sc, 1), bool_expr(rng, sc, 0), 1 + rng.below(6));
            indent(out, level);
            let _ = writeln!(out, "{b} := {c}.Q;");
        }
        20 if !sc.trigs.is_empty() && !sc.bools.is_empty() => {
            let r = rng.pick(&sc.trigs).clone();
            let b = rng.pick(&sc.bools).clone();
            indent(out, level);
            let _ = writeln!(out, "{r}(CLK := {});", bool_expr(rng, sc, 1));
            indent(out, level);
            let _ = writeln!(out, "{b} := {r}.Q;");
        }
        21 if w.risky && !sc.dints.is_empty() && !sc.ro_dints.is_empty() && rng.chance(1, 3) => {
            // may fault (division by zero) depending on the trace: faults are observables too
            let t = rng.pick(&sc.dints).clone();
            let d = rng.pick(&sc.ro_dints).clone();
            indent(out, level);
            let _ = writeln!(out, "{t} := {t} / {d};");
        }
        _ => {
            if !sc.bitstrs.is_empty() && rng.chance(1, 2) {
                let (v, k) = rng.pick(&sc.bitstrs).clone();
                let e = dint_expr(rng, sc, w, 1);
                indent(out, level);
                let _ = match k {
                    0 => writeln!(out, "{v} := DINT_TO_BYTE(ABS({e}) MOD 256);"),
                    1 => writeln!(out, "{v} := DINT_TO_WORD(ABS({e}) MOD 65536);"),
                    2 => writeln!(out, "{v} := DINT_TO_DWORD(ABS({e}));"),
                    _ => writeln!(out, "{v} := DINT_TO_LWORD(ABS({e}));"),
                };
            } else if !sc.reals.is_empty() && rng.chance(1, 4) {
                let v = rng.pick(&sc.reals).clone();
                indent(out, level);
                let _ = writeln!(out, "{v} := {v} + REAL#0.5;");
            } else {
                bounded_assign(rng, sc, w, level, out)
            }
        }
    }
}

fn gen_types(rng: &mut Rng, names: &mut Names, w: &mut World) -> String {
    let mut s = String::new();
    let nen = rng.below(4 * w.scale) as usize;
    for _ in 0..nen {
        let name = names.fresh(rng, "E");
        let nv = 2 + rng.below(4) as usize;
        let variants: Vec<String> = (0..nv).map(|_| names.fresh(rng, "v")).collect();
        if rng.bool() {
            let _ = writeln!(
                s,
                "TYPE {name} : ({}); END_TYPE\n",
                variants.iter().enumerate().map(|(i, v)| format!("{v} := {}", i * 2)).collect::<Vec<_>>().join(", ")
            );
        } else {
            let _ = writeln!(s, "TYPE {name} : ({}); END_TYPE\n", variants.join(", "));
        }
        w.enums.push(EnumT { name, variants });
    }
    let nst = 1 + rng.below(4 * w.scale) as usize;
    for _ in 0..nst {
        let name = names.fresh(rng, "S");
        let mut fields = vec![(names.fresh(rng, "f"), 0u8, 0usize)];
        for _ in 0..rng.below(5) {
            let fname = names.fresh(rng, "f");
            match rng.below(6) {
                0 | 1 => fields.push((fname, 0, 0)),
                2 => fields.push((fname, 1, 0)),
                3 => fields.push((fname, 2, 0)),
                4 if !w.structs.is_empty() => {
                    let j = rng.below(w.structs.len() as u64) as usize;
                    fields.push((fname, 3, j));
                }
                5 if !w.enums.is_empty() => {
                    let j = rng.below(w.enums.len() as u64) as usize;
                    fields.push((fname, 4, j));
                }
                _ => fields.push((fname, 0, 0)),
            }
        }
        let _ = writeln!(s, "TYPE {name} :\nSTRUCT");
        for (f, k, j) in &fields {
            let ty = match k {
                0 => "DINT".to_string(),
                1 => "BOOL".to_string(),
                2 => format!("STRING[{}]", 16 + rng.below(48)),
                3 => w.structs[*j].name.clone(),
                _ => w.enums[*j].name.clone(),
            };
            let _ = writeln!(s, "    {f} : {ty};");
        }
        let _ = writeln!(s, "END_STRUCT\nEND_TYPE\n");
        w.structs.push(StructT { name, fields });
    }
    for _ in 0..rng.below(3) {
        let name = names.fresh(rng, "T");
        match rng.below(3) {
            0 => {
                let _ = writeln!(s, "TYPE {name} : INT({}..{}); END_TYPE\n", rng.below(5), 10 + rng.below(90));
            }
            1 => {
                let _ = writeln!(s, "TYPE {name} : {}; END_TYPE\n", rng.pick(&["DINT", "WORD", "LREAL", "TIME", "STRING[12]"]));
            }
            _ => {
                let _ = writeln!(s, "TYPE {name} : REF_TO {}; END_TYPE\n", rng.pick(&["DINT", "BOOL", "INT"]));
            }
        }
        w.plain_types.push(name);
    }
    for _ in 0..rng.below(3) {
        let name = names.fresh(rng, "A");
        let n = 2 + rng.below(6) as usize;
        let _ = writeln!(s, "TYPE {name} : ARRAY[0..{}] OF DINT; END_TYPE\n", n - 1);
        w.arrays.push((name, n));
    }
    s
}

fn gen_functions(rng: &mut Rng, names: &mut Names, w: &mut World) -> String {
    let mut s = String::new();
    let nf = 1 + rng.below(5 * w.scale) as usize;
    for _ in 0..nf {
        let name = names.fresh(rng, "Fn");
        let nparams = 1 + rng.below(3) as usize;
        let params: Vec<String> = (0..nparams).map(|_| names.fresh(rng, "p")).collect();
        let temps: Vec<String> = (0..1 + rng.below(3)).map(|_| names.fresh(rng, "t")).collect();
        let mut sc = Scope::default();
        sc.ro_dints = params.clone();
        sc.dints = temps.clone();
        let _ = writeln!(s, "FUNCTION {name} : DINT\nVAR_INPUT");
        for p in &params {
            let _ = writeln!(s, "    {p} : DINT;");
        }
        let _ = writeln!(s, "END_VAR\nVAR_TEMP");
        for t in &temps {
            let _ = writeln!(s, "    {t} : DINT;");
        }
        let _ = writeln!(s, "END_VAR");
        let n = 1 + rng.below(4) as usize;
        stmts(rng, &sc, w, n, 1, 0, &mut s);
        let _ = writeln!(s, "{name} := ({}) MOD 10000;\nEND_FUNCTION\n", dint_expr(rng, &sc, w, 2));
        w.funcs.push(FuncT { name, nparams });
    }
    s
}

fn gen_method(rng: &mut Rng, names: &mut Names, w: &World, m: &MethodT, fields: &[String], modifier: &str, s: &mut String) {
    let name = m.name.as_str();
    let p = m.param.clone();
    let t = names.fresh(rng, "m");
    let mut sc = Scope::default();
    sc.ro_dints = vec![p.clone()];
    sc.dints = vec![t.clone()];
    sc.dints.extend(fields.iter().cloned());
    let _ = writeln!(s, "METHOD PUBLIC {modifier}{name} : DINT\nVAR_INPUT\n    {p} : DINT;\nEND_VAR\nVAR\n    {t} : DINT;\nEND_VAR");
    let n = 1 + rng.below(3) as usize;
    stmts(rng, &sc, w, n, 1, 0, s);
    let _ = writeln!(s, "{name} := ({}) MOD 10000;\nEND_METHOD", dint_expr(rng, &sc, w, 1));
}

fn gen_oop(rng: &mut Rng, names: &mut Names, w: &mut World) -> String {
    let mut s = String::new();
    // interfaces
    for _ in 0..rng.below(3) {
        let name = names.fresh(rng, "I");
        let methods: Vec<MethodT> = (0..1 + rng.below(3))
            .map(|_| MethodT { name: names.fresh(rng, "Do"), param: names.fresh(rng, "a") })
            .collect();
        let _ = writeln!(s, "INTERFACE {name}");
        for m in &methods {
            let _ = writeln!(s, "METHOD {} : DINT\nVAR_INPUT\n    {} : DINT;\nEND_VAR\nEND_METHOD", m.name, m.param);
        }
        let _ = writeln!(s, "END_INTERFACE\n");
        w.ifaces.push(IfaceT { name, methods });
    }
    // classes
    for _ in 0..rng.below(4 * w.scale) {
        let name = names.fresh(rng, "C");
        let base = if !w.classes.is_empty() && rng.chance(1, 2) {
            Some(rng.below(w.classes.len() as u64) as usize)
        } else {
            None
        };
        let iface = if base.is_none() && !w.ifaces.is_empty() && rng.chance(1, 2) {
            Some(rng.below(w.ifaces.len() as u64) as usize)
        } else {
            None
        };
        let fields: Vec<String> = (0..1 + rng.below(3)).map(|_| names.fresh(rng, "c")).collect();
        let mut methods: Vec<MethodT> = Vec::new();
        let _ = write!(s, "CLASS {name}");
        if let Some(b) = base {
            let _ = write!(s, " EXTENDS {}", w.classes[b].name);
        }
        if let Some(i) = iface {
            let _ = write!(s, " IMPLEMENTS {}", w.ifaces[i].name);
        }
        let _ = writeln!(s, "\nVAR PUBLIC");
        for f in &fields {
            let _ = writeln!(s, "    {f} : DINT := {};", rng.below(50));
        }
        let _ = writeln!(s, "END_VAR");
        if let Some(i) = iface {
            for m in w.ifaces[i].methods.clone() {
                gen_method(rng, names, w, &m, &fields, "", &mut s);
                methods.push(m);
            }
        }
        if let Some(b) = base {
            // inherit, and override some
            for m in w.classes[b].methods.clone() {
                if rng.chance(1, 2) {
                    gen_method(rng, names, w, &m, &fields, "OVERRIDE ", &mut s);
                }
                methods.push(m);
            }
        }
        for _ in 0..rng.below(3) {
            let m = MethodT { name: names.fresh(rng, "Get"), param: names.fresh(rng, "a") };
            gen_method(rng, names, w, &m, &fields, "", &mut s);
            methods.push(m);
        }
        let _ = writeln!(s, "END_CLASS\n");
        w.classes.push(ClassT { name, methods, iface });
    }
    // function blocks
    let nfb = 1 + rng.below(4 * w.scale) as usize;
    for _ in 0..nfb {
        let name = names.fresh(rng, "FB");
        let base = if !w.fbs.is_empty() && rng.chance(1, 3) {
            Some(rng.below(w.fbs.len() as u64) as usize)
        } else {
            None
        };
        let in_name = match base {
            Some(b) => w.fbs[b].in_name.clone(),
            None => names.fresh(rng, "in"),
        };
        let out_name = match base {
            Some(b) => w.fbs[b].out_name.clone(),
            None => names.fresh(rng, "out"),
        };
        let vars: Vec<String> = (0..1 + rng.below(3)).map(|_| names.fresh(rng, "s")).collect();
        let flag = names.fresh(rng, "b");
        let mut methods: Vec<MethodT> = Vec::new();
        let _ = write!(s, "FUNCTION_BLOCK {name}");
        if let Some(b) = base {
            let _ = write!(s, " EXTENDS {}", w.fbs[b].name);
        }
        s.push('\n');
        if base.is_none() {
            let _ = writeln!(s, "VAR_INPUT\n    {in_name} : DINT;\nEND_VAR\nVAR_OUTPUT\n    {out_name} : DINT;\nEND_VAR");
        }
        let _ = writeln!(s, "VAR");
        for v in &vars {
            let _ = writeln!(s, "    {v} : DINT := {};", rng.below(20));
        }
        let _ = writeln!(s, "    {flag} : BOOL;");
        let mut sc = Scope::default();
        sc.dints = vars.clone();
        sc.dints.push(out_name.clone());
        sc.ro_dints = vec![in_name.clone()];
        sc.bools = vec![flag.clone()];
        if rng.chance(1, 2) {
            let t = names.fresh(rng, "ton");
            let _ = writeln!(s, "    {t} : TON;");
            sc.tons.push(t);
        }
        if rng.chance(1, 3) {
            let t = names.fresh(rng, "ctu");
            let _ = writeln!(s, "    {t} : CTU;");
            sc.ctus.push(t);
        }
        if rng.chance(1, 3) {
            let t = names.fresh(rng, "rt");
            let _ = writeln!(s, "    {t} : R_TRIG;");
            sc.trigs.push(t);
        }
        let _ = writeln!(s, "END_VAR");
        let mfields: Vec<String> = vars.clone();
        if let Some(b) = base {
            for m in w.fbs[b].methods.clone() {
                if rng.chance(1, 2) {
                    gen_method(rng, names, w, &m, &mfields, "OVERRIDE ", &mut s);
                }
                methods.push(m);
            }
        }
        for _ in 0..rng.below(3) {
            let m = MethodT { name: names.fresh(rng, "Calc"), param: names.fresh(rng, "a") };
            gen_method(rng, names, w, &m, &mfields, "", &mut s);
            methods.push(m);
        }
        let n = 1 + rng.below(4) as usize;
        stmts(rng, &sc, w, n, 2, 0, &mut s);
        let _ = writeln!(s, "{out_name} := ({out_name} + {in_name}) MOD 100000;\nEND_FUNCTION_BLOCK\n");
        w.fbs.push(FbT { name, derived: base.is_some(), methods, out_name, in_name });
    }
    s
}

struct GlobalsT {
    decl: String,
    dints: Vec<String>,
    bools: Vec<String>,
    strings: Vec<String>,
    bool_inputs: Vec<String>,
    int_inputs: Vec<String>,
    direct_inputs: Vec<String>,
    direct_outputs: Vec<String>,
    direct_in_vars: Vec<String>,
    direct_out_vars: Vec<String>,
    /// assignable direct-addressed bit-string globals: (name, type name, kind)
    bitstrs: Vec<(String, &'static str, u8)>,
    /// never-assigned overlapping bindings: (area letter, first byte, length) whose image bytes must
    /// not change from cycle to cycle
    const_ranges: Vec<(char, usize, usize)>,
    /// next free byte per area for program-level bindings
    retain_decl: String,
}


/// Declarations of one group of overlapping direct-address bindings that start in the same byte or
/// overlap it (`%QB4`, `%QX4.7`, `%QW4`, `%QD4`, `%QL4`, `%QB5`, `%QW3`, ...), in random
/// declaration order, with initial values whose publication order matters (the byte's own bit 7
/// differs from the bit variable bound to it, the word's low byte differs from the byte, ...).
/// Returns (declaration lines, [(name, type, kind or 9 for BOOL)]).
fn overlap_group(rng: &mut Rng, names: &mut Names, area: char, base: usize, prefix: &str) -> (Vec<String>, Vec<(String, &'static str, u8)>) {
    let mut members: Vec<(String, &'static str, u8, String)> = Vec::new(); // name, type, kind, address
    let mut cands: Vec<(&'static str, u8, String, String)> = vec![
        ("BYTE", 0, format!("%{area}B{base}"), format!("16#{:02X}", 1 + rng.below(126))),
        ("BOOL", 9, format!("%{area}X{base}.7"), "TRUE".to_string()),
        ("BOOL", 9, format!("%{area}X{base}.{}", rng.below(7)), if rng.bool() { "TRUE".into() } else { "FALSE".into() }),
        ("WORD", 1, format!("%{area}W{base}"), format!("16#{:04X}", 0x0100 + rng.below(0x7E00))),
        ("DWORD", 2, format!("%{area}D{base}"), format!("16#{:08X}", 0x0001_0000 + rng.below(0x7FFE_0000))),
        ("LWORD", 3, format!("%{area}L{base}"), format!("16#{:08X}", 0x0100_0000 + rng.below(0x7E00_0000))),
        ("BYTE", 0, format!("%{area}B{}", base + 1), format!("16#{:02X}", 1 + rng.below(254))),
        ("WORD", 1, format!("%{area}W{}", base + 1), format!("16#{:04X}", 1 + rng.below(0xFFFE))),
        ("BOOL", 9, format!("%{area}X{}.{}", base + 1, rng.below(8)), "TRUE".to_string()),
    ];
    if base > 0 {
        cands.push(("WORD", 1, format!("%{area}W{}", base - 1), format!("16#{:04X}", 1 + rng.below(0xFFFE))));
    }
    // the same-byte pair first (always present), then a random subset of the rest
    let want = 2 + rng.below(5) as usize;
    let first = cands.remove(0);
    let second = cands.remove(rng.below(5) as usize);
    let mut chosen = vec![first, second];
    while chosen.len() < want && !cands.is_empty() {
        let i = rng.below(cands.len() as u64) as usize;
        chosen.push(cands.remove(i));
    }
    // random declaration order
    for i in (1..chosen.len()).rev() {
        let j = rng.below(i as u64 + 1) as usize;
        chosen.swap(i, j);
    }
    let mut seen_addr: Vec<String> = Vec::new();
    let mut lines = Vec::new();
    for (ty, kind, addr, init) in chosen {
        if seen_addr.contains(&addr) {
            continue;
        }
        seen_addr.push(addr.clone());
        let n = names.fresh(rng, prefix);
        lines.push(format!("    {n} AT {addr} : {ty} := {init};"));
        members.push((n, ty, kind, addr));
    }
    (lines, members.into_iter().map(|(n, t, k, _)| (n, t, k)).collect())
}

fn gen_globals(rng: &mut Rng, names: &mut Names, scale: u64) -> GlobalsT {
    let mut g = GlobalsT {
        decl: String::new(),
        dints: Vec::new(),
        bools: Vec::new(),
        strings: Vec::new(),
        bool_inputs: Vec::new(),
        int_inputs: Vec::new(),
        direct_inputs: Vec::new(),
        direct_outputs: Vec::new(),
        direct_in_vars: Vec::new(),
        direct_out_vars: Vec::new(),
        bitstrs: Vec::new(),
        const_ranges: Vec::new(),
        retain_decl: String::new(),
    };
    let d = &mut g.decl;
    d.push_str("VAR_GLOBAL\n");
    for _ in 0..1 + rng.below(3) {
        let n = names.fresh(rng, "inB");
        let _ = writeln!(d, "    {n} : BOOL := FALSE;");
        g.bool_inputs.push(n);
    }
    for _ in 0..1 + rng.below(2) {
        let n = names.fresh(rng, "inI");
        let _ = writeln!(d, "    {n} : DINT := 0;");
        g.int_inputs.push(n);
    }
    for _ in 0..2 + rng.below(8 * scale) {
        let n = names.fresh(rng, "g");
        match rng.below(4) {
            0 => {
                let _ = writeln!(d, "    {n} : BOOL := {};", if rng.bool() { "TRUE" } else { "FALSE" });
                g.bools.push(n);
            }
            1 => {
                let _ = writeln!(d, "    {n} : STRING[40] := {};", str_lit(rng));
                g.strings.push(n);
            }
            _ => {
                let _ = writeln!(d, "    {n} : DINT := {};", rng.below(100));
                g.dints.push(n);
            }
        }
    }
    // direct-addressed globals: flat and hierarchical addresses
    let mut used_in = Vec::new();
    for _ in 0..rng.below(3) {
        let n = names.fresh(rng, "di");
        let addr = loop {
            let a = if rng.chance(1, 3) {
                format!("%IX{}.{}.{}", 1 + rng.below(2), rng.below(3), rng.below(8))
            } else {
                format!("%IX{}.{}", rng.below(2), rng.below(8))
            };
            if !used_in.contains(&a) {
                used_in.push(a.clone());
                break a;
            }
        };
        let _ = writeln!(d, "    {n} AT {addr} : BOOL;");
        g.direct_inputs.push(addr);
        g.direct_in_vars.push(n);
    }
    let mut used_out = Vec::new();
    for _ in 0..rng.below(3) {
        let n = names.fresh(rng, "dq");
        let addr = loop {
            let a = if rng.chance(1, 3) {
                format!("%QX{}.{}.{}", 1 + rng.below(2), rng.below(3), rng.below(8))
            } else {
                format!("%QX{}.{}", rng.below(2), rng.below(8))
            };
            if !used_out.contains(&a) {
                used_out.push(a.clone());
                break a;
            }
        };
        let _ = writeln!(d, "    {n} AT {addr} : BOOL;");
        g.direct_outputs.push(addr);
        g.direct_out_vars.push(n);
    }
    // overlapping bindings that programs assign (dynamic) ...
    for area in ['Q', 'M'] {
        if rng.chance(3, 4) {
            let base = 4 + 8 * rng.below(3) as usize;
            let (lines, members) = overlap_group(rng, names, area, base, "ov");
            for l in lines {
                let _ = writeln!(d, "{l}");
            }
            for (n, t, k) in members {
                if k == 9 {
                    g.direct_out_vars.push(n);
                } else {
                    g.bitstrs.push((n, t, k));
                }
            }
        }
    }
    // ... and overlapping bindings that nothing assigns: their image bytes are constant
    for area in ['Q', 'M'] {
        if rng.chance(3, 4) {
            let base = 40 + 16 * rng.below(2) as usize;
            let (lines, _members) = overlap_group(rng, names, area, base, "kc");
            for l in lines {
                let _ = writeln!(d, "{l}");
            }
            g.const_ranges.push((area, base.saturating_sub(1), 10));
        }
    }
    d.push_str("END_VAR\n");
    // retained globals with initialisers (RETAIN_INIT section), several types
    let r = &mut g.retain_decl;
    r.push_str("VAR_GLOBAL RETAIN\n");
    for _ in 0..2 + rng.below(5 * scale) {
        let n = names.fresh(rng, "keepG");
        match rng.below(6) {
            0 => {
                let _ = writeln!(r, "    {n} : BOOL := {};", if rng.bool() { "TRUE" } else { "FALSE" });
                g.bools.push(n);
            }
            1 => {
                let _ = writeln!(r, "    {n} : STRING[40] := {};", str_lit(rng));
                g.strings.push(n);
            }
            2 => {
                let _ = writeln!(r, "    {n} : TIME := T#{}ms;", 1 + rng.below(500));
            }
            3 => {
                let _ = writeln!(r, "    {n} : LREAL := {}.{};", rng.below(90), rng.below(99));
            }
            _ => {
                let _ = writeln!(r, "    {n} : DINT := {};", rng.below(1000));
                g.dints.push(n);
            }
        }
    }
    r.push_str("END_VAR\n");
    g
}

fn gen_program(rng: &mut Rng, names: &mut Names, w: &World, g: &GlobalsT, name: &str) -> String {
    let mut s = String::new();
    let mut sc = Scope::default();
    let _ = writeln!(s, "PROGRAM {name}");
    // externals
    let mut ext = String::new();
    let mut take = |rng: &mut Rng, xs: &[String], ty: &str, into: &mut Vec<String>, always: bool| {
        for x in xs {
            if always || rng.chance(2, 3) {
                let _ = writeln!(ext, "    {x} : {ty};");
                into.push(x.clone());
            }
        }
    };
    take(rng, &g.bool_inputs, "BOOL", &mut sc.ro_bools, true);
    take(rng, &g.int_inputs, "DINT", &mut sc.ro_dints, true);
    take(rng, &g.dints, "DINT", &mut sc.dints, false);
    take(rng, &g.bools, "BOOL", &mut sc.bools, false);
    take(rng, &g.strings, "STRING[40]", &mut sc.strings, false);
    take(rng, &g.direct_in_vars, "BOOL", &mut sc.ro_bools, false);
    take(rng, &g.direct_out_vars, "BOOL", &mut sc.bools, false);
    for (n, t, k) in &g.bitstrs {
        if rng.chance(2, 3) {
            let _ = writeln!(ext, "    {n} : {t};");
            sc.bitstrs.push((n.clone(), *k));
        }
    }
    let _ = write!(s, "VAR_EXTERNAL\n{ext}END_VAR\n");
    // locals
    let retain = rng.chance(1, 4);
    if retain {
        let n = names.fresh(rng, "keep");
        let _ = writeln!(s, "VAR RETAIN\n    {n} : DINT := {};\nEND_VAR", rng.below(9));
        sc.dints.push(n);
    }
    let _ = writeln!(s, "VAR");
    for _ in 0..2 + rng.below(5) {
        let n = names.fresh(rng, "x");
        let _ = writeln!(s, "    {n} : DINT := {};", rng.below(100));
        sc.dints.push(n);
    }
    for _ in 0..1 + rng.below(3) {
        let n = names.fresh(rng, "q");
        let _ = writeln!(s, "    {n} : BOOL;");
        sc.bools.push(n);
    }
    for _ in 0..rng.below(3) {
        let n = names.fresh(rng, "txt");
        let _ = writeln!(s, "    {n} : STRING[40] := {};", str_lit(rng));
        sc.strings.push(n);
    }
    for _ in 0..rng.below(3) {
        let n = names.fresh(rng, "arr");
        if !w.arrays.is_empty() && rng.bool() {
            let (an, len) = rng.pick(&w.arrays).clone();
            let _ = writeln!(s, "    {n} : {an};");
            sc.arrays.push((n, len));
        } else {
            let len = 2 + rng.below(5) as usize;
            let _ = writeln!(s, "    {n} : ARRAY[0..{}] OF DINT;", len - 1);
            sc.arrays.push((n, len));
        }
    }
    for _ in 0..rng.below(3) {
        if w.structs.is_empty() {
            break;
        }
        let si = rng.below(w.structs.len() as u64) as usize;
        let n = names.fresh(rng, "rec");
        let _ = writeln!(s, "    {n} : {};", w.structs[si].name);
        sc.structs.push((n, si));
    }
    for _ in 0..rng.below(2) {
        if w.enums.is_empty() {
            break;
        }
        let ei = rng.below(w.enums.len() as u64) as usize;
        let n = names.fresh(rng, "mode");
        let _ = writeln!(s, "    {n} : {} := {}#{};", w.enums[ei].name, w.enums[ei].name, w.enums[ei].variants[0]);
        sc.enums.push((n, ei));
    }
    for _ in 0..1 + rng.below(3) {
        let fi = rng.below(w.fbs.len() as u64) as usize;
        let n = names.fresh(rng, "u");
        let _ = writeln!(s, "    {n} : {};", w.fbs[fi].name);
        sc.fbs.push((n, fi));
    }
    for _ in 0..rng.below(3) {
        if w.classes.is_empty() {
            break;
        }
        let ci = rng.below(w.classes.len() as u64) as usize;
        let n = names.fresh(rng, "obj");
        let _ = writeln!(s, "    {n} : {};", w.classes[ci].name);
        sc.classes.push((n, ci));
    }
    let impl_ifaces: Vec<usize> = sc.classes.iter().filter_map(|(_, ci)| w.classes[*ci].iface).collect();
    if w.iface_refs && !impl_ifaces.is_empty() && rng.chance(2, 3) {
        let ii = *rng.pick(&impl_ifaces);
        let n = names.fresh(rng, "ref");
        let _ = writeln!(s, "    {n} : {};", w.ifaces[ii].name);
        sc.ifaces.push((n, ii));
    }
    if rng.chance(1, 2) {
        let n = names.fresh(rng, "tmr");
        let _ = writeln!(s, "    {n} : TON;");
        sc.tons.push(n);
        let tv = names.fresh(rng, "et");
        let _ = writeln!(s, "    {tv} : TIME;");
        sc.times.push(tv);
    }
    if rng.chance(1, 3) {
        let n = names.fresh(rng, "cnt");
        let _ = writeln!(s, "    {n} : CTU;");
        sc.ctus.push(n);
    }
    if rng.chance(1, 3) {
        let n = names.fresh(rng, "edge");
        let _ = writeln!(s, "    {n} : R_TRIG;");
        sc.trigs.push(n);
    }
    // scalars of many elementary types with initialisers (type table, constant pool)
    for _ in 0..rng.below(6) {
        let n = names.fresh(rng, "k");
        let _ = match rng.below(14) {
            0 => {
                sc.reals.push(n.clone());
                writeln!(s, "    {n} : REAL := {}.5;", rng.below(90))
            }
            1 => writeln!(s, "    {n} : LREAL := {}.25;", rng.below(900)),
            2 => writeln!(s, "    {n} : TIME := T#{}ms;", 1 + rng.below(900)),
            3 => writeln!(s, "    {n} : WORD := 16#{:04X};", rng.below(0xFFFF)),
            4 => writeln!(s, "    {n} : LINT := {};", rng.below(1_000_000)),
            5 => writeln!(s, "    {n} : UINT := {};", rng.below(60000)),
            6 => writeln!(s, "    {n} : SINT := -{};", rng.below(100)),
            7 => writeln!(s, "    {n} : USINT := {};", rng.below(250)),
            8 => writeln!(s, "    {n} : UDINT := {};", rng.below(1_000_000)),
            9 => writeln!(s, "    {n} : ULINT := {};", rng.below(1_000_000)),
            10 => writeln!(s, "    {n} : DWORD := 16#{:08X};", rng.below(0x7FFF_FFFF)),
            11 => writeln!(s, "    {n} : DATE := DATE#2024-0{}-1{};", 1 + rng.below(9), rng.below(9)),
            12 => writeln!(s, "    {n} : WSTRING[12] := \"{}\";", rng.pick(WORDS).to_lowercase()),
            _ => writeln!(s, "    {n} : INT := INT#{};", rng.below(30000)),
        };
    }
    for _ in 0..rng.below(2) {
        if w.plain_types.is_empty() {
            break;
        }
        let n = names.fresh(rng, "pt");
        let _ = writeln!(s, "    {n} : {};", rng.pick(&w.plain_types));
    }
    // program-level overlapping direct-address bindings (they may also overlap the global groups)
    for area in ['Q', 'M'] {
        if rng.chance(1, 3) {
            let base = 4 + 8 * rng.below(3) as usize;
            let (lines, members) = overlap_group(rng, names, area, base, "pv");
            for l in lines {
                let _ = writeln!(s, "{l}");
            }
            for (n, _t, k) in members {
                if k == 9 {
                    sc.bools.push(n);
                } else {
                    sc.bitstrs.push((n, k));
                }
            }
        }
    }
    let _ = writeln!(s, "END_VAR");
    if rng.chance(1, 2) {
        let n = names.fresh(rng, "tmp");
        let _ = writeln!(s, "VAR_TEMP\n    {n} : DINT;\nEND_VAR");
        sc.dints.push(n);
    }
    let n = 4 + rng.below(12) as usize;
    stmts(rng, &sc, w, n, 2, 0, &mut s);
    if w.broken {
        // semantic errors (several per project): every process must reject the project
        for _ in 0..1 + rng.below(3) {
            match rng.below(3) {
                0 => {
                    let _ = writeln!(s, "{} := {};", rng.pick(&sc.dints), str_lit(rng));
                }
                1 => {
                    let _ = writeln!(s, "{} := Undeclared{}(1);", rng.pick(&sc.dints), rng.below(9));
                }
                _ => {
                    let _ = writeln!(s, "missing_{} := 1;", rng.below(9));
                }
            }
        }
    }
    let _ = writeln!(s, "END_PROGRAM\n");
    s
}

/// Programs whose top-level block has exactly `len` one-line statements with one forward `JMP`; the
/// programs of one project have the same length, the label sits at different indices, and the label
/// name is shared by some and distinct for others.
fn gen_jump_programs(rng: &mut Rng, names: &mut Names, g: &GlobalsT, count: usize) -> Vec<(String, String)> {
    let len = 4 + rng.below(4) as usize;
    let shared_label = names.fresh(rng, "Skip");
    let mut out = Vec::new();
    for _ in 0..count {
        let name = names.fresh(rng, "PrgJ");
        let x = names.fresh(rng, "j");
        let label = if rng.bool() { shared_label.clone() } else { names.fresh(rng, "L") };
        let jump_at = rng.below(len as u64 - 2) as usize;
        let label_at = jump_at + 1 + rng.below((len - jump_at - 1) as u64) as usize;
        let mut s = String::new();
        let _ = writeln!(s, "PROGRAM {name}");
        let shared = if !g.dints.is_empty() && rng.bool() { Some(rng.pick(&g.dints).clone()) } else { None };
        if let Some(sh) = &shared {
            let _ = writeln!(s, "VAR_EXTERNAL\n    {sh} : DINT;\nEND_VAR");
        }
        let _ = writeln!(s, "VAR\n    {x} : DINT := {};\nEND_VAR", rng.below(50));
        for i in 0..len {
            let body = match (&shared, rng.below(3)) {
                (Some(sh), 0) => format!("{sh} := ({sh} * 3 + {x} + {}) MOD 100000;", 1 + i),
                _ => format!("{x} := ({x} + {}) MOD 100000;", [1, 10, 100, 1000, 7, 70, 700, 13][i % 8]),
            };
            if i == jump_at {
                let _ = writeln!(s, "JMP {label};");
            } else if i == label_at {
                let _ = writeln!(s, "{label}: {body}");
            } else {
                let _ = writeln!(s, "{body}");
            }
        }
        let _ = writeln!(s, "END_PROGRAM\n");
        out.push((name, s));
    }
    out
}

pub fn gen_case(rng: &mut Rng, cycles: usize) -> CaseInput {
    let mut names = Names { used: Vec::new() };
    // reserved words / standard names the generator must not produce
    for r in ["IN", "PT", "ET", "Q", "CU", "CV", "PV", "R", "CLK", "TON", "CTU", "R_TRIG"] {
        names.used.push(r.to_string());
    }
    let mut w = World {
        enums: Vec::new(),
        structs: Vec::new(),
        arrays: Vec::new(),
        plain_types: Vec::new(),
        funcs: Vec::new(),
        ifaces: Vec::new(),
        classes: Vec::new(),
        fbs: Vec::new(),
        risky: rng.chance(1, 8),
        broken: rng.chance(1, 16),
        scale: if rng.chance(1, 5) { 3 } else { 1 },
        iface_refs: false,
    };
    let layout = rng.below(3);
    w.iface_refs = layout == 0;
    let types = gen_types(rng, &mut names, &mut w);
    let funcs = gen_functions(rng, &mut names, &mut w);
    let oop = gen_oop(rng, &mut names, &mut w);
    let g = gen_globals(rng, &mut names, w.scale);
    let nprog = 1 + rng.below(4 + 2 * (w.scale - 1)) as usize;
    let prog_names: Vec<String> = (0..nprog).map(|_| names.fresh(rng, "Prg")).collect();
    let mut prog_names = prog_names;
    let mut programs = Vec::new();
    for pn in &prog_names {
        programs.push(gen_program(rng, &mut names, &w, &g, pn));
    }
    // in half of the projects: 2-3 equally long programs with labels and JMP
    if rng.bool() {
        let count = 2 + rng.below(2) as usize;
        for (n, text) in gen_jump_programs(rng, &mut names, &g, count) {
            prog_names.push(n);
            programs.push(text);
        }
    }
    // two further families, generated from a stream of their own (forked without advancing the main one):
    // namespaces + USING (import order), and named arguments with side effects / faults (evaluation order)
    let mut rx = Rng::new(rng.clone().next() ^ 0x00C0_5003);
    let mut tags: Vec<String> = Vec::new();
    let ns_unit = if rx.chance(1, 2) { Some(super::gen_order::gen_namespaces(&mut rx, &mut names)) } else { None };
    let arg_unit = if rx.chance(1, 2) { Some(super::gen_order::gen_arg_order(&mut rx, &mut names, cycles)) } else { None };
    if let Some(u) = &ns_unit {
        prog_names.extend(u.programs.iter().cloned());
        tags.extend(u.tags.iter().cloned());
    }
    if let Some(u) = &arg_unit {
        prog_names.push(u.program.clone());
        tags.extend(u.tags.iter().cloned());
    }
    // configuration: tasks with intervals / priorities, some programs in the background
    let mut conf = String::new();
    let cname = names.fresh(rng, "Cfg");
    let _ = writeln!(conf, "CONFIGURATION {cname}");
    conf.push_str(&g.decl);
    conf.push_str(&g.retain_decl);
    if let Some(u) = &arg_unit {
        conf.push_str(&u.globals);
    }
    let use_resource = rng.chance(1, 3);
    if use_resource {
        let _ = writeln!(conf, "RESOURCE {} ON CPU", names.fresh(rng, "Res"));
    }
    let ntasks = rng.below(4) as usize;
    let task_names: Vec<String> = (0..ntasks).map(|_| names.fresh(rng, "Tsk")).collect();
    for t in &task_names {
        let _ = writeln!(
            conf,
            "TASK {t} (INTERVAL := T#{}ms, PRIORITY := {});",
            *rng.pick(&[0u32, 5, 10, 10, 20, 50]),
            rng.below(4)
        );
    }
    for pn in &prog_names {
        let inst = names.fresh(rng, "Inst");
        if !task_names.is_empty() && rng.chance(1, 2) {
            let _ = writeln!(conf, "PROGRAM {inst} WITH {} : {pn};", rng.pick(&task_names));
        } else {
            let _ = writeln!(conf, "PROGRAM {inst} : {pn};");
        }
    }
    if use_resource {
        conf.push_str("END_RESOURCE\n");
    }
    conf.push_str("END_CONFIGURATION\n");

    // distribute over files
    // relative, directory-qualified labels (some not normalised): what a CLI / bundle build passes
    let top = *rng.pick(&["plant", "src", "app/st"]);
    let mut units: Vec<(String, String)> = vec![
        (format!("{top}/types.st"), types),
        (format!("./{top}/lib.st"), funcs),
        (format!("{top}/units/../units/blocks.st"), oop),
    ];
    for (i, p) in programs.into_iter().enumerate() {
        units.push((format!("{top}/programs/prog{i}.st"), p));
    }
    if let Some(u) = ns_unit {
        units.push((format!("{top}/lib/spaces.st"), u.libs));
        units.push((format!("{top}/programs/spaces_users.st"), u.users));
    }
    if let Some(u) = arg_unit {
        units.push((format!("{top}/programs/calls.st"), u.text));
    }
    units.push(("config.st".into(), conf));
    let files: Vec<(String, String)> = match layout {
        0 => vec![(format!("{top}/all.st"), units.iter().map(|(_, t)| t.as_str()).collect::<Vec<_>>().join("\n"))],
        1 => units,
        _ => {
            // two files
            let mid = units.len() / 2;
            vec![
                (format!("{top}/a.st"), units[..mid].iter().map(|(_, t)| t.as_str()).collect::<Vec<_>>().join("\n")),
                (format!("./{top}/b.st"), units[mid..].iter().map(|(_, t)| t.as_str()).collect::<Vec<_>>().join("\n")),
            ]
        }
    };
    // trace
    let dts = [0i64, 1, 5, 10, 10, 10, 20, 50, 100];
    let mut bools: Vec<bool> = g.bool_inputs.iter().map(|_| rng.bool()).collect();
    let mut trace = Vec::new();
    for _ in 0..cycles {
        for b in bools.iter_mut() {
            if rng.chance(1, 3) {
                *b = !*b;
            }
        }
        let ints: Vec<i32> = g
            .int_inputs
            .iter()
            .map(|_| if rng.chance(1, 6) { 0 } else { rng.range(-50, 500) as i32 })
            .collect();
        let mut dt = *rng.pick(&dts) * 1_000_000;
        if rng.chance(1, 6) {
            dt += rng.range(0, 999_999);
        }
        trace.push(Step { dt_ns: dt, bools: bools.clone(), ints, restart: 0 });
    }
    if rng.chance(1, 6) && trace.len() > 3 {
        let at = 2 + rng.below(trace.len() as u64 - 2) as usize;
        trace[at].restart = if rng.bool() { 1 } else { 2 };
    }
    CaseInput {
        with_paths: rng.chance(2, 3),
        entry_variant: rng.below(3) as u8,
        files,
        bool_inputs: g.bool_inputs.clone(),
        int_inputs: g.int_inputs.clone(),
        direct_inputs: g.direct_inputs.clone(),
        direct_outputs: g.direct_outputs.clone(),
        const_ranges: g.const_ranges.clone(),
        trace,
        tags,
    }
}
