//! Two further families of generated code for C05, both about an ORDER that the sources fix and that
//! no hash seed may change:
//!
//! * `gen_namespaces` — NAMESPACE blocks (plain, dotted, nested) that declare the SAME simple names
//!   (struct / enum / subrange types, function blocks, functions, classes) with different contents,
//!   and consumers (programs, function blocks, functions, class methods; at file level or inside
//!   further namespaces) that reach them only through USING directives: at file level, on enclosing
//!   namespaces, on the POU and on the method; one directive per namespace or comma lists; the same
//!   namespace imported more than once on one scope chain.  Which declaration an unqualified name
//!   means is decided by the order of the import list (first match wins in the lowering and at run
//!   time), so the container bytes and the run-time values depend on it.
//! * `gen_arg_order` — calls with NAMED arguments whose argument expressions have side effects
//!   (VAR_IN_OUT, a global through VAR_EXTERNAL, a method that changes its instance) or fault
//!   (division by zero, modulo by zero, array index out of bounds): every extensible standard
//!   function that can be called formally (ADD MUL MIN MAX MUX GT GE EQ LE LT CONCAT), fixed-arity
//!   standard functions (SUB DIV SEL LIMIT FIND), user functions, function-block invocations and
//!   methods; the arguments are written in a random order.  Every argument leaves its own digit in a
//!   log variable, so the variable states record the complete evaluation order, and when several
//!   arguments fault the latched fault names the one evaluated first.
//!
//! Steered around (deterministic behaviour of the unchanged code, outside C05, each would only blunt
//! the cases): a function declared in a NAMESPACE returns its type's default (the result lands in a
//! global of the function's simple name — still dumped, so the callee remains observable); a method
//! call on an instance of a CLASS declared in a NAMESPACE faults "undefined field" (library classes
//! are only read, consumer classes stay at file level); two dotted namespaces `A.B` / `A.C`
//! declaring one name collide (at most one dotted library); the checker resolves the innermost
//! USING scope first while the lowering walks the chain outermost first (only members common to all
//! declarations of a name are used, so both agree on validity).
//!
//! Only `Vec`s are used (no hash containers): the text is a function of the seed alone.

use super::gen::Names;
use crate::rng::Rng;
use std::fmt::Write as _;

// ------------------------------------------------------------------------------------------------
// Namespaces and USING
// ------------------------------------------------------------------------------------------------

#[derive(Clone, Copy, PartialEq, Eq, Debug)]
enum Kind {
    Struct,
    Enum,
    Sub,
    Fb,
    Func,
    Class,
}

struct PoolName {
    kind: Kind,
    name: String,
    /// which library namespaces declare it
    decl: Vec<bool>,
}

#[derive(Clone, Copy, PartialEq, Eq, Debug)]
enum ConsumerKind {
    Program,
    Fb,
    Func,
    ClassMethod,
    /// a TYPE block inside a consumer namespace whose USING directives reach the library types
    TypeDecl,
}

pub struct NsUnit {
    /// the library namespaces
    pub libs: String,
    /// file-level USING directives + the consumers
    pub users: String,
    /// program types to instantiate in the CONFIGURATION
    pub programs: Vec<String>,
    pub tags: Vec<String>,
}

/// What trust-hir's scope walk does (`SymbolTable::resolve` / `lookup_name_symbol`): innermost scope
/// first; in the first scope whose USING directives reach a declaration of the name, exactly one
/// distinct declaration must be reached (otherwise E105 "ambiguous reference").  `chain` is
/// outermost first.  The generator only uses names for which this gives `Some`.
fn checker_resolves(chain: &[Vec<usize>], decl: &[bool]) -> Option<usize> {
    for scope in chain.iter().rev() {
        let mut hit: Vec<usize> = Vec::new();
        for l in scope {
            if decl[*l] && !hit.contains(l) {
                hit.push(*l);
            }
        }
        match hit.len() {
            0 => continue,
            1 => return Some(hit[0]),
            _ => return None,
        }
    }
    None
}

fn using_text(rng: &mut Rng, scope: &[usize], paths: &[String], level: usize) -> String {
    // one directive per namespace, or comma lists, in the given order
    let mut s = String::new();
    let mut i = 0;
    while i < scope.len() {
        let take = if rng.chance(1, 3) { (1 + rng.below(3) as usize).min(scope.len() - i) } else { 1 };
        for _ in 0..level {
            s.push_str("    ");
        }
        let list: Vec<&str> = scope[i..i + take].iter().map(|l| paths[*l].as_str()).collect();
        let _ = writeln!(s, "USING {};", list.join(", "));
        i += take;
    }
    s
}

fn random_scope(rng: &mut Rng, nlibs: usize, max: usize) -> Vec<usize> {
    let n = rng.below(max as u64 + 1) as usize;
    (0..n).map(|_| rng.below(nlibs as u64) as usize).collect()
}

struct Consumer {
    kind: ConsumerKind,
    name: String,
    /// qualified name as seen from file level
    qualified: String,
    /// entry name (method) for ClassMethod
    method: String,
    text: String,
}

pub(super) fn gen_namespaces(rng: &mut Rng, names: &mut Names) -> NsUnit {
    let mut tags: Vec<String> = Vec::new();
    let nlibs = 2 + rng.below(3) as usize;
    // --- library namespaces: plain / dotted / nested-block declarations
    let group = names.fresh(rng, "Grp");
    let mut paths: Vec<String> = Vec::new();
    let mut forms: Vec<u8> = Vec::new();
    for _ in 0..nlibs {
        let base = names.fresh(rng, "Lb");
        // 0,1 plain; 2 dotted `NAMESPACE A.B` (at most one per project, and rarely: the lowering drops the
        // qualification of declarations in a dotted namespace, so two of them would collide); 3 nested blocks
        let mut form = rng.below(4) as u8;
        if form == 2 && (forms.contains(&2) || !rng.chance(1, 4)) {
            form = 3;
        }
        match form {
            2 => paths.push(format!("{group}.{base}")),
            3 => paths.push(format!("{group}.{base}")),
            _ => paths.push(base),
        }
        forms.push(form);
    }
    // --- the pool of simple names; the first name of each of struct / fb / function is declared by
    //     libraries 0 and 1 at least (a clash), the others by a random subset
    let kinds = [Kind::Struct, Kind::Fb, Kind::Func, Kind::Enum, Kind::Sub, Kind::Class, Kind::Struct, Kind::Fb, Kind::Func];
    let npool = 4 + rng.below(6) as usize;
    let mut pool: Vec<PoolName> = Vec::new();
    for (i, kind) in kinds.iter().enumerate().take(npool) {
        let prefix = match kind {
            Kind::Struct => "Rec",
            Kind::Enum => "Mode",
            Kind::Sub => "Span",
            Kind::Fb => "Filt",
            Kind::Func => "Conv",
            Kind::Class => "Cell",
        };
        let name = names.fresh(rng, prefix);
        let mut decl: Vec<bool> = (0..nlibs).map(|_| rng.chance(3, 4)).collect();
        if i < 3 {
            decl[0] = true;
            decl[1] = true;
        }
        if !decl.iter().any(|d| *d) {
            decl[0] = true;
        }
        pool.push(PoolName { kind: *kind, name, decl });
    }
    let muls = [10u32, 254, 7, 33];
    let mut libs = String::new();
    for (j, path) in paths.iter().enumerate() {
        let simple = path.rsplit('.').next().unwrap_or(path.as_str());
        match forms[j] {
            3 => {
                let _ = writeln!(libs, "NAMESPACE {group}\nNAMESPACE {simple}");
            }
            _ => {
                let _ = writeln!(libs, "NAMESPACE {path}");
            }
        }
        // types first
        let types: Vec<&PoolName> = pool.iter().filter(|p| p.decl[j] && matches!(p.kind, Kind::Struct | Kind::Enum | Kind::Sub)).collect();
        if !types.is_empty() {
            let _ = writeln!(libs, "TYPE");
            for p in types {
                match p.kind {
                    Kind::Struct => {
                        let _ = writeln!(libs, "    {} : STRUCT\n        raw : DINT;", p.name);
                        for f in 0..j {
                            let _ = writeln!(libs, "        extra{f} : {};", ["INT", "BOOL", "DINT"][f % 3]);
                        }
                        let _ = writeln!(libs, "    END_STRUCT;");
                    }
                    Kind::Enum => {
                        let _ = writeln!(libs, "    {} : ({}L{j}A, {}L{j}B, {}L{j}C);", p.name, p.name, p.name, p.name);
                    }
                    _ => {
                        let _ = writeln!(libs, "    {} : DINT(0..{});", p.name, 100 * (j + 1));
                    }
                }
            }
            let _ = writeln!(libs, "END_TYPE");
        }
        for p in pool.iter().filter(|p| p.decl[j]) {
            let m = muls[j % 4];
            match p.kind {
                Kind::Fb => {
                    let _ = writeln!(
                        libs,
                        "FUNCTION_BLOCK {}\nVAR_INPUT\n    x : DINT;\nEND_VAR\nVAR_OUTPUT\n    y : DINT;\nEND_VAR\ny := (y + x * {m}) MOD 100000;\nEND_FUNCTION_BLOCK",
                        p.name
                    );
                }
                Kind::Func => {
                    let _ = writeln!(
                        libs,
                        "FUNCTION {} : DINT\nVAR_INPUT\n    v : DINT;\nEND_VAR\nVAR_IN_OUT\n    acc : DINT;\nEND_VAR\nacc := (acc * {} + v + {j}) MOD 100000;\n{} := v * {m};\nEND_FUNCTION",
                        p.name,
                        3 + 2 * j,
                        p.name
                    );
                }
                Kind::Class => {
                    let _ = writeln!(
                        libs,
                        "CLASS {}\nVAR PUBLIC\n    n : DINT := {};\nEND_VAR\nMETHOD PUBLIC Bump{j} : DINT\nn := (n + {m}) MOD 100000;\nBump{j} := n;\nEND_METHOD\nEND_CLASS",
                        p.name,
                        j + 1
                    );
                }
                _ => {}
            }
        }
        match forms[j] {
            3 => libs.push_str("END_NAMESPACE\nEND_NAMESPACE\n\n"),
            _ => libs.push_str("END_NAMESPACE\n\n"),
        }
    }

    // --- consumers
    // file-level imports: at least two libraries, random order, sometimes one of them twice
    let mut file_scope: Vec<usize> = Vec::new();
    {
        let mut order: Vec<usize> = (0..nlibs).collect();
        for i in (1..order.len()).rev() {
            order.swap(i, rng.below(i as u64 + 1) as usize);
        }
        let keep = 2 + rng.below((nlibs - 1) as u64) as usize;
        file_scope.extend(order.into_iter().take(keep));
    }
    let nconsumers = 2 + rng.below(4) as usize;
    let mut consumers: Vec<Consumer> = Vec::new();
    let mut sensitive = 0usize;
    let mut dup_chains = 0usize;
    for ci in 0..nconsumers {
        let kind = if ci == 0 {
            ConsumerKind::Program
        } else {
            *rng.pick(&[
                ConsumerKind::Program,
                ConsumerKind::Fb,
                ConsumerKind::Fb,
                ConsumerKind::Func,
                ConsumerKind::ClassMethod,
                ConsumerKind::TypeDecl,
            ])
        };
        // scope chain, outermost first; a few attempts to get an interesting one (an import repeated
        // on the chain and a usable name that two imported namespaces declare)
        let mut best: Option<(Vec<Vec<usize>>, usize, bool, bool)> = None;
        for _attempt in 0..8 {
            let depth = match kind {
                ConsumerKind::Fb | ConsumerKind::Func => *rng.pick(&[0usize, 0, 1, 2]),
                // the namespace that holds the TYPE block is the "own" scope; 0-1 further ones around it
                ConsumerKind::TypeDecl => *rng.pick(&[0usize, 0, 1]),
                _ => 0,
            };
            let mut chain: Vec<Vec<usize>> = vec![file_scope.clone()];
            for _ in 0..depth {
                chain.push(random_scope(rng, nlibs, 2));
            }
            // the POU's own imports: 1-2 libraries, usually one that an outer scope imports as well
            let mut own: Vec<usize> = Vec::new();
            let outer: Vec<usize> = chain.iter().flatten().copied().collect();
            if rng.chance(3, 4) && !outer.is_empty() {
                own.push(*rng.pick(&outer));
            } else {
                own.push(rng.below(nlibs as u64) as usize);
            }
            if rng.chance(1, 4) {
                own.push(rng.below(nlibs as u64) as usize);
            }
            if rng.chance(1, 8) {
                // the same import twice in ONE scope
                own.push(own[0]);
            }
            chain.push(own);
            if kind == ConsumerKind::ClassMethod {
                chain.push(random_scope(rng, nlibs, 2));
            }
            let flat: Vec<usize> = chain.iter().flatten().copied().collect();
            let mut distinct: Vec<usize> = Vec::new();
            for l in &flat {
                if !distinct.contains(l) {
                    distinct.push(*l);
                }
            }
            let has_dup = distinct.len() < flat.len();
            let clash = pool.iter().any(|p| checker_resolves(&chain, &p.decl).is_some() && distinct.iter().filter(|l| p.decl[**l]).count() >= 2);
            let usable = pool.iter().filter(|p| checker_resolves(&chain, &p.decl).is_some()).count();
            let good = has_dup && clash;
            if best.is_none() || good {
                best = Some((chain, usable, has_dup, clash));
            }
            if good {
                break;
            }
        }
        let (chain, _usable, has_dup, clash) = best.expect("at least one attempt");
        if has_dup {
            dup_chains += 1;
        }
        if has_dup && clash {
            sensitive += 1;
        }
        let usable: Vec<&PoolName> = pool.iter().filter(|p| checker_resolves(&chain, &p.decl).is_some()).collect();

        // declarations and statements from the usable names
        let in_callable = matches!(kind, ConsumerKind::Func | ConsumerKind::ClassMethod | ConsumerKind::TypeDecl);
        let mut decls = String::new();
        let mut body = String::new();
        for (i, p) in usable.iter().enumerate() {
            if rng.chance(1, 5) {
                continue;
            }
            let c = 1 + rng.below(9);
            match p.kind {
                Kind::Struct => {
                    let _ = writeln!(decls, "    r{i} : {};", p.name);
                    let _ = writeln!(body, "r{i}.raw := (r{i}.raw + {c}) MOD 1000;\no := (o + r{i}.raw) MOD 100000;");
                }
                Kind::Enum => {
                    let _ = writeln!(decls, "    m{i} : {};", p.name);
                }
                Kind::Sub => {
                    let _ = writeln!(decls, "    s{i} : {};", p.name);
                }
                Kind::Fb if !in_callable => {
                    let _ = writeln!(decls, "    f{i} : {};", p.name);
                    let _ = writeln!(body, "f{i}(x := {c});\no := (o + f{i}.y) MOD 100000;");
                }
                Kind::Func => {
                    let _ = writeln!(body, "t := {}({c}, acc);\no := (o + t) MOD 100000;", p.name);
                }
                Kind::Class if !in_callable => {
                    let _ = writeln!(decls, "    c{i} : {};", p.name);
                    let _ = writeln!(body, "o := (o + c{i}.n) MOD 100000;");
                }
                _ => {}
            }
        }
        let name = names.fresh(
            rng,
            match kind {
                ConsumerKind::Program => "PrgNs",
                ConsumerKind::Fb => "FbNs",
                ConsumerKind::Func => "FnNs",
                ConsumerKind::ClassMethod => "ClsNs",
                ConsumerKind::TypeDecl => "TyNs",
            },
        );
        let method = if kind == ConsumerKind::ClassMethod { names.fresh(rng, "Run") } else { String::new() };
        // enclosing consumer namespaces
        let depth = chain.len() - 2 - usize::from(kind == ConsumerKind::ClassMethod);
        let mut text = String::new();
        let mut qualified = String::new();
        for d in 0..depth {
            let ns = names.fresh(rng, "App");
            let _ = writeln!(text, "NAMESPACE {ns}");
            text.push_str(&using_text(rng, &chain[1 + d], &paths, 0));
            let _ = write!(qualified, "{ns}.");
        }
        let type_ns = if kind == ConsumerKind::TypeDecl { names.fresh(rng, "Shapes") } else { String::new() };
        if kind == ConsumerKind::TypeDecl {
            let _ = write!(qualified, "{type_ns}.");
        }
        qualified.push_str(&name);
        let own = using_text(rng, &chain[1 + depth], &paths, 0);
        match kind {
            ConsumerKind::TypeDecl => {
                let _ = writeln!(text, "NAMESPACE {type_ns}\n{own}TYPE\n    {name} : STRUCT\n        pad : DINT;\n{decls}    END_STRUCT;\nEND_TYPE\nEND_NAMESPACE");
            }
            ConsumerKind::Program => {
                let _ = writeln!(text, "PROGRAM {name}\n{own}VAR\n    o : DINT;\n    t : DINT;\n    acc : DINT;\n{decls}@INSTANCES@END_VAR\n{body}@CALLS@END_PROGRAM");
            }
            ConsumerKind::Fb => {
                let _ = writeln!(text, "FUNCTION_BLOCK {name}\n{own}VAR_OUTPUT\n    o : DINT;\nEND_VAR\nVAR\n    t : DINT;\n    acc : DINT;\n{decls}END_VAR\n{body}END_FUNCTION_BLOCK");
            }
            ConsumerKind::Func => {
                let _ = writeln!(
                    text,
                    "FUNCTION {name} : DINT\n{own}VAR_INPUT\n    v : DINT;\nEND_VAR\nVAR\n    o : DINT;\n    t : DINT;\n    acc : DINT;\n{decls}END_VAR\no := v;\n{body}{name} := (o + acc) MOD 100000;\nEND_FUNCTION"
                );
            }
            ConsumerKind::ClassMethod => {
                let musing = using_text(rng, &chain[2 + depth], &paths, 0);
                let _ = writeln!(
                    text,
                    "CLASS {name}\n{own}VAR PUBLIC\n    o : DINT;\n    acc : DINT;\nEND_VAR\nMETHOD PUBLIC {method} : DINT\n{musing}VAR_INPUT\n    v : DINT;\nEND_VAR\nVAR\n    t : DINT;\n{decls}END_VAR\no := (o + v) MOD 100000;\n{body}{method} := (o + acc) MOD 100000;\nEND_METHOD\nEND_CLASS"
                );
            }
        }
        for _ in 0..depth {
            text.push_str("END_NAMESPACE\n");
        }
        text.push('\n');
        consumers.push(Consumer { kind, name, qualified, method, text });
    }
    // programs instantiate / call the other consumers (each non-program consumer by exactly one program)
    let prog_idx: Vec<usize> = consumers.iter().enumerate().filter(|(_, c)| c.kind == ConsumerKind::Program).map(|(i, _)| i).collect();
    let mut inst: Vec<String> = vec![String::new(); consumers.len()];
    let mut calls: Vec<String> = vec![String::new(); consumers.len()];
    for i in 0..consumers.len() {
        if consumers[i].kind == ConsumerKind::Program {
            continue;
        }
        let host = *rng.pick(&prog_idx);
        let c = &consumers[i];
        match c.kind {
            ConsumerKind::Fb => {
                let _ = writeln!(inst[host], "    w{i} : {};", c.qualified);
                let _ = writeln!(calls[host], "w{i}();\no := (o + w{i}.o) MOD 100000;");
            }
            ConsumerKind::Func => {
                let _ = writeln!(calls[host], "t := {}({});\no := (o + t) MOD 100000;", c.qualified, 1 + rng.below(9));
            }
            ConsumerKind::ClassMethod => {
                let _ = writeln!(inst[host], "    k{i} : {};", c.qualified);
                let _ = writeln!(calls[host], "t := k{i}.{}({});\no := (o + t) MOD 100000;", c.method, 1 + rng.below(9));
            }
            ConsumerKind::TypeDecl => {
                let _ = writeln!(inst[host], "    y{i} : {};", c.qualified);
                let _ = writeln!(calls[host], "y{i}.pad := (y{i}.pad + 1) MOD 1000;");
            }
            ConsumerKind::Program => {}
        }
    }
    let mut users = String::new();
    // file-level directives: before the consumers, or (sometimes) after them
    let file_using = using_text(rng, &file_scope, &paths, 0);
    let using_last = rng.chance(1, 4);
    if !using_last {
        users.push_str(&file_using);
        users.push('\n');
    }
    let mut programs = Vec::new();
    for (i, c) in consumers.iter().enumerate() {
        let t = c.text.replace("@INSTANCES@", &inst[i]).replace("@CALLS@", &calls[i]);
        users.push_str(&t);
        if c.kind == ConsumerKind::Program {
            programs.push(c.name.clone());
        }
    }
    if using_last {
        users.push_str(&file_using);
        users.push('\n');
    }
    tags.push("ns".into());
    if dup_chains > 0 {
        tags.push("ns-import-twice".into());
    }
    if sensitive > 0 {
        tags.push("ns-import-twice-and-clash".into());
    }
    if forms.iter().any(|f| *f >= 2) {
        tags.push("ns-nested-lib".into());
    }
    for k in [ConsumerKind::Fb, ConsumerKind::Func, ConsumerKind::ClassMethod, ConsumerKind::TypeDecl] {
        if consumers.iter().any(|c| c.kind == k) {
            tags.push(format!("ns-consumer-{k:?}").to_lowercase());
        }
    }
    if consumers.iter().any(|c| c.qualified.contains('.')) {
        tags.push("ns-consumer-in-namespace".into());
    }
    NsUnit { libs, users, programs, tags }
}

// ------------------------------------------------------------------------------------------------
// Evaluation order of named arguments
// ------------------------------------------------------------------------------------------------

pub struct ArgUnit {
    /// `VAR_GLOBAL` block for the CONFIGURATION
    pub globals: String,
    pub text: String,
    pub program: String,
    pub tags: Vec<String>,
}

struct ArgNames {
    glog: String,
    mark_io: String,
    mark_g: String,
    mark_s: String,
    tracer: String,
    tmark: String,
    comb: String,
    accfb: String,
    tcomb: String,
}

/// An argument expression of type DINT that leaves digit `d` in a log and evaluates to `d`.
fn mark_dint(rng: &mut Rng, a: &ArgNames, d: u64) -> String {
    match rng.below(4) {
        0 => format!("{}(d := {d}, c := log)", a.mark_io),
        1 => format!("{}(d := {d})", a.mark_g),
        2 => format!("tr.{}(d := {d})", a.tmark),
        // positional inner call, plus arithmetic on the result
        _ => format!("({}({d}) + 0)", a.mark_g),
    }
}

/// An argument expression of type DINT that faults: (text, class tag).
fn fault_dint(which: u64, d: u64) -> (String, &'static str) {
    match which % 3 {
        0 => (format!("({d} / zero)"), "div"),
        1 => (format!("({d} MOD zero)"), "mod"),
        _ => ("arr[idx]".to_string(), "index"),
    }
}

fn shuffled<T>(rng: &mut Rng, mut v: Vec<T>) -> Vec<T> {
    for i in (1..v.len()).rev() {
        v.swap(i, rng.below(i as u64 + 1) as usize);
    }
    v
}

const VARIADIC: &[&str] = &["ADD", "MUL", "MIN", "MAX", "MUX", "GT", "GE", "EQ", "LE", "LT", "CONCAT"];

/// One formal call of the extensible function `f` with `k` IN arguments; `exprs[i]` is the expression
/// of the i-th IN argument; the arguments are written in a random order.
fn variadic_call(rng: &mut Rng, a: &ArgNames, f: &str, exprs: &[String]) -> String {
    let mut args: Vec<String> = Vec::new();
    let start = if f == "MUX" { 0 } else { 1 };
    for (i, e) in exprs.iter().enumerate() {
        // parameter names are not case sensitive
        let pname = if rng.chance(1, 6) { "in" } else { "IN" };
        args.push(format!("{pname}{} := {e}", i + start));
    }
    if f == "MUX" {
        let sel = rng.below(exprs.len() as u64);
        args.push(format!("K := ({}(d := 9) - 9 + {sel})", a.mark_g));
    }
    let args = shuffled(rng, args);
    format!("{f}({})", args.join(", "))
}

pub(super) fn gen_arg_order(rng: &mut Rng, names: &mut Names, cycles: usize) -> ArgUnit {
    let a = ArgNames {
        glog: names.fresh(rng, "aoLog"),
        mark_io: names.fresh(rng, "MarkIo"),
        mark_g: names.fresh(rng, "MarkG"),
        mark_s: names.fresh(rng, "MarkS"),
        tracer: names.fresh(rng, "Tracer"),
        tmark: names.fresh(rng, "Note"),
        comb: names.fresh(rng, "Comb"),
        accfb: names.fresh(rng, "Acc"),
        tcomb: names.fresh(rng, "Join"),
    };
    let mut tags: Vec<String> = vec!["args".into()];
    let globals = format!("VAR_GLOBAL\n    {} : DINT := 0;\nEND_VAR\n", a.glog);
    let mut s = String::new();
    let g = &a.glog;
    let _ = writeln!(
        s,
        "FUNCTION {} : DINT\nVAR_INPUT\n    d : DINT;\nEND_VAR\nVAR_IN_OUT\n    c : DINT;\nEND_VAR\nc := (c * 10 + d) MOD 1000000;\n{} := d;\nEND_FUNCTION\n",
        a.mark_io, a.mark_io
    );
    let _ = writeln!(
        s,
        "FUNCTION {} : DINT\nVAR_INPUT\n    d : DINT;\nEND_VAR\nVAR_EXTERNAL\n    {g} : DINT;\nEND_VAR\n{g} := ({g} * 10 + d) MOD 1000000;\n{} := d;\nEND_FUNCTION\n",
        a.mark_g, a.mark_g
    );
    let _ = writeln!(
        s,
        "FUNCTION {} : STRING[8]\nVAR_INPUT\n    d : DINT;\nEND_VAR\nVAR_EXTERNAL\n    {g} : DINT;\nEND_VAR\n{g} := ({g} * 10 + d) MOD 1000000;\nIF d > 2 THEN\n    {} := 'hi';\nELSE\n    {} := 'lo';\nEND_IF;\nEND_FUNCTION\n",
        a.mark_s, a.mark_s, a.mark_s
    );
    let _ = writeln!(
        s,
        "FUNCTION_BLOCK {}\nVAR\n    seen : DINT;\nEND_VAR\nMETHOD PUBLIC {} : DINT\nVAR_INPUT\n    d : DINT;\nEND_VAR\nseen := (seen * 10 + d) MOD 1000000;\n{} := d;\nEND_METHOD\nMETHOD PUBLIC {} : DINT\nVAR_INPUT\n    a : DINT;\n    b : DINT;\n    c : DINT;\nEND_VAR\n{} := a * 100 + b * 10 + c;\nEND_METHOD\nEND_FUNCTION_BLOCK\n",
        a.tracer, a.tmark, a.tmark, a.tcomb, a.tcomb
    );
    let _ = writeln!(
        s,
        "FUNCTION {} : DINT\nVAR_INPUT\n    a : DINT;\n    b : DINT;\n    c : DINT;\nEND_VAR\n{} := a * 100 + b * 10 + c;\nEND_FUNCTION\n",
        a.comb, a.comb
    );
    let _ = writeln!(
        s,
        "FUNCTION_BLOCK {}\nVAR_INPUT\n    a : DINT;\n    b : DINT;\n    c : DINT;\nEND_VAR\nVAR_OUTPUT\n    y : DINT;\nEND_VAR\ny := (y + a * 100 + b * 10 + c) MOD 100000;\nEND_FUNCTION_BLOCK\n",
        a.accfb
    );
    let program = names.fresh(rng, "PrgArgs");
    let mut decl = String::new();
    let mut body = String::new();
    let _ = writeln!(decl, "    log : DINT := 0;\n    tr : {};\n    acc : {};\n    n : DINT := 0;\n    zero : DINT := 0;\n    idx : DINT := 9;\n    arr : ARRAY[0..3] OF DINT;", a.tracer, a.accfb);
    let _ = writeln!(body, "n := n + 1;");
    let ncalls = 4 + rng.below(7) as usize;
    let mut used_fns: Vec<&str> = Vec::new();
    for ci in 0..ncalls {
        match rng.below(10) {
            0..=5 => {
                // extensible standard function; every one of them appears over the cases
                let f = *rng.pick(VARIADIC);
                let k = 2 + rng.below(3) as usize;
                if f == "CONCAT" {
                    let exprs: Vec<String> = (0..k).map(|i| format!("{}(d := {})", a.mark_s, i + 1)).collect();
                    let _ = writeln!(decl, "    s{ci} : STRING[40];");
                    let _ = writeln!(body, "s{ci} := {};", variadic_call(rng, &a, f, &exprs));
                } else {
                    let exprs: Vec<String> = (0..k).map(|i| mark_dint(rng, &a, i as u64 + 1)).collect();
                    let is_cmp = matches!(f, "GT" | "GE" | "EQ" | "LE" | "LT");
                    let _ = writeln!(decl, "    v{ci} : {};", if is_cmp { "BOOL" } else { "DINT" });
                    let _ = writeln!(body, "v{ci} := {};", variadic_call(rng, &a, f, &exprs));
                }
                if !used_fns.contains(&f) {
                    used_fns.push(f);
                }
            }
            6 | 7 => {
                // fixed-arity standard functions, formal call, arguments in a random order
                let (f, params): (&str, Vec<&str>) = match rng.below(5) {
                    0 => ("SUB", vec!["IN1", "IN2"]),
                    1 => ("DIV", vec!["IN1", "IN2"]),
                    2 => ("SEL", vec!["G", "IN0", "IN1"]),
                    3 => ("LIMIT", vec!["MN", "IN", "MX"]),
                    _ => ("FIND", vec!["IN1", "IN2"]),
                };
                let mut args: Vec<String> = Vec::new();
                for (i, p) in params.iter().enumerate() {
                    let d = i as u64 + 1;
                    let e = match (f, *p) {
                        ("SEL", "G") => format!("({} > 0)", mark_dint(rng, &a, d)),
                        ("FIND", _) => format!("{}(d := {d})", a.mark_s),
                        _ => mark_dint(rng, &a, d),
                    };
                    args.push(format!("{p} := {e}"));
                }
                let args = shuffled(rng, args);
                let _ = writeln!(decl, "    v{ci} : {};", if f == "FIND" { "INT" } else { "DINT" });
                let _ = writeln!(body, "v{ci} := {f}({});", args.join(", "));
                tags.push("args-fixed-std".into());
            }
            8 => {
                // user function / method, formal call in a random order
                let args: Vec<String> = ["a", "b", "c"].iter().enumerate().map(|(i, p)| format!("{p} := {}", mark_dint(rng, &a, i as u64 + 1))).collect();
                let args = shuffled(rng, args);
                let _ = writeln!(decl, "    v{ci} : DINT;");
                if rng.bool() {
                    let _ = writeln!(body, "v{ci} := {}({});", a.comb, args.join(", "));
                } else {
                    let _ = writeln!(body, "v{ci} := tr.{}({});", a.tcomb, args.join(", "));
                }
                tags.push("args-user-call".into());
            }
            _ => {
                // function-block invocation with formal inputs in a random order
                let args: Vec<String> = ["a", "b", "c"].iter().enumerate().map(|(i, p)| format!("{p} := {}", mark_dint(rng, &a, i as u64 + 1))).collect();
                let args = shuffled(rng, args);
                let _ = writeln!(body, "acc({});", args.join(", "));
                tags.push("args-fb-call".into());
            }
        }
    }
    // faults: from a given execution of the program on, one call whose arguments fault in at least two
    // different ways (plus, possibly, arguments with side effects); the latched fault and the log show
    // which argument was evaluated first
    if rng.chance(1, 2) {
        let at = 2 + rng.below((cycles.max(4) / 2) as u64);
        let dint_fns: Vec<&str> = VARIADIC.iter().copied().filter(|f| *f != "CONCAT").collect();
        let f = *rng.pick(&dint_fns);
        let k = 2 + rng.below(3) as usize;
        let first_class = rng.below(3);
        let pos = shuffled(rng, (0..k).collect::<Vec<usize>>());
        let mut classes: Vec<&str> = Vec::new();
        let exprs: Vec<String> = (0..k)
            .map(|i| {
                let rank = pos.iter().position(|p| *p == i).unwrap_or(0);
                if rank < 2 || rng.chance(1, 3) {
                    let (e, c) = fault_dint(first_class + rank as u64, i as u64 + 1);
                    if !classes.contains(&c) {
                        classes.push(c);
                    }
                    e
                } else {
                    mark_dint(rng, &a, i as u64 + 1)
                }
            })
            .collect();
        let is_cmp = matches!(f, "GT" | "GE" | "EQ" | "LE" | "LT");
        let _ = writeln!(decl, "    vf : {};", if is_cmp { "BOOL" } else { "DINT" });
        let _ = writeln!(body, "IF n >= {at} THEN\n    vf := {};\nEND_IF;", variadic_call(rng, &a, f, &exprs));
        tags.push("args-faults".into());
        tags.push(format!("args-fault-classes-{}", classes.len()));
    }
    for f in used_fns {
        tags.push(format!("args-{}", f.to_lowercase()));
    }
    let _ = writeln!(s, "PROGRAM {program}\nVAR\n{decl}END_VAR\n{body}END_PROGRAM\n");
    tags.sort();
    tags.dedup();
    ArgUnit { globals, text: s, program, tags }
}
