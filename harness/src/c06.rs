//! C06 — task scheduling.  Generates CONFIGURATION sources with 1..6 tasks, builds them through
//! the real compiler (`TestHarness::from_source`), drives a generated timeline and records, per
//! cycle, the executed task sequence (TaskStart events), the executed program sequence (a shared
//! sequence counter stamped by every program body), overrun events and overrun counters.

use crate::rng::Rng;
use crate::util::{join, Out};
use crate::Args;
use trust_runtime::debug::RuntimeEvent;
use trust_runtime::harness::TestHarness;
use trust_runtime::value::{Duration, Value};

#[derive(Clone, Debug)]
pub struct TaskSpec {
    pub interval_ms: i64,
    pub single: Option<usize>,
    pub priority: u32,
    /// how the INTERVAL/PRIORITY are written in the source (0..=5); same meaning, different syntax
    pub style: u8,
}

#[derive(Clone, Debug)]
pub struct Case {
    pub tasks: Vec<TaskSpec>,
    /// task index per program instance (None = background), in declaration order
    pub prog_task: Vec<Option<usize>>,
    /// per program instance: task that runs its FB member `fb` (None = the program has no FB member)
    pub prog_fb: Vec<Option<usize>>,
    pub sv_init: Vec<bool>,
    /// (dt in ns before the cycle, values of the BOOL globals for this cycle)
    pub timeline: Vec<(i64, Vec<bool>)>,
}

const MS: i64 = 1_000_000;

pub fn gen_case(rng: &mut Rng, cycles: usize) -> Case {
    let ntasks = 1 + rng.below(6) as usize;
    let nsv = 1 + rng.below(3) as usize;
    let intervals = [0i64, 0, 1, 2, 3, 5, 10, 10];
    let equal_prio = rng.chance(1, 3);
    let tasks: Vec<TaskSpec> = (0..ntasks)
        .map(|_| TaskSpec {
            interval_ms: *rng.pick(&intervals),
            single: if rng.chance(1, 2) {
                Some(rng.below(nsv as u64) as usize)
            } else {
                None
            },
            priority: if equal_prio { 1 } else { rng.below(4) as u32 },
            style: rng.below(6) as u8,
        })
        .collect();
    let nprogs = 1 + rng.below(ntasks as u64 + 2) as usize;
    let prog_task = (0..nprogs)
        .map(|_| {
            if rng.chance(3, 4) {
                Some(rng.below(ntasks as u64) as usize)
            } else {
                None
            }
        })
        .collect();
    let with_fbs = rng.chance(1, 3);
    let prog_fb = (0..nprogs)
        .map(|_| {
            if with_fbs && rng.chance(1, 2) {
                Some(rng.below(ntasks as u64) as usize)
            } else {
                None
            }
        })
        .collect();
    let sv_init: Vec<bool> = (0..nsv).map(|_| rng.chance(1, 4)).collect();
    let dts = [0i64, 0, 1, 1, 2, 3, 5, 7, 10, 10, 25, 100];
    let mut cur = sv_init.clone();
    let sub_ms = rng.chance(1, 5);
    let timeline = (0..cycles)
        .map(|_| {
            for b in cur.iter_mut() {
                if rng.chance(1, 3) {
                    *b = !*b;
                }
            }
            let mut dt = *rng.pick(&dts) * MS;
            if sub_ms && rng.chance(1, 2) {
                dt += rng.range(-999_999, 999_999).max(-dt);
            }
            (dt, cur.clone())
        })
        .collect();
    Case {
        tasks,
        prog_task,
        prog_fb,
        sv_init,
        timeline,
    }
}

pub fn render_source(case: &Case) -> String {
    let mut s = String::new();
    s.push_str("CONFIGURATION C\nVAR_GLOBAL\n    seq : DINT := 0;\n");
    for (i, b) in case.sv_init.iter().enumerate() {
        s.push_str(&format!(
            "    sv{i} : BOOL := {};\n",
            if *b { "TRUE" } else { "FALSE" }
        ));
    }
    s.push_str("END_VAR\n");
    for (i, t) in case.tasks.iter().enumerate() {
        let single = match t.single {
            Some(v) => format!("SINGLE := sv{v}, "),
            None => String::new(),
        };
        // equivalent spellings of the same duration / defaults, to cover the CONFIGURATION lowering
        let ms = t.interval_ms;
        let interval = match t.style {
            1 => format!("TIME#{ms}ms"),
            2 => format!("T#{}us", ms * 1000),
            3 if ms >= 2 => format!("T#{}ms{}us", ms - 1, 1000),
            4 => format!("t#{ms}MS"),
            _ => format!("T#{ms}ms"),
        };
        let interval_part = if t.style == 5 && ms == 0 && t.single.is_some() {
            String::new() // INTERVAL omitted: defaults to T#0ms
        } else {
            format!("INTERVAL := {interval}, ")
        };
        s.push_str(&format!(
            "TASK T{i} ({single}{interval_part}PRIORITY := {});\n",
            t.priority
        ));
    }
    for (p, t) in case.prog_task.iter().enumerate() {
        let fb = match case.prog_fb[p] {
            Some(ft) => format!(" (fb WITH T{ft})"),
            None => String::new(),
        };
        match t {
            Some(t) => s.push_str(&format!("PROGRAM I{p} WITH T{t} : Prog{p}{fb};\n")),
            None => s.push_str(&format!("PROGRAM I{p} : Prog{p}{fb};\n")),
        }
    }
    s.push_str("END_CONFIGURATION\n\n");
    let mut pous = String::new();
    for p in 0..case.prog_task.len() {
        let member = if case.prog_fb[p].is_some() {
            pous.push_str(&format!(
                "FUNCTION_BLOCK Fb{p}\nVAR_EXTERNAL\n    seq : DINT;\nEND_VAR\nVAR\n    stamp : DINT := 0;\nEND_VAR\nseq := seq + 1;\nstamp := seq;\nEND_FUNCTION_BLOCK\n\n"
            ));
            format!("    fb : Fb{p};\n")
        } else {
            String::new()
        };
        pous.push_str(&format!(
            "PROGRAM Prog{p}\nVAR_EXTERNAL\n    seq : DINT;\nEND_VAR\nVAR\n    stamp : DINT := 0;\n{member}END_VAR\nseq := seq + 1;\nstamp := seq;\nEND_PROGRAM\n\n"
        ));
    }
    // FUNCTION_BLOCKs first so that program types can refer to them
    format!("{pous}{s}")
}

fn as_i64(v: Option<&Value>) -> i64 {
    match v {
        Some(Value::DInt(v)) => i64::from(*v),
        Some(Value::Int(v)) => i64::from(*v),
        Some(Value::LInt(v)) => *v,
        Some(Value::SInt(v)) => i64::from(*v),
        other => panic!("unexpected integer value {other:?}"),
    }
}

fn bits(bs: &[bool]) -> String {
    join(bs.iter().map(|b| if *b { "1" } else { "0" }), " ")
}

/// Runs one case on the implementation and appends it (ops + `impl` lines) to `out`.
pub fn run_case(n: u64, case: &Case, out: &mut Out) -> Result<(), String> {
    let source = render_source(case);
    let mut h = TestHarness::from_source(&source).map_err(|e| format!("compile: {e}"))?;
    let control = h.runtime_mut().enable_debug();
    let _ = control.drain_runtime_events();
    let nprogs = case.prog_task.len();
    out.line(format!("case {n}"));
    out.line(format!("progs {nprogs}"));
    // The runtime's own view of the configuration (so that the compiler's translation of the
    // CONFIGURATION is part of what is compared with the model).
    let rt_tasks = h.runtime().tasks().to_vec();
    let prog_names: Vec<String> = h
        .runtime()
        .programs()
        .keys()
        .map(|k| k.to_string())
        .collect();
    // A configuration the compiler translated differently (a task or program missing) is not a
    // harness error: the case runs on and the executed sequences differ from the model's, which
    // is reported as a failing input of the property.
    if rt_tasks.len() != case.tasks.len() || prog_names.len() != nprogs {
        out.count("configuration_shape_differs");
    }
    for (i, t) in case.tasks.iter().enumerate() {
        let mut progs: Vec<usize> = case
            .prog_task
            .iter()
            .enumerate()
            .filter(|(_, pt)| **pt == Some(i))
            .map(|(p, _)| p)
            .collect();
        // FB instances of the task run after its programs; unit id of program p's FB = nprogs + p
        progs.extend(
            case.prog_fb
                .iter()
                .enumerate()
                .filter(|(_, ft)| **ft == Some(i))
                .map(|(p, _)| nprogs + p),
        );
        out.line(format!(
            "task {} {} {} {}",
            t.interval_ms * MS,
            t.single.map(|v| v as i64).unwrap_or(-1),
            t.priority,
            join(progs.iter(), " ")
        ));
    }
    out.line(format!(
        "reg {} {}",
        h.runtime().current_time().as_nanos(),
        bits(&case.sv_init)
    ));
    let ids: Vec<_> = (0..nprogs)
        .map(|p| match h.runtime().storage().get_global(&format!("I{p}")) {
            Some(Value::Instance(id)) => *id,
            other => panic!("program instance I{p}: {other:?}"),
        })
        .collect();
    // unit ids: programs 0..nprogs, then the FB member of program p as nprogs + p
    let mut units: Vec<(usize, trust_runtime::memory::InstanceId)> =
        ids.iter().copied().enumerate().collect();
    for (p, ft) in case.prog_fb.iter().enumerate() {
        if ft.is_some() {
            match h.runtime().storage().get_instance_var(ids[p], "fb") {
                Some(Value::Instance(id)) => units.push((nprogs + p, *id)),
                other => panic!("fb member of I{p}: {other:?}"),
            }
        }
    }
    if case.prog_fb.iter().any(|f| f.is_some()) {
        out.count("cases_with_fb_tasks");
    }
    let mut last_seq = 0i64;
    let mut nontrivial = false;
    for (dt, svs) in &case.timeline {
        h.advance_time(Duration::from_nanos(*dt));
        for (i, b) in svs.iter().enumerate() {
            h.runtime_mut()
                .storage_mut()
                .set_global(format!("sv{i}"), Value::Bool(*b));
        }
        let now = h.runtime().current_time().as_nanos();
        out.line(format!("cycle {now} {}", bits(svs)));
        let res = h.cycle();
        if !res.errors.is_empty() {
            out.line(format!("impl error {:?}", res.errors));
            out.count("cycle_error");
            continue;
        }
        let mut tasks_run = Vec::new();
        let mut ovev = Vec::new();
        for ev in control.drain_runtime_events() {
            match ev {
                RuntimeEvent::TaskStart { name, .. } => {
                    let idx: usize = name.as_str()[1..].parse().expect("task name");
                    tasks_run.push(idx);
                }
                RuntimeEvent::TaskOverrun { name, missed, .. } => {
                    let idx: usize = name.as_str()[1..].parse().expect("task name");
                    ovev.push(format!("{idx}:{missed}"));
                }
                _ => {}
            }
        }
        let seq = as_i64(h.runtime().storage().get_global("seq"));
        let mut stamped: Vec<(i64, usize)> = units
            .iter()
            .map(|(u, id)| (as_i64(h.runtime().storage().get_instance_var(*id, "stamp")), *u))
            .filter(|(s, _)| *s > last_seq)
            .collect();
        stamped.sort();
        if stamped.len() as i64 != seq - last_seq {
            // a program ran twice in one cycle: report raw so the diff shows it
            out.count("program_ran_twice");
        }
        last_seq = seq;
        let ovc: Vec<u64> = (0..case.tasks.len())
            .map(|i| h.runtime().task_overrun_count(&format!("T{i}")).unwrap_or(u64::MAX))
            .collect();
        out.line(format!(
            "impl tasks={} progs={} ovev={} ovc={}",
            join(tasks_run.iter(), ","),
            join(stamped.iter().map(|(_, p)| *p), ","),
            ovev.join(","),
            join(ovc.iter(), ",")
        ));
        out.count("cycles");
        out.add("task_activations", tasks_run.len() as u64);
        if tasks_run.len() >= 2 {
            out.count("cycles_with_2plus_tasks");
            nontrivial = true;
        }
        if !ovev.is_empty() {
            out.count("cycles_with_overrun");
            nontrivial = true;
        }
    }
    if nontrivial {
        out.line("tag nontrivial");
    }
    out.line("end");
    Ok(())
}

pub fn run(args: &Args) -> i32 {
    let mut out = Out::new();
    let cycles = args.extra_usize("cycles", 30);
    for n in args.case_numbers() {
        let mut rng = Rng::for_case(args.seed, n);
        let case = gen_case(&mut rng, cycles);
        if let Err(e) = run_case(n, &case, &mut out) {
            eprintln!("case {n}: {e}\n{}", render_source(&case));
            return 3;
        }
        out.count("cases");
    }
    out.finish(&args.out);
    0
}
